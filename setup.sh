#!/bin/bash
# Builds the checker offline from /verif/checker.  Run once after a fresh restore.
set -e
cd "$(dirname "$0")"
. ./env.sh
mkdir -p bin evidence
(cd checker && go build -o ../bin/stsverif .)
echo "built bin/stsverif"
