#!/opt/veriftools/pyvenv/bin/python3
import json, sys, glob, jsonschema
jsonschema.validate(json.load(open('/verif/MANIFEST.json')), json.load(open('/root/.vp/MANIFEST.schema.json')))
sch = json.load(open('/root/.vp/EVIDENCE.schema.json'))
for f in sorted(glob.glob('/verif/evidence/C*.json')):
    jsonschema.validate(json.load(open(f)), sch)
print('manifest + %d evidence files valid' % len(glob.glob('/verif/evidence/C*.json')))
