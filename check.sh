#!/bin/bash
# usage: check.sh <property-id> [quick|thorough]
# Analyses /repo's current working tree (nothing under /repo is executed).
cd "$(dirname "$0")"
. ./env.sh
id=$1; tier=${2:-${VERIF_TIER:-quick}}
REPO=${VERIF_REPO:-/repo}
if [ ! -x bin/stsverif ] || [ -n "$(find checker -newer bin/stsverif -name '*.go' 2>/dev/null | head -1)" ]; then
  (cd checker && go build -o ../bin/stsverif .) || { echo "cannot build checker"; exit 1; }
fi
exec ./bin/stsverif -repo "$REPO" -prop "$id" -tier "$tier" -evidence "$(pwd)/evidence" -known "$(pwd)/known_findings.json"
