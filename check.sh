#!/bin/bash
# usage: check.sh <property-id> [quick|thorough]
# Analyses /repo's current working tree (nothing under /repo is executed).
#   quick    : the property's rule set over the loaded, type-checked, SSA-converted module
#   thorough : the same rule set, then a sensitivity audit - every recorded variant of the
#              CURRENT source with one rule instance broken (and every behaviour-preserving
#              rewrite) is analysed through a go/packages overlay; the audit's outcome is
#              added to the evidence (it never turns into a VIOLATION of the property)
cd "$(dirname "$0")"
. ./env.sh
id=$1; tier=${2:-${VERIF_TIER:-quick}}
REPO=${VERIF_REPO:-/repo}
if [ ! -x bin/stsverif ] || [ -n "$(find checker -newer bin/stsverif -name '*.go' 2>/dev/null | head -1)" ]; then
  (cd checker && go build -o ../bin/stsverif .) || { echo "cannot build checker"; exit 1; }
fi
./bin/stsverif -repo "$REPO" -prop "$id" -tier "$tier" -evidence "$(pwd)/evidence" -known "$(pwd)/known_findings.json"
rc=$?
if [ "$tier" = thorough ] && [ -f "evidence/$id.json" ]; then
  tmp=$(mktemp -d /var/tmp/stsverif-audit.XXXXXX)
  VERIF_REPO="$REPO" python3 selftest/run.py -j ${VERIF_JOBS:-12} --json "$tmp/audit.json" "$id" > "$tmp/audit.log" 2>&1
  python3 selftest/merge_audit.py "evidence/$id.json" "$tmp/audit.json" "$id"
  rm -rf "$tmp"
fi
exit $rc
