package main

import (
	"fmt"
	"regexp"
	"sort"
	"strings"

	"golang.org/x/tools/go/ssa"
)

func init() { register("C06", rulesC06) }

func rulesC06(e *Engine, r *Report) {
	sc := e.stageConsts(r, "R06")
	if !sc.ok {
		return
	}
	// ---------------------------------------------------------------- R06.1
	r.Rule("R06.1", "data before record: in Receive the bytes are copied into the handle opened on <path>.part and positioned at the part's Beg, the handle is closed, and only then - on paths where the copy returned no error and exactly End-Beg bytes - is the range added to the companion and the companion replaced; the Part→Full rename additionally needs the companion write to have succeeded")
	if fn := needFn(e, r, "R06.1", "stage.(*Stage).Receive"); fn != nil {
		path := "call(filepath.Join)([p0.rootDir, p1.Name])"
		fh := `call(os.OpenFile)((` + path + ` + ".part"), 1, 384)#0`
		fhAny := `call(os.OpenFile)((` + path + ` + ".part"), §)#0`
		cp := "call(io.Copy)(" + fh + ", p2)"
		cmpv := "call(stage.newLocalCompanion)(" + path + ", p1)#0"
		cls := labeler(
			C("(call(os.(*File).Seek)("+fhAny+", p1.Parts[0].Beg, 0)#1 == nil)", "seeked"),
			I("call(io.Copy)("+fhAny+", p2)", "copied"),
			I("call(os.(*File).Close)("+fhAny+")", "closed"),
			C("(call(io.Copy)("+fhAny+", p2)#1 == nil)", "copyOK"),
			C("((p1.Parts[0].End - p1.Parts[0].Beg) == call(io.Copy)("+fhAny+", p2)#0)", "countOK"),
			C("(call(io.Copy)("+fhAny+", p2)#0 == (p1.Parts[0].End - p1.Parts[0].Beg))", "countOK"),
			C("(call(stage.writeCompanion)(("+path+" + \".cmp\"), "+cmpv+") == nil)", "recorded"),
			I("call(stage.addCompanionPart)("+cmpv+", p1.Parts[0].Beg, p1.Parts[0].End)", "rangeAdded"),
		)
		_ = cp
		n := e.Guarded(r, "R06.1", "stage.(*Stage).Receive: io.Copy into the partial", fn, e.instrMatch("call(io.Copy)(§)"), cls,
			func(l LabelSet) bool { return l.Has("seeked") }, "handle on <path>.part positioned at part.Beg (Seek ok)")
		r.Min("R06.1", "copies into the partial", n, 1)
		dataFirst := func(l LabelSet) bool { return l.HasAll("copied", "closed", "copyOK", "countOK") }
		n = e.Guarded(r, "R06.1", "stage.(*Stage).Receive: addCompanionPart", fn, e.instrMatch("call(stage.addCompanionPart)(§)"), cls, dataFirst,
			"copy done, handle closed, err == nil, count == End-Beg")
		n += e.Guarded(r, "R06.1", "stage.(*Stage).Receive: writeCompanion", fn, e.instrMatch("call(stage.writeCompanion)(§)"), cls,
			func(l LabelSet) bool { return dataFirst(l) && l.Has("rangeAdded") }, "copy done, handle closed, err == nil, count == End-Beg, range added to this companion")
		n += e.Guarded(r, "R06.1", "stage.(*Stage).Receive: os.Rename[Part→Full]", fn, e.instrMatch(`call(os.Rename)(§ + ".part"), § + ".full"))`), cls,
			func(l LabelSet) bool { return dataFirst(l) && l.Has("recorded") }, "data written and companion replaced successfully")
		r.Min("R06.1", "record/rename sites after the data", n, 3)
		// the error return: Receive returns nil only after the companion was written
		nilRets := 0
		for _, rw := range e.returnWorlds(r, "R06.1", fn, cls) {
			ret := rw.In.(*ssa.Return)
			if len(ret.Results) != 1 {
				continue
			}
			rv := e.Canon(ret.Results[0])
			if rv == "nil" || rw.W.Has("ret0=nil") || strings.HasPrefix(rv, "call(stage.writeCompanion)") || rv == "var(err)" {
				// a possibly-nil error return
				if strings.HasPrefix(rv, "call(fmt.Errorf)") {
					continue
				}
				nilRets++
				r.Check(rw.W.Has("recorded") && dataFirst(rw.W), "R06.1", fmt.Sprintf("stage.(*Stage).Receive: success return #%d %s", nilRets, rw.W.String()), e.InstrPos(rw.In),
					"Receive can report success (nil) for a part that is not durably on record", 1, "returns "+rv, rw.W.String())
			}
		}
		r.Min("R06.1", "success returns of Receive", nilRets, 1)
	}

	// ---------------------------------------------------------------- R06.2
	r.Rule("R06.2", "atomic replace: fileutil.writeJSON writes only <path>.lck and then renames it onto <path> (rename only after a successful write); the companion writer and the queue-cache writer go through it; nothing in stage or cache writes a companion/cache file in place")
	if fn := needFn(e, r, "R06.2", "fileutil.writeJSON"); fn != nil {
		lck, _ := e.ConstVal("fileutil", "LockExt")
		tmp := "(p0 + " + lck + ")"
		var writes []string
		for _, in := range e.findInstrs(fn, "call(os.«(WriteFile|Create|OpenFile|Rename|Remove|Truncate)»)§", false) {
			writes = append(writes, e.InstrStr(in))
		}
		sort.Strings(writes)
		okw := len(writes) == 2 && strings.HasPrefix(writes[0], "call(os.Rename)("+tmp+", p0)") && strings.HasPrefix(writes[1], "call(os.WriteFile)("+tmp+", ")
		r.Check(okw, "R06.2", "fileutil.writeJSON: effects are WriteFile(<path>.lck) and Rename(<path>.lck, <path>)", e.Pos(fn.Pos()),
			"writeJSON's file-system effects are not exactly {write temp, rename temp onto target}: "+strings.Join(writes, " ; "), len(writes), writes...)
		cls := labeler(C("(call(os.WriteFile)("+tmp+", §) == nil)", "written"))
		n := e.Guarded(r, "R06.2", "fileutil.writeJSON: rename after a successful write", fn, e.instrMatch("call(os.Rename)(§)"), cls,
			func(l LabelSet) bool { return l.Has("written") }, "WriteFile(<path>.lck) == nil")
		r.Min("R06.2", "renames in writeJSON", n, 1)
	}
	for _, w := range []struct{ fn, want string }{
		{"stage.writeCompanion", "call(fileutil.WriteJSON)(phi(§), p1)"},
		{"cache.(*JSON).write", "call(fileutil.WriteJSON)(p0.path, p0)"},
		{"fileutil.WriteJSON", "call(fileutil.writeJSON)(p0, p1, false)"},
	} {
		if fn := needFn(e, r, "R06.2", w.fn); fn != nil {
			got := e.findInstrs(fn, w.want, false)
			var all []string
			for _, in := range e.findInstrs(fn, "call(«(os|fileutil|ioutil)».§)(§)", false) {
				all = append(all, e.InstrStr(in))
			}
			r.Check(len(got) == 1, "R06.2", w.fn+": persists through the atomic writer", e.Pos(fn.Pos()),
				w.fn+" no longer writes through fileutil.WriteJSON: "+strings.Join(all, " ; "), 1, all...)
		}
	}
	// no in-place writer in stage / cache
	nw := 0
	inPlace := regexp.MustCompile(`^(os\.(WriteFile|Create|OpenFile)|ioutil\.WriteFile)$`)
	for _, pkg := range []string{"stage", "cache"} {
		for _, fn := range e.FuncsIn(pkg) {
			for _, s := range e.SitesIn(fn) {
				key := e.CalleeKey(s.Instr.Common())
				if !inPlace.MatchString(key) {
					continue
				}
				nw++
				arg := e.Canon(s.Instr.Common().Args[0])
				ok := strings.HasSuffix(arg, ` + ".part")`)
				r.Check(ok, "R06.2", e.ShortName(fn)+": "+key+"("+shorten(arg)+")", e.InstrPos(s.Instr),
					"package "+pkg+" opens a file for writing in place that is not a staged partial (companion and cache files must be replaced atomically)", 1, "path "+arg)
			}
		}
	}
	r.Min("R06.2", "in-place writers in stage/cache (all on .part)", nw, 2)

	// ---------------------------------------------------------------- R06.3
	r.Rule("R06.3", "log ≺ move ≺ finalized ≺ companion removal in the deliverer (the record may have been written by an earlier attempt: a non-zero `logged` stamp counts, the stamp being set only right after the record is written or from a parsed record); in fileutil.Move the final name appears only by an atomic rename - of the source itself, or of <dst>.lck after a complete copy (other file system) -, the source is never parked under an intermediate name, the source is removed only after the copy succeeded, and nil is returned only after the final rename succeeded")
	if fn := needFn(e, r, "R06.3", "stage.(*Stage).putFileAway"); fn != nil {
		mv := "call(fileutil.Move)((p1.path + \".wait\"), §)"
		ls := []L{
			I("invoke(sts.ReceiveLogger.Received)(p0.logger, p1)", "logged"),
			C("("+mv+" == nil)", "moved"),
			I("call(stage.(*Stage).toCache)(p0, p1, "+sc.finalized+")", "finalizedSet"),
		}
		if e.loggedStampHonest(r, "R06.3") {
			// a non-zero stamp stands for a record written earlier (a retried move)
			ls = append(ls, C("!call(time.(Time).IsZero)(p1.logged)", "logged"))
		}
		cls := labeler(ls...)
		n := e.Guarded(r, "R06.3", "stage.(*Stage).putFileAway: fileutil.Move", fn, e.instrMatch(mv), cls,
			func(l LabelSet) bool { return l.Has("logged") }, "receive-log record written first")
		n += e.Guarded(r, "R06.3", "stage.(*Stage).putFileAway: toCache(finalized)", fn, e.instrMatch("call(stage.(*Stage).toCache)(p0, p1, "+sc.finalized+")"), cls,
			func(l LabelSet) bool { return l.HasAll("logged", "moved") }, "logged, Move == nil")
		n += e.Guarded(r, "R06.3", "stage.(*Stage).putFileAway: os.Remove[Cmp]", fn, e.instrMatch(`call(os.Remove)((p1.path + ".cmp"))`), cls,
			func(l LabelSet) bool { return l.HasAll("logged", "moved", "finalizedSet") }, "logged, moved, state finalized")
		r.Min("R06.3", "ordered steps of the deliverer", n, 3)
		var others []string
		for _, in := range e.findInstrs(fn, "call(os.«(Remove|RemoveAll|Rename|Truncate|Create|WriteFile)»)§", false) {
			if s := e.InstrStr(in); s != `call(os.Remove)((p1.path + ".cmp"))` {
				others = append(others, s)
			}
		}
		r.Check(len(others) == 0, "R06.3", "stage.(*Stage).putFileAway: no other destructive effect", e.Pos(fn.Pos()),
			"the deliverer removes/renames something else: "+strings.Join(others, "; "), 1)
	}
	if fn := needFn(e, r, "R06.3", "fileutil.Move"); fn != nil {
		lck, _ := e.ConstVal("fileutil", "LockExt")
		tmp := "(p1 + " + lck + ")"
		cls := labeler(
			C("(call(os.Rename)(p0, p1) == nil)", "inPlace"),
			C("(call(fileutil.Copy)(p0, "+tmp+") == nil)", "copied"),
			C("(call(os.Rename)("+tmp+", p1) == nil)", "inPlace"),
		)
		// F26: the source is never renamed to an intermediate name - between that rename and the next one the file
		// would exist under neither its staged nor its final name, and a crash there strands it
		var awayS []string
		for _, in := range e.findInstrs(fn, "call(os.Rename)(p0, §)", false) {
			if e.InstrStr(in) != "call(os.Rename)(p0, p1)" {
				awayS = append(awayS, e.InstrStr(in))
			}
		}
		r.Check(len(awayS) == 0, "R06.3", "fileutil.Move: the source is renamed only onto the final name", e.Pos(fn.Pos()),
			"the source is first renamed to an intermediate name: a crash before the second rename leaves the file under neither its staged nor its final name (Recover then drops the companion as an orphan and the logged file is never delivered): "+strings.Join(awayS, "; "), 1, awayS...)
		n := e.Guarded(r, "R06.3", "fileutil.Move: Rename(<dst>.lck, <dst>)", fn, e.instrMatch("call(os.Rename)("+tmp+", p1)"), cls,
			func(l LabelSet) bool { return l.Has("copied") }, "source copied into <dst>.lck completely")
		r.Min("R06.3", "final renames of a copy in Move", n, 1)
		n = e.Guarded(r, "R06.3", "fileutil.Move: os.Remove(src)", fn, e.instrMatch("call(os.Remove)(p0)"), cls,
			func(l LabelSet) bool { return l.HasAll("copied", "inPlace") }, "copied and the copy has its final name")
		r.Min("R06.3", "source removals in Move", n, 1)
		var dsts []string
		for _, in := range e.findInstrs(fn, "call(«(os.Rename|fileutil.Copy|os.Create|os.WriteFile)»)§", false) {
			args := in.(ssa.CallInstruction).Common().Args
			d := e.Canon(args[len(args)-1])
			if e.CalleeKey(in.(ssa.CallInstruction).Common()) == "os.Create" || e.CalleeKey(in.(ssa.CallInstruction).Common()) == "os.WriteFile" {
				d = e.Canon(args[0])
			}
			is := e.InstrStr(in)
			if d == "p1" && !strings.HasPrefix(is, "call(os.Rename)("+tmp+", p1)") && !strings.HasPrefix(is, "call(os.Rename)(p0, p1)") {
				dsts = append(dsts, is)
			}
		}
		r.Check(len(dsts) == 0, "R06.3", "fileutil.Move: <dst> is produced only by a rename", e.Pos(fn.Pos()),
			"the destination name is written directly (a crash leaves a truncated file under its final name): "+strings.Join(dsts, "; "), 1)
		nOK := 0
		for _, rw := range e.returnWorlds(r, "R06.3", fn, cls) {
			v := e.Canon(rw.In.(*ssa.Return).Results[0])
			if rw.W.Has("ret0=nil") || v == "nil" || v == "call(os.Remove)(p0)" {
				nOK++
				r.Check(rw.W.Has("inPlace"), "R06.3", "fileutil.Move: success only with the final name in place "+rw.W.String(), e.InstrPos(rw.In),
					"Move can report success although no rename onto the final name succeeded", 1, rw.W.String())
			}
		}
		r.Min("R06.3", "success returns of Move", nOK, 1)
	}

	// ---------------------------------------------------------------- R06.4
	r.Rule("R06.4", "the receive-log record is synced: rollingFile.log writes the record and, under keepInSync, syncs the handle afterwards on every path; the receiver constructs its receive logger with keepInSync = !PermitLogBuf")
	if fn := needFn(e, r, "R06.4", "log.(*rollingFile).log"); fn != nil {
		cls := labeler(
			I("call(log.(*Logger).Println)(p0.logger, §)", "written"),
			IK("call(log.(*Logger).Println)(p0.logger, §)", "synced"),
			I("call(os.(*File).Sync)(p0.fh)", "synced"),
			C("p0.keepInSync", "mustSync"),
			C("!p0.keepInSync", "noSync"),
		)
		n := 0
		for _, rw := range e.returnWorlds(r, "R06.4", fn, cls) {
			n++
			ok := rw.W.Has("written") && (rw.W.Has("noSync") || rw.W.HasAll("mustSync", "synced"))
			r.Check(ok, "R06.4", "log.(*rollingFile).log: return "+rw.W.String(), e.InstrPos(rw.In),
				"a log record can be left unsynced although keepInSync is set (or is not written at all)", 1, rw.W.String())
		}
		r.Min("R06.4", "return path classes of rollingFile.log", n, 2)
	}
	{
		sites := e.SitesOf(pat("log.NewFileIO"), e.FuncsIn("main"))
		n := 0
		for _, s := range sites {
			str := e.InstrStr(s.Instr)
			if !strings.Contains(str, ".LogIn") {
				continue
			}
			n++
			arg := e.Canon(s.Instr.Common().Args[3])
			r.Check(pat("!§.conf.PermitLogBuf").MatchString(arg), "R06.4", e.ShortName(s.Fn)+": receive logger keepInSync", e.InstrPos(s.Instr),
				"the receive logger is not constructed with keepInSync = !PermitLogBuf: "+arg, 1, "keepInSync = "+arg)
		}
		r.Min("R06.4", "receive logger constructions in main", n, 1)
	}

	r.Rule("R06.14", "a parked file is recovered under its own record: Recover takes a companion for the description of the parked (.wait) file next to it - name, hash and size go into the cache as validated and from there into the receive log - only when no newer version is in progress there (neither <base>.part nor <base>.full exists) or the parked file's MD5 equals the companion's hash; a helper's verdict counts only if the helper is shown to say `described` under exactly those conditions and `superseded` only when a newer version is in progress (while version 2 of a parked file was being received the companion was version 2's: after a restart version 1's bytes were delivered and logged under version 2's hash and size, and the sender was told version 2 had arrived)")
	// ---------------------------------------------------------------- R06.5
	r.Rule("R06.5", "the recovery case split is exhaustive and exact: per companion Recover looks for every extension that is a rename/create target in package stage ({.wait, .full, .part}) and the bare name; .wait → finalize list only; .full → validate list; a .part or bare file → validate list only if its companion is complete and the rename to .full succeeded; the companion is removed only when none of the four exists; an incomplete partial is left untouched")
	if top := needFn(e, r, "R06.5", "stage.(*Stage).Recover"); top != nil {
		cl := e.closureOfCall(top, "filepath.Walk", 1)
		if cl == nil {
			r.Unresolved("R06.5", "walk closure of Recover")
		} else {
			base := `call(strings.TrimSuffix)(p0, ".cmp")`
			st := func(ext string) string {
				if ext == "" {
					return "call(os.IsNotExist)(call(os.Stat)(" + base + ")#1)"
				}
				return `call(os.IsNotExist)(call(os.Stat)((` + base + ` + "` + ext + `"))#1)`
			}
			cmpv := "call(stage.readLocalCompanion)(p0, §)#0"
			var ls []L
			for _, ext := range []string{".wait", ".full", ".part", ""} {
				ls = append(ls, C("!"+st(ext), "has"+ext), C(st(ext), "no"+ext))
			}
			ls = append(ls,
				C("call(stage.isCompanionComplete)("+cmpv+")", "complete"),
				C(`(call(os.Rename)((`+base+` + ".part"), (`+base+` + ".full")) == nil)`, "partPromoted"),
				C(`(call(os.Rename)(`+base+`, (`+base+` + ".full")) == nil)`, "barePromoted"),
				C(`(call(filepath.Ext)(p0) == ".cmp")`, "isCmp"),
				C("(call(stage.readLocalCompanion)(p0, §)#1 == nil)", "cmpRead"),
			)
			helpers := e.parkedHelpers()
			ls = append(ls, e.parkedLabels(base, cmpv, helpers)...)
			cls := labeler(ls...)
			// extensions that are rename/create targets in package stage
			targets := map[string]bool{}
			extRe := regexp.MustCompile(`\+ "(\.[a-z]+)"\)$`)
			for _, fn := range e.FuncsIn("stage") {
				for _, s := range e.SitesIn(fn) {
					key := e.CalleeKey(s.Instr.Common())
					var dst string
					switch key {
					case "os.Rename":
						dst = e.Canon(s.Instr.Common().Args[1])
					case "os.Create":
						dst = e.Canon(s.Instr.Common().Args[0])
					default:
						continue
					}
					if m := extRe.FindStringSubmatch(dst); m != nil {
						targets[m[1]] = true
					}
				}
			}
			var exts []string
			for x := range targets {
				exts = append(exts, x)
			}
			sort.Strings(exts)
			r.Min("R06.5", "staging extensions minted in package stage", len(exts), 3)
			for _, x := range exts {
				found := len(e.findInstrs(cl, `call(os.Stat)((`+base+` + "`+x+`"))`, false)) > 0
				r.Check(found, "R06.5", "stage.(*Stage).Recover: examines <base>"+x, e.Pos(cl.Pos()),
					"package stage can leave a file with extension "+x+" behind, but Recover never looks for it: after a crash in that state the file is stranded", 1, "os.Stat(<base>"+x+")")
			}
			// appends: the list whose members Recover enters as validated and hands to
			// the finalize chain is the `finalize` list, whatever it is called
			finalName := ""
			finalRe := regexp.MustCompile(`^call\(stage\.\(\*Stage\)\.toCache\)\(p0, call\(stage\.\(\*Stage\)\.partialToFinal\)\(p0, var\((\w+)\)\[.*\]\), ` + regexp.QuoteMeta(sc.validated) + `\)$`)
			Instrs(top, func(in ssa.Instruction) {
				if m := finalRe.FindStringSubmatch(e.InstrStr(in)); m != nil {
					finalName = m[1]
				}
			})
			if finalName == "" {
				r.Unresolved("R06.5", "the list Recover enters as validated (toCache(partialToFinal(<list>[i]), validated))")
			}
			nv, nf := 0, 0
			for _, in := range e.findInstrs(cl, "store(^&var(«\\w+») = builtin(append)(§))", false) {
				str := e.InstrStr(in)
				if strings.HasPrefix(str, "store(^&var("+finalName+")") {
					nf++
					e.Guarded(r, "R06.5", fmt.Sprintf("%s: append to finalize #%d", e.ShortName(cl), nf), cl, only(in), cls,
						func(l LabelSet) bool { return l.HasAll("isCmp", "cmpRead", "has.wait") }, "<base>.wait exists")
				} else {
					nv++
					e.Guarded(r, "R06.5", fmt.Sprintf("%s: append to validate #%d", e.ShortName(cl), nv), cl, only(in), cls,
						func(l LabelSet) bool {
							if !l.HasAll("isCmp", "cmpRead") || !l.HasAny("no.wait", "superseded", "hashNe") {
								return false
							}
							return l.Has("has.full") ||
								l.HasAll("no.full", "has.part", "complete", "partPromoted") ||
								l.HasAll("no.full", "no.part", "has", "complete", "barePromoted")
						}, "no .wait (or a .wait that a newer version in progress has superseded), and (.full exists | complete .part renamed to .full | complete bare file renamed to .full)")
				}
			}
			// R06.14 (filed below): the companion describes the parked file
			for _, h := range helpers {
				r.Check(h.Sound, "R06.14", e.ShortName(h.Fn)+": the verdict `companion describes the parked file` can be relied on", e.Pos(h.Fn.Pos()),
					strings.Join(h.Facts, "; "), 2, h.Facts...)
			}
			nd := 0
			for _, in := range e.findInstrs(cl, "store(^&var("+finalName+") = builtin(append)(§))", false) {
				nd++
				e.Guarded(r, "R06.14", fmt.Sprintf("%s: append to finalize #%d: the companion describes the parked file", e.ShortName(cl), nd), cl, only(in), cls,
					func(l LabelSet) bool { return l.Has("described") || l.HasAll("no.part", "no.full") },
					"neither <base>.part nor <base>.full exists, or MD5(<base>.wait) == companion hash")
			}
			r.Min("R06.14", "appends to the finalize list", nd, 1)
			r.Min("R06.5", "appends to the finalize list", nf, 1)
			r.Min("R06.5", "appends to the validate list", nv, 3)
			nrm := e.Guarded(r, "R06.5", e.ShortName(cl)+": os.Remove(companion)", cl, e.instrMatch("call(os.Remove)(p0)"), cls,
				func(l LabelSet) bool {
					// `superseded` comes only from a helper shown to answer so only when .part or .full exists:
					// together with no.full and no.part that path is infeasible
					return l.HasAll("isCmp", "no.full", "no.part", "no") && l.HasAny("no.wait", "superseded")
				}, "none of .wait/.full/.part/bare exists")
			r.Min("R06.5", "orphan companion removals", nrm, 1)
			var others []string
			for _, in := range e.findInstrs(cl, "call(os.«(Remove|RemoveAll|Rename|Truncate|Create|WriteFile|OpenFile)»)§", false) {
				s := e.InstrStr(in)
				if s == "call(os.Remove)(p0)" || strings.HasSuffix(s, `, (`+base+` + ".full"))`) {
					continue
				}
				others = append(others, s)
			}
			r.Check(len(others) == 0, "R06.5", e.ShortName(cl)+": no other destructive effect", e.Pos(cl.Pos()),
				"recovery removes/renames something outside the table (an incomplete partial must be left for resumption): "+strings.Join(others, "; "), 1)
		}
	}

	// ---------------------------------------------------------------- R06.6
	r.Rule("R06.6", "no request during recovery: Recover clears readiness before anything else, keeps it cleared across every step (walk, cache refill, state changes, hand-over to validators, waiting for them) and restores it only by the deferred call; it returns only after the validation workers it started have finished")
	e.checkRecoverReadiness(r, "R06.6")
	if fn := needFn(e, r, "R06.6", "stage.(*Stage).Ready"); fn != nil {
		ok := false
		Instrs(fn, func(in ssa.Instruction) {
			if rt, ok2 := in.(*ssa.Return); ok2 && len(rt.Results) == 1 && e.Canon(rt.Results[0]) == "p0.canReceive" {
				ok = true
			}
		})
		r.Check(ok, "R06.6", "stage.(*Stage).Ready returns the readiness flag", e.Pos(fn.Pos()), "Ready() no longer reports the flag that Recover clears", 1)
	}
	if fn := needFn(e, r, "R06.6", "stage.(*Stage).setCanReceive"); fn != nil {
		st := e.findInstrs(fn, "store(p0.canReceive = p1)", false)
		r.Check(len(st) == 1, "R06.6", "stage.(*Stage).setCanReceive stores its argument", e.Pos(fn.Pos()), "setCanReceive no longer stores the requested value", 1)
	}

	// ---------------------------------------------------------------- R06.10
	r.Rule("R06.10", "recovery's validation pool finishes: the workers Recover starts keep receiving until the hand-over channel is closed, Recover closes it on every path after starting them and waits only after the close (a worker leaving early strands the plain send and the receiver stays `unavailable` for ever)")
	e.checkWorkerPools(r, "R06.10", 1, "stage")

	// ---------------------------------------------------------------- R06.11
	r.Rule("R06.11", "recovery relearns what was delivered: Recover refills the cache from the receive log (buildCache) before it decides what to do with the files it finds, and the day-file iterator behind that refill visits every day of the range including the closing one (today), whatever the times of day of its ends - else a file delivered just before the crash is unknown after the restart and is accepted, logged and delivered a second time - shared with R18.5/R05.10")
	e.checkDayLoop(r, "R06.11")
	if fn := needFn(e, r, "R06.11", "stage.(*Stage).Recover"); fn != nil {
		bc := e.findInstrs(fn, "call(stage.(*Stage).buildCache)(p0, §)", false)
		r.Check(len(bc) >= 1, "R06.11", "stage.(*Stage).Recover: the cache is refilled from the log", e.Pos(fn.Pos()), "recovery no longer reads the receive log", 1)
	}

	// ---------------------------------------------------------------- R06.7
	r.Rule("R06.7", "the validator's transitions are ordered: state `validated` is set only after the Full→Wait rename succeeded, and the hand-over to finalize only after the state was set; recovery marks a file `received` before it validates it")
	if fn := needFn(e, r, "R06.7", "stage.(*Stage).process"); fn != nil {
		cls := labeler(
			C(`(call(os.Rename)((p1.path + ".full"), (p1.path + ".wait")) == nil)`, "renamed"),
			I("call(stage.(*Stage).toCache)(p0, p1, "+sc.validated+")", "validatedSet"),
		)
		n := e.Guarded(r, "R06.7", "stage.(*Stage).process: toCache(validated)", fn, e.instrMatch("call(stage.(*Stage).toCache)(p0, p1, "+sc.validated+")"), cls,
			func(l LabelSet) bool { return l.Has("renamed") }, "Full→Wait rename succeeded")
		n += e.Guarded(r, "R06.7", "stage.(*Stage).process: go finalizeQueue", fn, e.instrMatch("go call(stage.(*Stage).finalizeQueue)(p0, p1)"), cls,
			func(l LabelSet) bool { return l.HasAll("renamed", "validatedSet") }, "renamed and state validated")
		r.Min("R06.7", "validator transitions", n, 2)
	}
	if top := e.Fn("stage.(*Stage).Recover"); top != nil {
		n := 0
		for _, cf := range WithClosures(top) {
			for _, in := range e.findInstrs(cf, "call(stage.(*Stage).process)(§)", false) {
				n++
				f := e.Canon(in.(ssa.CallInstruction).Common().Args[1])
				recv := e.Canon(in.(ssa.CallInstruction).Common().Args[0])
				cls := labeler(I("call(stage.(*Stage).toCache)("+recv+", "+f+", "+sc.received+")", "markedReceived"))
				e.Guarded(r, "R06.7", e.ShortName(cf)+": process(file) after toCache(file, received)", cf, only(in), cls,
					func(l LabelSet) bool { return l.Has("markedReceived") }, "state received set for the same file")
			}
		}
		r.Min("R06.7", "validator calls in recovery", n, 1)
	}
	// ---------------------------------------------------------------- R06.8
	r.Rule("R06.8", "the companion is the recovery index (Recover finds its work only through companions): every removal of a companion in package stage sits in the frozen table and is guarded so that no undelivered .full/.wait body can be left without one - deliverer: after finalized; duplicate arm: known file finalized or later; validator: only together with the unreadable .full; initStageFile: state unknown/failed; recovery: orphan, or the leftover of a duplicate of a delivered version; cleaner: R20.2")
	{
		type rmRule struct {
			need func(LabelSet) bool
			text string
			cls  Classifier
		}
		table := map[string]rmRule{
			"stage.(*Stage).putFileAway": {func(l LabelSet) bool { return l.Has("finalizedSet") }, "state finalized set (file already moved)",
				labeler(I("call(stage.(*Stage).toCache)(p0, p1, "+sc.finalized+")", "finalizedSet"))},
			"stage.(*Stage).Receive": {func(l LabelSet) bool { return l.Has("delivered") }, "known file in state >= finalized",
				labeler(C("("+sc.finalized+" <= call(stage.(*Stage).fromCache)(§).state)", "delivered"))},
			"stage.(*Stage).process": {func(l LabelSet) bool { return l.Has("unreadable") }, "FileMD5 failed (the body is removed with it)",
				labeler(C("(call(fileutil.FileMD5)(§)#1 != nil)", "unreadable"))},
			"stage.(*Stage).initStageFile": {func(l LabelSet) bool { return l.HasAny("unknown", "failed") }, "state unknown or failed",
				labeler(C("(call(stage.(*Stage).getFileState)(p0, p1) == "+sc.unknown+")", "unknown"), C("(call(stage.(*Stage).getFileState)(p0, p1) == "+sc.failed+")", "failed"))},
			"stage.(*Stage).Recover": {func(l LabelSet) bool { return l.Has("orphan") || l.HasAll("delivered", "sameHash") }, "no body of any kind exists, or the body is a duplicate of a version the cache knows as finalized or later with the same hash",
				labeler(C("call(os.IsNotExist)(call(os.Stat)(call(strings.TrimSuffix)(p0, \".cmp\"))#1)", "orphan"),
					C("("+sc.finalized+" <= call(stage.(*Stage).fromCache)(§).state)", "delivered"),
					C("(call(stage.(*Stage).fromCache)(§).hash == §.hash)", "sameHash"),
					C("(§.hash == call(stage.(*Stage).fromCache)(§).hash)", "sameHash"))},
			"stage.(*Stage).cleanStrays": {func(l LabelSet) bool { return true }, "decided by R20.2", nil},
		}
		n := 0
		for _, fn := range e.FuncsIn("stage") {
			for _, in := range e.findInstrs(fn, "call(os.«(Remove|RemoveAll)»)(§)", false) {
				arg := e.Canon(in.(ssa.CallInstruction).Common().Args[0])
				topName := e.ShortName(EnclosingTop(fn))
				isCmp := strings.HasSuffix(arg, `+ ".cmp")`) || (topName == "stage.(*Stage).Recover" && fn.Parent() != nil && arg == "p0") ||
					strings.Contains(arg, `".cmp"`) || strings.Contains(arg, "compPath")
				if !isCmp {
					continue
				}
				n++
				rule, ok := table[topName]
				if !ok {
					r.Bad("R06.8", e.ShortName(fn)+": os.Remove[Cmp]", e.InstrPos(in), "a companion is removed in a function outside the frozen table: "+e.InstrStr(in), 1)
					continue
				}
				if rule.cls == nil {
					r.Ok("R06.8", e.ShortName(fn)+": os.Remove[Cmp]", e.InstrPos(in), 1, rule.text)
					continue
				}
				e.Guarded(r, "R06.8", e.ShortName(fn)+": os.Remove[Cmp]", fn, only(in), rule.cls, rule.need, rule.text)
			}
		}
		r.Min("R06.8", "companion removals in package stage", n, 6)
	}
	// ---------------------------------------------------------------- R06.9
	r.Rule("R06.9", "the durable record carries everything recovery needs: a fresh companion copies every field of the announced descriptor (all fields of sts.Partial except the part list) from the request, a reused one takes the request's time and predecessor; partialToFinal - the only way a companion becomes a file to validate/deliver after a restart - takes path/name, rename target, size, hash and predecessor from the companion; the legacy upgrade keeps hash, name, predecessor, size and source")
	if fn := needFn(e, r, "R06.9", "stage.newLocalCompanion"); fn != nil {
		if t := e.Type("sts", "Partial"); t != nil {
			st := structOf(t)
			for i := 0; i < st.NumFields(); i++ {
				f := st.Field(i)
				if !f.Exported() || f.Name() == "Parts" {
					continue
				}
				vals := e.fieldStoreVals(fn, "sts.Partial", f.Name())
				ok := false
				for _, v := range vals {
					if v == "p1."+f.Name() || v == "&p1."+f.Name() {
						ok = true
					}
				}
				r.Check(ok, "R06.9", "stage.newLocalCompanion: companion."+f.Name()+" ← request."+f.Name(), e.Pos(fn.Pos()),
					"a fresh companion does not record "+f.Name()+" of the announced file: after a crash recovery rebuilds the file without it (wrong target name / hash / predecessor)", 1, vals...)
			}
		} else {
			r.Unresolved("R06.9", "sts.Partial")
		}
	}
	if fn := needFn(e, r, "R06.9", "stage.(*Stage).partialToFinal"); fn != nil {
		want := map[string]string{"path": "call(filepath.Join)([p0.rootDir, p1.Name])", "name": "p1.Name", "renamed": "p1.Renamed", "size": "p1.Size", "hash": "p1.Hash", "prev": "p1.Prev"}
		for _, k := range []string{"path", "name", "renamed", "size", "hash", "prev"} {
			vals := e.fieldStoreVals(fn, "stage.finalFile", k)
			r.Check(len(vals) == 1 && vals[0] == want[k], "R06.9", "stage.(*Stage).partialToFinal: file."+k+" ← "+want[k], e.Pos(fn.Pos()),
				"the file rebuilt from a companion does not take "+k+" from it: "+strings.Join(vals, " | "), 1, vals...)
		}
	}
	if fn := needFn(e, r, "R06.9", "stage.upgradeCompanion"); fn != nil {
		want := map[string]string{"Hash": "p0.Hash", "Name": "p0.Path", "Prev": "p0.Prev", "Size": "p0.Size", "Source": "p0.Source"}
		for _, k := range []string{"Hash", "Name", "Prev", "Size", "Source"} {
			vals := e.fieldStoreVals(fn, "sts.Partial", k)
			r.Check(len(vals) == 1 && vals[0] == want[k], "R06.9", "stage.upgradeCompanion: "+k+" ← "+want[k], e.Pos(fn.Pos()), "the legacy companion upgrade loses "+k, 1, vals...)
		}
	}
	if fn := needFn(e, r, "R06.9", "stage.(*Stage).putFileAway"); fn != nil {
		// the delivery name: renamed when present, else name - both from the file handed over
		tp := e.findInstrs(fn, "call(filepath.Join)([p0.targetDir, phi(§)])", false)
		ok := len(tp) == 1
		if ok {
			s2 := e.InstrStr(tp[0])
			ok = strings.Contains(s2, "p1.renamed") && strings.Contains(s2, "p1.name")
		}
		r.Check(ok, "R06.9", "stage.(*Stage).putFileAway: target = <final>/(renamed | name) of the file", e.Pos(fn.Pos()), "the delivery name is not the file's rename target or name", 1)
	}
	// ---------------------------------------------------------------- R06.12
	r.Rule("R06.12", "names recovered from the stage are the names that were staged: pathToName cuts the stage root off the front and exactly the extension off the end (strings.TrimSuffix); nowhere in the module is strings.Trim/TrimLeft/TrimRight given a multi-character extension as its CUTSET (which would also eat trailing letters of the name itself: x.nc → x.n), neither directly nor through a parameter that a caller fills with such a constant")
	if fn := needFn(e, r, "R06.12", "stage.(*Stage).pathToName"); fn != nil {
		ts := e.findInstrs(fn, "call(strings.TrimSuffix)(p1[(builtin(len)(p0.rootDir) + 1):], p2)", false)
		r.Check(len(ts) == 1, "R06.12", "stage.(*Stage).pathToName: TrimSuffix(path[len(root)+1:], ext)", e.Pos(fn.Pos()), "the name is not obtained by cutting the root and exactly the extension off the path", 1)
		n := 0
		for _, rw := range e.returnWorlds(r, "R06.12", fn, labeler()) {
			n++
			v := e.Canon(rw.In.(*ssa.Return).Results[0])
			r.Check(v == "phi(call(strings.TrimSuffix)(p1[(builtin(len)(p0.rootDir) + 1):], p2)|p1[(builtin(len)(p0.rootDir) + 1):])", "R06.12", "stage.(*Stage).pathToName: returns the cut name", e.InstrPos(rw.In), "pathToName returns "+shorten(v), 1, v)
		}
		r.Min("R06.12", "returns of pathToName", n, 1)
	}
	e.checkCutsets(r, "R06.12")
	// ---------------------------------------------------------------- R06.13
	e.shareRule(r, "C20", "R20.2", "R06.13", "the cleaner does not take away what recovery needs: the companion of a validated, parked file is the only record a restart finds it by - the stray cleaner removes a companion only together with the stray partial of a LOGGED file (or on the strength of a log record with the companion's hash)")
	// ---------------------------------------------------------------- R06.15
	e.shareRule(r, "C15", "R15.5", "R06.15", "the stage that recovers is the stage that serves: the gatekeeper on which Recover is started at start-up is stored under the key requests look it up by (the source name, not its directory spelling) - otherwise a second stage is built over the same directories, ready at once, with an empty cache")
	// ---------------------------------------------------------------- R06.16
	e.shareRule(r, "C05", "R05.16", "R06.16", "a file already logged and delivered is not delivered again after a crash: the leftovers of a duplicate that was being discarded (partial and complete companion) are not promoted, validated and moved by the recovery")
	// ---------------------------------------------------------------- R06.17
	e.shareRule(r, "C18", "R18.6", "R06.17", "the record of a delivery is where a restart will look for it: the receive log re-opens its day file when that file has vanished from its path, so that a record written before the move - the receiver's only durable knowledge of a delivery - does not go to an unlinked inode")
	// ---------------------------------------------------------------- R06.18
	e.shareRule(r, "C05", "R05.11", "R06.18", "recovery knows what was delivered the day before: the cache refill at start-up reaches back the logged-entry age (24 h) behind the oldest companion, not the shorter age of loaded batches")
}

// checkRecoverReadiness: Recover keeps readiness cleared across every step and
// restores it only by defer, after its workers are done (shared by C06 and C15).
func (e *Engine) checkRecoverReadiness(r *Report, rule string) {
	if fn := needFn(e, r, rule, "stage.(*Stage).Recover"); fn != nil {
		cls := labeler(
			I("call(stage.(*Stage).setCanReceive)(p0, false)", "notReady"),
			IK("call(stage.(*Stage).setCanReceive)(p0, true)", "notReady"),
			I("defer call(stage.(*Stage).setCanReceive)(p0, true)", "restoreDeferred"),
			I("go call(stage.(*Stage).Recover$§)(§)", "workers"),
			I("call(sync.(*WaitGroup).Wait)(§)", "waited"),
		)
		isStep := func(in ssa.Instruction) bool {
			if !hasEffect(in) {
				return false
			}
			s := e.InstrStr(in)
			for _, p := range []string{"call(filepath.Walk)", "call(stage.(*Stage).buildCache)", "call(stage.(*Stage).toCache)", "go call(stage.(*Stage).", "call(stage.(*Stage).process)", "send(", "call(sync.(*WaitGroup).Wait)", "call(os."} {
				if strings.HasPrefix(s, p) {
					return true
				}
			}
			return false
		}
		res := e.Flow(fn, FlowOpts{Classify: cls, Target: isStep, Sticky: []string{"workers"}})
		n := e.judge(r, rule, "stage.(*Stage).Recover: step", fn, res, func(l LabelSet) bool { return l.Has("notReady") }, "readiness cleared and not yet restored")
		r.Min(rule, "recovery steps under cleared readiness", n, 6)
		nr := 0
		res2 := e.Flow(fn, FlowOpts{Classify: cls, Target: isReturn, Sticky: []string{"workers"}})
		for in, ws := range res2.At {
			if in.Block().Comment == "recover" {
				continue
			}
			for _, w := range ws {
				nr++
				ok := w.HasAll("notReady", "restoreDeferred") && (!w.Has("workers") || w.Has("waited"))
				r.Check(ok, rule, fmt.Sprintf("stage.(*Stage).Recover: return b%d %s", in.Block().Index, w.String()), e.InstrPos(in),
					"Recover can end (and readiness be restored) before its validation workers are done, or without restoring readiness by defer", 1, w.String())
			}
		}
		r.Min(rule, "return path classes of Recover", nr, 2)
	}
}

// checkCutsets: strings.Trim* take a SET of characters.  A constant of more
// than one character that looks like an extension or word, given directly or
// through a parameter, is the classic mix-up with TrimSuffix/TrimPrefix.
func (e *Engine) checkCutsets(r *Report, rule string) {
	n := 0
	isWordy := func(s string) bool {
		s = strings.Trim(s, `"`)
		if len(s) < 2 {
			return false
		}
		letters := 0
		for _, c := range s {
			if (c >= 'a' && c <= 'z') || (c >= 'A' && c <= 'Z') {
				letters++
			}
		}
		return letters >= 2
	}
	for _, fn := range e.Funcs {
		for _, s := range e.SitesIn(fn) {
			key := e.CalleeKey(s.Instr.Common())
			if key != "strings.Trim" && key != "strings.TrimLeft" && key != "strings.TrimRight" {
				continue
			}
			n++
			arg := s.Instr.Common().Args[1]
			var cands []string
			if c, ok := arg.(*ssa.Const); ok {
				cands = append(cands, constStr(c))
			} else if p, ok := arg.(*ssa.Parameter); ok {
				idx := -1
				for i, q := range fn.Params {
					if q == p {
						idx = i
					}
				}
				for _, cs := range e.AllSites() {
					if cs.Instr.Common().StaticCallee() == fn && idx >= 0 && idx < len(cs.Instr.Common().Args) {
						if c, ok := cs.Instr.Common().Args[idx].(*ssa.Const); ok {
							cands = append(cands, constStr(c))
						}
					}
				}
			}
			bad := ""
			for _, c := range cands {
				if isWordy(c) {
					bad = c
				}
			}
			r.Check(bad == "", rule, fmt.Sprintf("%s: %s with a character SET", e.ShortName(fn), key), e.InstrPos(s.Instr.(ssa.Instruction)),
				key+" is given "+bad+" - a cutset, not a suffix: every trailing/leading character of that set is removed, including letters of the name itself", 1+len(cands), cands...)
		}
	}
	r.Min(rule, "strings.Trim/TrimLeft/TrimRight call sites examined", n, 3)
}

// loggedStampHonest: `file.logged` is non-zero only when a receive-log record
// for the file exists - it is stored either right after ReceiveLogger.Received
// for the same object, or into a record built from a parsed line of the log
// (the refill). Where this holds, a deliverer may take a non-zero stamp for
// `already logged` (a retried move does not repeat the record).
func (e *Engine) loggedStampHonest(r *Report, rule string) bool {
	ok, n := true, 0
	for _, fn := range e.FuncsIn("stage") {
		var stores []*ssa.Store
		Instrs(fn, func(in ssa.Instruction) {
			st, isStore := in.(*ssa.Store)
			if !isStore {
				return
			}
			fa, isFA := st.Addr.(*ssa.FieldAddr)
			if !isFA {
				return
			}
			if f := fieldVar(fa.X, fa.Field); f != nil && f.Name() == "logged" && strings.HasSuffix(strings.TrimPrefix(fa.X.Type().String(), "*"), "stage.finalFile") {
				stores = append(stores, st)
			}
		})
		for _, st := range stores {
			n++
			obj := e.Canon(st.Addr.(*ssa.FieldAddr).X)
			construct := e.ShortName(fn) + ": " + shorten(obj) + ".logged is stamped only for a record that exists"
			if top := EnclosingTop(fn); fn.Parent() != nil && e.ShortName(top) == "stage.(*Stage).buildCache" && strings.HasPrefix(obj, "&new(stage.finalFile)") {
				if _, isParam := st.Val.(*ssa.Parameter); isParam {
					r.Ok(rule, construct, e.InstrPos(st), 1, "the time of a parsed log record (refill)")
					continue
				}
			}
			cls := labeler(I("invoke(sts.ReceiveLogger.Received)(«\\^?»p0.logger, "+obj+")", "logged"))
			res := e.Flow(fn, FlowOpts{Classify: cls, Target: only(st)})
			good := !res.Undecided && len(res.At) > 0
			for _, ws := range res.At {
				for _, w := range ws {
					if !w.Has("logged") {
						good = false
					}
				}
			}
			if !r.Check(good, rule, construct, e.InstrPos(st), "the stamp `logged` is set on a path that has not written the receive-log record for that file: a deliverer that skips the record for a stamped file would deliver without a record", res.Evals) {
				ok = false
			}
		}
	}
	r.Min(rule, "stores of finalFile.logged in package stage", n, 2)
	return ok && n >= 2
}
