package main

import (
	"fmt"
	"strings"

	"golang.org/x/tools/go/ssa"
)

func init() { register("C09", rulesC09) }

func rulesC09(e *Engine, r *Report) {
	// ---------------------------------------------------------------- R09.1
	r.Rule("R09.1", "the recorded range is the written range: in Receive the Seek offset is the part's Beg, the range handed to addCompanionPart is (Beg, End) of that same part, the byte count is compared with End-Beg of that part, and the partial written, the companion loaded, the companion written and the lock taken all derive from the one path filepath.Join(rootDir, file.Name)")
	if fn := needFn(e, r, "R09.1", "stage.(*Stage).Receive"); fn != nil {
		path := "call(filepath.Join)([p0.rootDir, p1.Name])"
		part := "p1.Parts[0]"
		checks := []struct{ what, p string }{
			{"partial opened on <path>.part for writing", `call(os.OpenFile)((` + path + ` + ".part"), §)`},
			{"Seek(handle, part.Beg, 0)", `call(os.(*File).Seek)(call(os.OpenFile)((` + path + ` + ".part"), §)#0, ` + part + `.Beg, 0)`},
			{"io.Copy(handle, reader)", `call(io.Copy)(call(os.OpenFile)((` + path + ` + ".part"), §)#0, p2)`},
			{"companion of the same path and file", `call(stage.newLocalCompanion)(` + path + `, p1)`},
			{"addCompanionPart(cmp, part.Beg, part.End)", `call(stage.addCompanionPart)(call(stage.newLocalCompanion)(` + path + `, p1)#0, ` + part + `.Beg, ` + part + `.End)`},
			{"writeCompanion(path, cmp) of that companion", `call(stage.writeCompanion)((` + path + ` + ".cmp"), call(stage.newLocalCompanion)(` + path + `, p1)#0)`},
			{"completeness judged on that companion", `call(stage.isCompanionComplete)(call(stage.newLocalCompanion)(` + path + `, p1)#0)`},
		}
		for _, c := range checks {
			got := e.findInstrs(fn, c.p, false)
			r.Check(len(got) == 1, "R09.1", "stage.(*Stage).Receive: "+c.what, e.Pos(fn.Pos()),
				"the operands no longer identify the same part/path (found "+fmt.Sprint(len(got))+" matching call(s) for "+c.p+")", 1, c.p)
		}
		// no other Seek / addCompanionPart / writeCompanion with other operands
		for _, p := range []string{"call(os.(*File).Seek)(§)", "call(stage.addCompanionPart)(§)", "call(stage.writeCompanion)(§)", "call(io.Copy)(§)", "call(stage.newLocalCompanion)(§)"} {
			got := e.findInstrs(fn, p, false)
			r.Check(len(got) == 1, "R09.1", "stage.(*Stage).Receive: exactly one "+strings.TrimSuffix(p, "(§)"), e.Pos(fn.Pos()),
				fmt.Sprintf("%d calls found; the rule identifies the written and the recorded range through a single call each", len(got)), len(got))
		}
		// single part
		cls := labeler(C("(builtin(len)(p1.Parts) == 1)", "single"))
		e.Guarded(r, "R09.1", "stage.(*Stage).Receive: exactly one range per reader", fn, e.instrMatch("call(io.Copy)(§)"), cls,
			func(l LabelSet) bool { return l.Has("single") }, "len(file.Parts) == 1")
	}
	if fn := needFn(e, r, "R09.1", "http.(*Server).routeData"); fn != nil {
		// the descriptor's range and the reader come from the same index
		var begs, ends []string
		begs = e.fieldStoreVals(fn, "sts.ByteRange", "Beg")
		ends = e.fieldStoreVals(fn, "sts.ByteRange", "End")
		okb := len(begs) == 1 && pat("invoke(sts.Binned.GetSlice)(§)#0").MatchString(begs[0])
		oke := len(ends) == 1 && pat("invoke(sts.Binned.GetSlice)(§)#1").MatchString(ends[0])
		same := okb && oke && strings.TrimSuffix(begs[0], "#0") == strings.TrimSuffix(ends[0], "#1")
		r.Check(same, "R09.1", "http.(*Server).routeData: ByteRange{Beg,End} ← GetSlice() of one part", e.Pos(fn.Pos()),
			"the byte range handed to the gatekeeper is not (GetSlice()#0, GetSlice()#1) of the same decoded part: "+strings.Join(append(begs, ends...), " | "), 2, append(begs, ends...)...)
	}

	// ---------------------------------------------------------------- R09.2
	r.Rule("R09.2", "record only after a complete write: addCompanionPart/writeCompanion in Receive are reached only when io.Copy returned no error and its byte count equals End-Beg (a body that ends early records nothing)")
	if fn := needFn(e, r, "R09.2", "stage.(*Stage).Receive"); fn != nil {
		cp := "call(io.Copy)(§, p2)"
		cls := labeler(
			C("("+cp+"#1 == nil)", "copyOK"),
			C("((p1.Parts[0].End - p1.Parts[0].Beg) == "+cp+"#0)", "countOK"),
			C("("+cp+"#0 == (p1.Parts[0].End - p1.Parts[0].Beg))", "countOK"),
		)
		n := e.Guarded(r, "R09.2", "stage.(*Stage).Receive: addCompanionPart", fn, e.instrMatch("call(stage.addCompanionPart)(§)"), cls,
			func(l LabelSet) bool { return l.HasAll("copyOK", "countOK") }, "copy err == nil and count == End-Beg")
		n += e.Guarded(r, "R09.2", "stage.(*Stage).Receive: writeCompanion", fn, e.instrMatch("call(stage.writeCompanion)(§)"), cls,
			func(l LabelSet) bool { return l.HasAll("copyOK", "countOK") }, "copy err == nil and count == End-Beg")
		r.Min("R09.2", "record sites in Receive", n, 2)
	}

	// ---------------------------------------------------------------- R09.3
	r.Rule("R09.3", "companion read-modify-write under the per-path lock: in Receive the lock of getPathLock(path) is taken before the companion is loaded and held (deferred unlock) through addCompanionPart, writeCompanion, the completeness test and the Part→Full rename; Scan reads each companion under the read lock of its path; partReceived reads under the lock; Prepare initialises under it")
	if fn := needFn(e, r, "R09.3", "stage.(*Stage).Receive"); fn != nil {
		path := "call(filepath.Join)([p0.rootDir, p1.Name])"
		lock := "call(stage.(*Stage).getPathLock)(p0, " + path + ")"
		cls := labeler(
			I("call(sync.(*RWMutex).Lock)("+lock+")", "locked"),
			IK("call(sync.(*RWMutex).Unlock)("+lock+")", "locked"),
			IK("call(sync.(*RWMutex).Unlock)("+lock+")", "unlockDeferred"),
			I("defer call(sync.(*RWMutex).Unlock)("+lock+")", "unlockDeferred"),
		)
		n := 0
		for _, p := range []string{"call(stage.newLocalCompanion)(§)", "call(stage.addCompanionPart)(§)", "call(stage.writeCompanion)(§)", "call(stage.isCompanionComplete)(§)",
			"call(os.Rename)(§)", "call(os.Remove)(§)", "call(stage.(*Stage).toCache)(§)", "call(stage.(*Stage).fromCache)(§)"} {
			n += e.Guarded(r, "R09.3", "stage.(*Stage).Receive: "+strings.TrimSuffix(p, "(§)")+" under the path lock", fn, e.instrMatch(p), cls,
				func(l LabelSet) bool { return l.HasAll("locked", "unlockDeferred") }, "getPathLock(path).Lock() held, released only by defer")
		}
		r.Min("R09.3", "locked steps in Receive", n, 8)
	}
	if top := needFn(e, r, "R09.3", "stage.(*Stage).Scan"); top != nil {
		cl := e.closureOfCall(top, "filepath.Walk", 1)
		if cl == nil {
			r.Unresolved("R09.3", "walk closure of Scan")
		} else {
			lock := `call(stage.(*Stage).getPathLock)(^p0, call(strings.TrimSuffix)(p0, ".cmp"))`
			cls := labeler(
				I("call(sync.(*RWMutex).«(RLock|Lock)»)("+lock+")", "locked"),
				IK("call(sync.(*RWMutex).«(RUnlock|Unlock)»)(§)", "locked"),
			)
			n := e.Guarded(r, "R09.3", e.ShortName(cl)+": readLocalCompanion under the path's lock", cl, e.instrMatch("call(stage.readLocalCompanion)(p0, §)"), cls,
				func(l LabelSet) bool { return l.Has("locked") }, "getPathLock(<path without .cmp>) held")
			r.Min("R09.3", "companion reads in Scan", n, 1)
			// balanced: every return releases
			for _, rw := range e.returnWorlds(r, "R09.3", cl, cls) {
				r.Check(!rw.W.Has("locked"), "R09.3", e.ShortName(cl)+": lock released on return b"+fmt.Sprint(rw.In.Block().Index)+" "+rw.W.String(), e.InstrPos(rw.In),
					"the scan returns with a path lock still held (later receptions of that file would block for ever)", 1)
			}
		}
	}
	if fn := needFn(e, r, "R09.3", "stage.(*Stage).partReceived"); fn != nil {
		path := "call(filepath.Join)([p0.rootDir, invoke(sts.Binned.GetName)(p1)])"
		lock := "call(stage.(*Stage).getPathLock)(p0, " + path + ")"
		cls := labeler(I("call(sync.(*RWMutex).«(RLock|Lock)»)("+lock+")", "locked"), IK("call(sync.(*RWMutex).«(RUnlock|Unlock)»)("+lock+")", "locked"))
		n := e.Guarded(r, "R09.3", "stage.(*Stage).partReceived: readLocalCompanion under the path lock", fn, e.instrMatch("call(stage.readLocalCompanion)(("+path+" + \".cmp\"), §)"), cls,
			func(l LabelSet) bool { return l.Has("locked") }, "getPathLock(path) held")
		r.Min("R09.3", "companion reads in partReceived", n, 1)
	}
	if fn := needFn(e, r, "R09.3", "stage.(*Stage).Prepare"); fn != nil {
		cls := labeler(I("call(sync.(*RWMutex).Lock)(call(stage.(*Stage).getPathLock)(p0, «(.*)»))", "locked"), IK("call(sync.(*RWMutex).Unlock)(§)", "locked"))
		n := 0
		for _, in := range e.findInstrs(fn, "call(stage.(*Stage).initStageFile)(p0, §)", false) {
			n++
			pth := e.Canon(in.(ssa.CallInstruction).Common().Args[1])
			cls2 := labeler(I("call(sync.(*RWMutex).Lock)(call(stage.(*Stage).getPathLock)(p0, "+pth+"))", "locked"), IK("call(sync.(*RWMutex).Unlock)(§)", "locked"))
			e.Guarded(r, "R09.3", "stage.(*Stage).Prepare: initStageFile under the path lock", fn, only(in), cls2,
				func(l LabelSet) bool { return l.Has("locked") }, "getPathLock(<same path>) held")
		}
		_ = cls
		r.Min("R09.3", "initStageFile calls in Prepare", n, 1)
	}

	// ---------------------------------------------------------------- R09.4
	r.Rule("R09.4", "the completeness test has all three conjuncts: every `return true` path of isCompanionComplete carries first.Beg == 0 and last.End == Size, and the loop over consecutive ranges continues only on Beg(next) <= End(previous)")
	if fn := needFn(e, r, "R09.4", "stage.isCompanionComplete"); fn != nil {
		cls := labeler(
			C("(p0.Parts[0].Beg == 0)", "startsAtZero"),
			C("(p0.Parts[0].End == p0.Size)", "endsAtSize"),
			C("(p0.Parts[(builtin(len)(p0.Parts) - 1)].End == p0.Size)", "endsAtSize"),
			C("(builtin(len)(p0.Parts) != 0)", "nonEmpty"),
			C("(builtin(len)(p0.Parts) == 1)", "single"),
			C("(builtin(len)(p0.Parts) != 1)", "several"),
			C("(builtin(len)(p0.Parts«(\\[1:\\])?») <= §)", "allPairsSeen"),
		)
		nT := 0
		for _, rw := range e.returnWorlds(r, "R09.4", fn, cls) {
			if !rw.W.Has("ret0=true") {
				continue
			}
			nT++
			ok := rw.W.HasAll("nonEmpty", "startsAtZero", "endsAtSize") && (rw.W.Has("single") || rw.W.HasAll("several", "allPairsSeen"))
			r.Check(ok, "R09.4", "stage.isCompanionComplete: return true "+rw.W.String(), e.InstrPos(rw.In),
				"a companion is declared complete without starting at 0, ending at Size, or without all consecutive pairs having been examined", 1, rw.W.String())
		}
		r.Min("R09.4", "return-true path classes", nT, 2)
		// loop continues only under no-gap
		nb := 0
		for _, b := range fn.Blocks {
			if len(b.Instrs) == 0 {
				continue
			}
			for _, s := range b.Succs {
				if s.Dominates(b) && s != b { // back edge b -> s
					nb++
					conds := e.domConds(b)
					var taken []string
					taken = append(taken, conds...)
					if t, ok := b.Instrs[len(b.Instrs)-1].(*ssa.If); ok {
						taken = append(taken, e.CondStr(t.Cond, b.Succs[0] == s))
					}
					noGap := false
					for _, c := range taken {
						if m := pat("(p0.Parts[1:][«(.+)»].Beg <= p0.Parts[«(.+)»].End)").FindStringSubmatch(c); m != nil && m[1] == m[2] && !strings.Contains(m[1], "Parts") {
							noGap = true // element i+1 of the list against element i
						}
						if m := pat("(p0.Parts[«(.+)»].Beg <= p0.Parts[«(.+)»].End)").FindStringSubmatch(c); m != nil &&
							(m[2] == "("+m[1]+" - 1)" || m[1] == "("+m[2]+" + 1)") {
							noGap = true // index form: Parts[i] against Parts[i-1]
						}
					}
					r.Check(noGap, "R09.4", fmt.Sprintf("stage.isCompanionComplete: loop continues only without a gap (back edge b%d)", b.Index), e.Pos(fn.Pos()),
						"the pairwise loop moves on although next.Beg > previous.End was not excluded: a companion with a hole is complete", 1, taken...)
				}
			}
		}
		r.Min("R09.4", "back edges of the pairwise loop", nb, 1)
	}

	// ---------------------------------------------------------------- R09.5
	r.Rule("R09.5", "a part reader never asks the stream for more than the part's remaining bytes: the slice bound passed to stream.Read is `total - pos` or a value proved smaller by the dominating comparison; pos advances by exactly the count read; EOF is signalled when pos == total; each part reader is built from the descriptor at the decoder's current index, which then advances by one")
	if fn := needFn(e, r, "R09.5", "payload.(*PartDecoder).Read"); fn != nil {
		rem := "((p0.meta.End - p0.meta.Beg) - p0.pos)"
		var rd *ssa.Call
		Instrs(fn, func(in ssa.Instruction) {
			if c, ok := in.(*ssa.Call); ok && c.Call.IsInvoke() && c.Call.Method.Name() == "Read" && e.Canon(c.Call.Value) == "p0.stream" {
				rd = c
			}
		})
		if rd == nil {
			r.Unresolved("R09.5", "stream.Read call in PartDecoder.Read")
		} else {
			sl, _ := rd.Call.Args[0].(*ssa.Slice)
			ok := sl != nil && sl.High != nil && e.Canon(sl.X) == "p1"
			var facts []string
			if ok {
				var edges []ssa.Value
				var preds []*ssa.BasicBlock
				if ph, isPhi := sl.High.(*ssa.Phi); isPhi {
					edges = ph.Edges
					preds = ph.Block().Preds
				} else {
					edges = []ssa.Value{sl.High}
					preds = []*ssa.BasicBlock{nil}
				}
				for i, ev := range edges {
					cv := e.Canon(ev)
					if cv == rem {
						facts = append(facts, "bound = remaining")
						continue
					}
					if preds[i] == nil {
						ok = false
						continue
					}
					conds := e.domConds(preds[i])
					// the edge itself may be the branch out of an If
					if hasStr(conds, "("+cv+" < "+rem+")") || hasStr(conds, "("+cv+" <= "+rem+")") {
						facts = append(facts, "bound = "+cv+" under "+cv+" < remaining")
					} else {
						ok = false
						facts = append(facts, "UNPROVED bound "+cv+" (dominating conditions: "+strings.Join(conds, ", ")+")")
					}
				}
			}
			r.Check(ok, "R09.5", "payload.(*PartDecoder).Read: slice bound <= remaining bytes of the part", e.InstrPos(rd),
				"the part reader can pull bytes of the next part off the shared stream", 2, facts...)
			adv := e.findInstrs(fn, "store(p0.pos = (p0.pos + "+e.Canon(rd)+"#0))", false)
			r.Check(len(adv) == 1, "R09.5", "payload.(*PartDecoder).Read: pos advances by the count read", e.Pos(fn.Pos()), "pos is not advanced by exactly the number of bytes the stream returned", 1)
			nEOF := 0
			Instrs(fn, func(in ssa.Instruction) {
				if rt, ok := in.(*ssa.Return); ok && len(rt.Results) == 2 && e.Canon(rt.Results[1]) == "global(io.EOF)" {
					nEOF++
					conds := e.domConds(rt.Block())
					r.Check(hasStr(conds, "((p0.meta.End - p0.meta.Beg) == p0.pos)"), "R09.5", "payload.(*PartDecoder).Read: EOF exactly at pos == total", e.InstrPos(rt),
						"EOF is signalled at another position than the end of the part", 1, conds...)
				}
			})
			r.Min("R09.5", "EOF returns", nEOF, 1)
		}
	}
	if fn := needFn(e, r, "R09.5", "payload.(*Decoder).Next"); fn != nil {
		m := e.fieldStoreVals(fn, "payload.PartDecoder", "meta")
		st := e.fieldStoreVals(fn, "payload.PartDecoder", "stream")
		adv := e.findInstrs(fn, "store(p0.partIndex = (p0.partIndex + 1))", false)
		r.Check(len(m) == 1 && m[0] == "p0.meta[p0.partIndex]" && len(st) == 1 && st[0] == "p0.stream" && len(adv) == 1, "R09.5",
			"payload.(*Decoder).Next: reader i is built from descriptor i on the shared stream; index advances by one", e.Pos(fn.Pos()),
			"the part reader is not paired with the descriptor at the current index: meta="+strings.Join(m, "|")+" stream="+strings.Join(st, "|"), 3, append(m, st...)...)
	}
	// ---------------------------------------------------------------- R09.6
	r.Rule("R09.6", "`part exists` is a coverage test, not an overlap sum: companionPartExists answers yes only on the path where the covered prefix has reached the end of the queried range, extends the prefix only with the End of a recorded range that starts at or before it and ends beyond the best found so far, and answers no as soon as a pass over the ranges extends nothing (summing overlaps counts bytes twice when recorded ranges overlap each other - F13)")
	if fn := needFn(e, r, "R09.6", "stage.companionPartExists"); fn != nil {
		sums := e.findInstrs(fn, "call(stage.«(minInt64|maxInt64)»)(§)", false)
		r.Check(len(sums) == 0, "R09.6", "stage.companionPartExists: no overlap arithmetic", e.Pos(fn.Pos()), "the answer is computed from min/max overlaps again (unsound once recorded ranges overlap)", 1)
		nT, nF := 0, 0
		Instrs(fn, func(in ssa.Instruction) {
			rt, ok := in.(*ssa.Return)
			if !ok || len(rt.Results) != 1 || rt.Block().Comment == "recover" {
				return
			}
			conds := e.domConds(rt.Block())
			switch e.Canon(rt.Results[0]) {
			case "true":
				nT++
				r.Check(hasStr(conds, "(p2 <= phi(p1|§))"), "R09.6", "stage.companionPartExists: yes only when the covered prefix reached the end of the range", e.InstrPos(rt),
					"the range is reported as held on a path where coverage up to its end was not established", 1, conds...)
			case "false":
				nF++
				r.Check(hasStr(conds, "(phi(§) == phi(p1|§))") || hasStr(conds, "(phi(p1|§) == phi(§))"), "R09.6", "stage.companionPartExists: no only when a pass extended nothing", e.InstrPos(rt),
					"the range is reported as missing although the scan could still extend the covered prefix", 1, conds...)
			default:
				r.Bad("R09.6", "stage.companionPartExists: computed verdict", e.InstrPos(rt), "the verdict is a computed expression again: "+e.Canon(rt.Results[0]), 1)
			}
		})
		r.Min("R09.6", "yes returns", nT, 1)
		r.Min("R09.6", "no returns", nF, 1)
		// the extension: the candidate End is adopted only under Beg <= covered and End > best
		nExt := 0
		for _, b := range fn.Blocks {
			for _, in := range b.Instrs {
				ph, ok := in.(*ssa.Phi)
				if !ok {
					continue
				}
				for i, ed := range ph.Edges {
					cv := e.Canon(ed)
					if !pat("p0.Parts[§].End").MatchString(cv) {
						continue
					}
					if _, isPhi := ed.(*ssa.Phi); isPhi {
						continue
					}
					pred := ph.Block().Preds[i]
					conds := e.domConds(pred)
					if t, ok2 := pred.Instrs[len(pred.Instrs)-1].(*ssa.If); ok2 {
						conds = append(conds, e.CondStr(t.Cond, pred.Succs[0] == ph.Block()))
					}
					if !hasStr(conds, "(phi(§) < "+cv+")") {
						continue // not the adoption edge of the inner scan
					}
					nExt++
					beg := strings.TrimSuffix(cv, ".End") + ".Beg"
					r.Check(hasStr(conds, "("+beg+" <= phi(p1|§))"), "R09.6", "stage.companionPartExists: a range extends the prefix only if it starts at or before it", e.Pos(fn.Pos()),
						"a recorded range is used to extend the covered prefix although it starts beyond it (a gap would be jumped over)", 1, conds...)
				}
			}
		}
		r.Min("R09.6", "extension edges in the coverage scan", nExt, 1)
	}
	// ---------------------------------------------------------------- R09.7
	r.Rule("R09.7", "ranges on record describe the partial that exists NOW: when a file that failed validation is announced again its partial is created anew (zero-filled), so the complete companion of the failed attempt must be gone before new ranges are recorded - removed by the validator on every failure path or by the stage-file initialiser on every `state == failed` path; else the first part of the retry is merged into a record that lists ranges never written to the new partial and the file counts as complete at once - shared with R03.5")
	e.checkFailedCompanionDiscarded(r, "R09.7")
	// ---------------------------------------------------------------- R09.8
	r.Rule("R09.8", "one lock table per source: the per-file locks that serialise the companion's read-modify-write live in the source's gatekeeper, so there must be exactly one gatekeeper per source - getGateKeeper builds and files it atomically (factory and store under the table's write lock after a second look-up) - shared with R15.7")
	e.checkGateKeeperOnce(r, "R09.8")
	// ---------------------------------------------------------------- R09.9
	e.shareRule(r, "C08", "R08.4", "R09.9", "what the receiver acknowledges is what it recorded: the part count in the 206 answer is advanced only on the err == nil edge of GateKeeper.Receive, so a part whose range was NOT put on record (unreadable companion, disk full, partial missing) is never counted as received")
	// ---------------------------------------------------------------- R09.10
	r.Rule("R09.10", "the per-file lock stays ONE lock while anybody uses it: an entry of the stage's lock table is deleted only under a test that nobody else holds or awaits its mutex (a user count of zero, kept in the entry) - an unconditional delete lets the next caller of getPathLock create a second mutex for the same file while the first is still held or queued on, and two writers then update one companion concurrently (an acknowledged part vanishes from the record)")
	{
		n := 0
		for _, fn := range e.FuncsIn("stage") {
			for _, in := range e.findInstrs(fn, "builtin(delete)(p0.pathLocks, §)", false) {
				n++
				conds := e.domConds(in.Block())
				guarded := false
				for _, c := range conds {
					if strings.Contains(c, "p0.pathLocks[") && (strings.Contains(c, " == 0)") || strings.Contains(c, "(0 == ") || strings.Contains(c, " <= 0)")) {
						guarded = true
					}
				}
				r.Check(guarded, "R09.10", e.ShortName(fn)+": the entry is removed only when it has no other user", e.InstrPos(in),
					"the lock-table entry is deleted unconditionally: callers do so while holding the mutex (partReceived, Receive's duplicate arm) or right after unlocking it (finalize) although other requests may hold a pointer to it or be queued on it", 1, conds...)
			}
		}
		r.Min("R09.10", "deletions from the per-file lock table", n, 1)
	}
	// ---------------------------------------------------------------- R09.11
	e.shareRule(r, "C01", "R01.7", "R09.11", "the record of ranges belongs to one version: an existing companion is continued only when its hash equals the hash announced with the part; otherwise a fresh record is started (ranges of another version's bytes must not count towards this version's completeness)")
	// ---------------------------------------------------------------- R09.12
	r.Rule("R09.12", "delivering a version does not erase the record of the next: the deliverer removes the companion only when there is none to read or the one on disk carries the hash of the file just delivered - while a parked version waits, a newer version's acknowledged ranges are recorded in that same companion file")
	if fn := needFn(e, r, "R09.12", "stage.(*Stage).putFileAway"); fn != nil {
		cmp := "call(stage.readLocalCompanion)((p1.path + \".cmp\"), §)#0"
		cls := labeler(
			C("("+cmp+" == nil)", "none"),
			C("("+cmp+".Hash == p1.hash)", "sameVersion"),
			C("(p1.hash == "+cmp+".Hash)", "sameVersion"),
		)
		n := e.Guarded(r, "R09.12", "stage.(*Stage).putFileAway: the companion removed is the delivered file's own", fn, e.instrMatch("call(os.Remove)((p1.path + \".cmp\"))"), cls,
			func(l LabelSet) bool { return l.HasAny("none", "sameVersion") }, "no companion, or companion.Hash == file.hash")
		r.Min("R09.12", "companion removals in the deliverer", n, 1)
	}
	// ---------------------------------------------------------------- R09.13
	r.Rule("R09.13", "the record of a file is not shared with a file of another name: same check as R01.16 (a file called `x.cmp` must not be recorded in the companion of `x`)")
	checkCompanionPathsExplicit(e, r, "R09.13")
	// ---------------------------------------------------------------- R09.14
	e.shareRule(r, "C08", "R08.6", "R09.14", "an entry of a file that failed its validation is no evidence of held parts: `part already received` is answered from the cache only for an equal-hash entry that is not failed")
	// ---------------------------------------------------------------- R09.15
	e.shareRule(r, "C20", "R20.2", "R09.15", "acknowledged parts stay on record: the cleaner takes a partial and its companion away only for the version the cache or the log - asked with the companion's own hash - knows as delivered")
}
