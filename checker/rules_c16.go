package main

import (
	"fmt"
	"go/types"
	"regexp"
	"sort"
	"strings"

	"golang.org/x/tools/go/ssa"
)

func init() { register("C16", rulesC16) }

// chanUse is one use of a channel-typed Broker field.
type chanUse struct {
	Fn    *ssa.Function
	In    ssa.Instruction
	Chan  string // field name
	Kind  string // rawsend | selsend | helpersend | recv | helperrecv | close
	Pred  string // stop predicate handed to the helper (helpersend/helperrecv)
	Timed bool   // select send with a time.After / timer arm
}

var brokerChanRe = regexp.MustCompile(`^\^?p0\.(ch[A-Za-z]+)$`)

func chanField(e *Engine, v ssa.Value) string {
	// resolve local aliases (in := broker.chX; in = nil): any leaf that is a Broker channel field
	for _, lv := range e.phiLeaves(v) {
		if m := brokerChanRe.FindStringSubmatch(e.Canon(lv)); m != nil {
			return m[1]
		}
	}
	return ""
}

// brokerChanUses lists every send/receive/close on a Broker channel field in package client.
func (e *Engine) brokerChanUses() []chanUse {
	var out []chanUse
	for _, fn := range e.FuncsIn("client") {
		Instrs(fn, func(in ssa.Instruction) {
			switch x := in.(type) {
			case *ssa.Send:
				if c := chanField(e, x.Chan); c != "" {
					out = append(out, chanUse{Fn: fn, In: in, Chan: c, Kind: "rawsend"})
				}
			case *ssa.Select:
				timed := false
				for _, st := range x.States {
					if st.Dir == types.RecvOnly && (strings.Contains(e.Canon(st.Chan), "time.After") || strings.Contains(e.Canon(st.Chan), ".C")) {
						timed = true
					}
				}
				for _, st := range x.States {
					c := chanField(e, st.Chan)
					if c == "" {
						continue
					}
					if st.Dir == types.SendOnly {
						out = append(out, chanUse{Fn: fn, In: in, Chan: c, Kind: "selsend", Timed: timed || !x.Blocking})
					} else {
						out = append(out, chanUse{Fn: fn, In: in, Chan: c, Kind: "recv"})
					}
				}
			case *ssa.UnOp:
				if x.Op.String() == "<-" {
					if c := chanField(e, x.X); c != "" {
						out = append(out, chanUse{Fn: fn, In: in, Chan: c, Kind: "recv"})
					}
				}
			case *ssa.Range:
				if c := chanField(e, x.X); c != "" {
					out = append(out, chanUse{Fn: fn, In: in, Chan: c, Kind: "recv"})
				}
			case *ssa.Call:
				key := e.CalleeKey(&x.Call)
				switch {
				case strings.HasPrefix(key, "client.sendCh["):
					if c := chanField(e, x.Call.Args[1]); c != "" {
						out = append(out, chanUse{Fn: fn, In: in, Chan: c, Kind: "helpersend", Pred: e.Canon(x.Call.Args[0])})
					}
				case strings.HasPrefix(key, "client.recvCh["):
					if c := chanField(e, x.Call.Args[1]); c != "" {
						out = append(out, chanUse{Fn: fn, In: in, Chan: c, Kind: "helperrecv", Pred: e.Canon(x.Call.Args[0])})
					}
				case key == "builtin(close)":
					if c := chanField(e, x.Call.Args[0]); c != "" {
						out = append(out, chanUse{Fn: fn, In: in, Chan: c, Kind: "close"})
					}
				}
			}
		})
	}
	return out
}

// staticCallees lists the package-client functions fn calls directly (call, go, defer).
func (e *Engine) staticCallees(fn *ssa.Function) []*ssa.Function {
	var out []*ssa.Function
	for _, s := range e.SitesIn(fn) {
		cc := s.Instr.Common()
		if cc.IsInvoke() {
			continue
		}
		var f *ssa.Function
		switch v := cc.Value.(type) {
		case *ssa.Function:
			f = v
		case *ssa.MakeClosure:
			f, _ = v.Fn.(*ssa.Function)
		}
		if f != nil && strings.HasPrefix(e.ShortName(f), "client.") {
			out = append(out, f)
		}
	}
	out = append(out, fn.AnonFuncs...)
	return out
}

func rulesC16(e *Engine, r *Report) {
	start := needFn(e, r, "R16.1", "client.(*Broker).Start")
	if start == nil {
		return
	}
	uses := e.brokerChanUses()
	// ---------------------------------------------------------------- stage table from the start(f, &wg, n) idiom
	type stage struct {
		fn *ssa.Function
		wg string
	}
	var stages []stage
	var firstStart ssa.Instruction
	for _, s := range e.SitesIn(start) {
		cc := s.Instr.Common()
		if len(cc.Args) != 3 {
			continue
		}
		cf := funcOf(cc.Args[0])
		if cf == nil || !strings.HasSuffix(cf.Name(), "$bound") {
			continue
		}
		// resolve the bound method
		var m *ssa.Function
		if obj, ok := cf.Object().(*types.Func); ok {
			m = e.Prog.FuncValue(obj)
		}
		if m == nil {
			continue
		}
		if firstStart == nil {
			firstStart = s.Instr.(ssa.Instruction)
		}
		stages = append(stages, stage{m, e.Canon(cc.Args[1])})
	}
	r.Min("R16.1", "stages started through start(f, &wg, n)", len(stages), 8)
	stageOf := map[*ssa.Function]string{}
	for _, st := range stages {
		stageOf[st.fn] = st.wg
	}
	// transitive senders: function -> channels it may send on
	direct := map[*ssa.Function]map[string]bool{}
	for _, u := range uses {
		if u.Kind == "rawsend" || u.Kind == "selsend" || u.Kind == "helpersend" {
			if direct[u.Fn] == nil {
				direct[u.Fn] = map[string]bool{}
			}
			direct[u.Fn][u.Chan] = true
		}
	}
	var reach func(fn *ssa.Function, seen map[*ssa.Function]bool, acc map[string]bool)
	reach = func(fn *ssa.Function, seen map[*ssa.Function]bool, acc map[string]bool) {
		if seen[fn] {
			return
		}
		seen[fn] = true
		for c := range direct[fn] {
			acc[c] = true
		}
		for _, cal := range e.staticCallees(fn) {
			reach(cal, seen, acc)
		}
	}
	sendersByChan := map[string][]string{} // chan -> wgs
	for _, st := range stages {
		acc := map[string]bool{}
		reach(st.fn, map[*ssa.Function]bool{}, acc)
		for c := range acc {
			sendersByChan[c] = append(sendersByChan[c], st.wg)
		}
	}

	// ---------------------------------------------------------------- R16.1
	r.Rule("R16.1", "no send on a closed channel: in Broker.Start every close(chX) is preceded on all paths by Wait() of every WaitGroup whose stage functions can (transitively) send on chX; senders outside any stage (Start itself, recover) run before the first stage is started")
	nClose := 0
	for _, u := range uses {
		if u.Kind != "close" || u.Fn != start {
			continue
		}
		nClose++
		need := sendersByChan[u.Chan]
		sort.Strings(need)
		var ls []L
		for _, wg := range need {
			ls = append(ls, I("call(sync.(*WaitGroup).Wait)("+wg+")", "waited:"+wg))
		}
		wgs := need
		e.Guarded(r, "R16.1", "client.(*Broker).Start: close("+u.Chan+")", start, only(u.In), labeler(ls...),
			func(l LabelSet) bool {
				for _, wg := range wgs {
					if !l.Has("waited:" + wg) {
						return false
					}
				}
				return true
			}, "Wait() of "+strings.Join(need, ", ")+" (the groups whose goroutines may send on "+u.Chan+")")
	}
	r.Min("R16.1", "channel closes in Start", nClose, 7)
	for c, wgs := range sendersByChan {
		if c == "chStop" {
			continue
		}
		closed := false
		for _, u := range uses {
			if u.Kind == "close" && u.Chan == c {
				closed = true
			}
		}
		r.Check(closed, "R16.1", "channel "+c+" (senders: "+strings.Join(wgs, ",")+") is closed by Start", "", "a stage channel is never closed: its consumer cannot detect the end of input", 1)
	}
	// senders outside the stages
	{
		inStage := map[*ssa.Function]bool{}
		for _, st := range stages {
			reach2 := map[*ssa.Function]bool{}
			reach(st.fn, reach2, map[string]bool{})
			for f := range reach2 {
				inStage[f] = true
			}
		}
		cls := labeler(I("call(client.(*Broker).Start$§)(closure(§$bound), §)", "stagesStarted"))
		for _, u := range uses {
			if u.Kind != "rawsend" && u.Kind != "helpersend" && u.Kind != "selsend" {
				continue
			}
			if inStage[u.Fn] && EnclosingTop(u.Fn) != start {
				continue
			}
			top := EnclosingTop(u.Fn)
			if top == start && u.Fn == start {
				e.Guarded(r, "R16.1", "client.(*Broker).Start: own send on "+u.Chan+" happens before the stages start", start, only(u.In), cls,
					func(l LabelSet) bool { return !l.Has("stagesStarted") }, "no stage started yet (buffered hand-over)")
			}
		}
		// recover() (which may call finish -> chRetry) is called before the stages
		for _, in := range e.findInstrs(start, "call(client.(*Broker).recover)(p0)", false) {
			e.Guarded(r, "R16.1", "client.(*Broker).Start: recover() runs before the stages start", start, only(in), cls,
				func(l LabelSet) bool { return !l.Has("stagesStarted") }, "no stage started yet")
		}
	}

	// ---------------------------------------------------------------- R16.2
	r.Rule("R16.2", "every blocking send can observe the stop: each send on a Broker channel goes through the stop-aware helper sendCh (select{send, timer}; the timer arm re-checks the stop predicate and gives up when it holds) or is a select with a timer arm; frozen exceptions: chStats in stat() (drained unconditionally until closed), Start's own hand-over on the buffered chScanned before the stages start, the stop goroutine's chStop")
	{
		exceptions := map[string]string{
			"client.(*Broker).stat|chStats":    "consumer drains chStats until it is closed, after all senders are waited for",
			"client.(*Broker).Start|chScanned": "buffer of 1, before any stage runs",
			"client.(*Broker).Start$2|chStop":  "the stop goroutine itself",
		}
		n := 0
		for _, u := range uses {
			switch u.Kind {
			case "rawsend":
				n++
				k := e.ShortName(u.Fn) + "|" + u.Chan
				why, ok := exceptions[k]
				if strings.HasPrefix(e.ShortName(u.Fn), "client.(*Broker).Start$") && u.Chan == "chStop" {
					why, ok = exceptions["client.(*Broker).Start$2|chStop"], true
				}
				r.Check(ok, "R16.2", e.ShortName(u.Fn)+": raw send on "+u.Chan, e.InstrPos(u.In),
					"a blocking send that cannot observe a stop request (use the stop-aware helper): "+e.InstrStr(u.In), 1, "exception: "+why)
			case "selsend":
				n++
				r.Check(u.Timed, "R16.2", e.ShortName(u.Fn)+": select-send on "+u.Chan, e.InstrPos(u.In),
					"a select that sends on a stage channel has no timer/default arm: it can block for ever during a stop", 1, "has a timer arm")
			case "helpersend":
				n++
				r.Ok("R16.2", fmt.Sprintf("%s: sendCh(%s, %s)", e.ShortName(u.Fn), shortPred(u.Pred), u.Chan), e.InstrPos(u.In), 1, "stop-aware helper, predicate "+shortPred(u.Pred))
			}
		}
		r.Min("R16.2", "send sites on Broker channels", n, 12)
		// the helper itself
		nh := 0
		for _, fn := range e.FuncsIn("client") {
			if !strings.HasPrefix(e.ShortName(fn), "client.sendCh[") {
				continue
			}
			nh++
			var sel *ssa.Select
			Instrs(fn, func(in ssa.Instruction) {
				if s, ok := in.(*ssa.Select); ok {
					sel = s
				}
			})
			okSel := sel != nil && sel.Blocking && len(sel.States) == 2
			if okSel {
				okSel = false
				for _, st := range sel.States {
					if st.Dir == types.SendOnly && e.Canon(st.Chan) == "p1" && e.Canon(st.Send) == "p2" {
						okSel = true
					}
				}
			}
			r.Check(okSel, "R16.2", e.ShortName(fn)+": select{ch <- item, <-timer}", e.Pos(fn.Pos()), "the stop-aware send helper no longer selects between the send and a timer", 1)
			cls := labeler(C("dyn(p0)()", "stopSeen"), C("(select#0 == 0)", "sent"))
			nGiveUp := 0
			for _, rw := range e.returnWorlds(r, "R16.2", fn, cls) {
				if rw.W.Has("ret0=false") {
					nGiveUp++
					r.Check(rw.W.Has("stopSeen"), "R16.2", e.ShortName(fn)+": gives up only when the stop predicate holds "+rw.W.String(), e.InstrPos(rw.In), "the helper gives up without the stop predicate", 1)
				}
				if rw.W.Has("ret0=true") {
					r.Check(rw.W.Has("sent"), "R16.2", e.ShortName(fn)+": reports success only after the send "+rw.W.String(), e.InstrPos(rw.In), "the helper reports success without having sent", 1)
				}
			}
			r.Min("R16.2", e.ShortName(fn)+": give-up paths (stop observed)", nGiveUp, 1)
			// the timer arm leads back to the select (re-armed) when the predicate is false
			rs := e.findInstrs(fn, "call(time.(*Timer).Reset)(§)", false)
			r.Check(len(rs) >= 1, "R16.2", e.ShortName(fn)+": timer re-armed", e.Pos(fn.Pos()), "after a timeout without stop the helper does not re-arm its timer (it would spin or block)", 1)
		}
		r.Min("R16.2", "instances of the stop-aware send helper", nh, 3)
	}

	// the stop-aware receive helper
	{
		nh := 0
		for _, fn := range e.FuncsIn("client") {
			if !strings.HasPrefix(e.ShortName(fn), "client.recvCh[") {
				continue
			}
			nh++
			cls := labeler(C("dyn(p0)()", "stopSeen"), C("(select#0 == 0)", "received"), C("!select#1", "closed"), C("select#1", "open"))
			nNil, nVal := 0, 0
			for _, rw := range e.returnWorlds(r, "R16.2", fn, cls) {
				rt := rw.In.(*ssa.Return)
				if e.Canon(rt.Results[0]) == "nil" {
					nNil++
					r.Check(rw.W.Has("stopSeen") || rw.W.HasAll("received", "closed"), "R16.2", e.ShortName(fn)+": gives up only on the stop predicate or a closed channel "+rw.W.String(), e.InstrPos(rt),
						"the stop-aware receive returns nothing although neither the predicate held nor the channel was closed (an item would be dropped or the stage leave early)", 1, rw.W.String())
				} else {
					nVal++
					r.Check(rw.W.HasAll("received", "open"), "R16.2", e.ShortName(fn)+": hands out only an item actually received "+rw.W.String(), e.InstrPos(rt), "an item is returned without a successful receive", 1, rw.W.String())
				}
			}
			r.Min("R16.2", e.ShortName(fn)+": nil returns", nNil, 2)
			r.Min("R16.2", e.ShortName(fn)+": item returns", nVal, 1)
		}
		r.Min("R16.2", "instances of the stop-aware receive helper", nh, 1)
	}

	// ---------------------------------------------------------------- R16.9
	r.Rule("R16.9", "local worker pools cannot strand their producer: where a function feeds a channel it created with plain sends to goroutines it started (hash → hashFiles), every worker returns only after it saw the channel closed (it keeps draining, also under an immediate stop), the producer closes the channel on every path that leaves after workers were started, waits for them only after the close, and never sends after the close")
	e.checkWorkerPools(r, "R16.9", 1, "client")

	// ---------------------------------------------------------------- R16.3
	r.Rule("R16.3", "every stage function releases its WaitGroup: the first deferred call of each function started through start() is wg.Done() on its own parameter")
	for _, st := range stages {
		first := ""
		if len(st.fn.Blocks) > 0 {
			for _, in := range st.fn.Blocks[0].Instrs {
				if d, ok := in.(*ssa.Defer); ok {
					first = e.InstrStr(d)
					break
				}
			}
		}
		r.Check(first == "defer call(sync.(*WaitGroup).Done)(p1)", "R16.3", e.ShortName(st.fn)+": defer wg.Done() first", e.Pos(st.fn.Pos()),
			"the stage does not (first) defer wg.Done(): Start would wait for ever, or close a channel too early; found "+first, 1, first)
	}

	// ---------------------------------------------------------------- R16.4
	r.Rule("R16.4", "exits of the stages: each return of a stage function is reached only under an immediate stop, a refused stop-aware send/receive, the stop broadcast, or `input closed and own backlog empty`; in particular the tracker and the validator do not leave while they still hold files")
	{
		cls := labeler(
			C("call(client.(*Broker).shouldStopNow)(p0)", "stopNow"),
			C("call(client.(*Broker).shouldStop)(p0)", "stopAny"),
			C("!call(client.sendCh[§])(§)", "sendRefused"),
			C("(call(client.recvCh[§])(§) == nil)", "recvRefused"),
			C("!recv(§)#1", "inputClosed"),
			C("!select#2", "inputClosed"),
			C("!select#1", "inputClosed"),
			C("(phi(§) == nil)", "inputClosed"),
			C("(«(phi\\()?»p0.ch«[A-Za-z]+»§ == nil)", "inputClosed"),
			C("(builtin(len)(make(map[string]*client.progressFile)) == 0)", "backlogEmpty"),
			C("(builtin(len)(make(map[string]*client.progressFile)) <= 0)", "backlogEmpty"),
			C("(invoke(sts.FileQueue.Pop)(p0.Conf.Queue) == nil)", "backlogEmpty"),
			C("(select#0 == 0)", "selected0"),
		)
		for _, st := range stages {
			name := e.ShortName(st.fn)
			n := 0
			res := e.Flow(st.fn, FlowOpts{Classify: cls, Target: isReturn, Sticky: []string{"inputClosed"}})
			r.Check(!res.Undecided, "R16.4", name+": decided", e.Pos(st.fn.Pos()), "undecided (path-world cap)", res.Evals)
			var rws []retWorld
			for in, ws := range res.At {
				if in.Block().Comment == "recover" {
					continue
				}
				for _, w := range ws {
					rws = append(rws, retWorld{in, w})
				}
			}
			sort.Slice(rws, func(i, j int) bool {
				if rws[i].In.Block().Index != rws[j].In.Block().Index {
					return rws[i].In.Block().Index < rws[j].In.Block().Index
				}
				return rws[i].W.String() < rws[j].W.String()
			})
			for _, rw := range rws {
				n++
				w := rw.W
				ok := w.HasAny("stopNow", "stopAny", "sendRefused", "recvRefused")
				switch name {
				case "client.(*Broker).startScan":
					ok = ok || w.Has("selected0") // the stop broadcast
				case "client.(*Broker).startQueue", "client.(*Broker).startTrack", "client.(*Broker).startValidate":
					ok = ok || w.HasAll("inputClosed", "backlogEmpty")
				case "client.(*Broker).startBin", "client.(*Broker).startSend", "client.(*Broker).startStats":
					ok = ok || w.Has("inputClosed")
				}
				r.Check(ok, "R16.4", fmt.Sprintf("%s: return b%d %s", name, rw.In.Block().Index, w.String()), e.InstrPos(rw.In),
					"a stage can leave without a stop condition and without having drained its input/backlog: files it holds would never be finished", 1, w.String())
			}
			r.Min("R16.4", "return path classes of "+name, n, 1)
		}
	}

	// ---------------------------------------------------------------- R16.5
	r.Rule("R16.5", "every channel that is sent on has a receiver: each channel-typed struct field / package variable of packages client and main that is the target of a blocking send is also received from somewhere in the module (directly, in a select, by range, through recvCh) or handed to a callee; a channel created, stored and sent on but never given to anyone blocks its sender for ever")
	{
		type fuse struct{ sends, recvs, escapes int }
		stat := map[*types.Var]*fuse{}
		note := func(v ssa.Value, kind string) {
			for _, lv := range e.phiLeaves(v) {
				u, ok := lv.(*ssa.UnOp)
				if !ok {
					continue
				}
				fa, ok := u.X.(*ssa.FieldAddr)
				if !ok {
					continue
				}
				f := fieldVar(fa.X, fa.Field)
				if f == nil {
					continue
				}
				if _, isChan := f.Type().Underlying().(*types.Chan); !isChan {
					continue
				}
				if f.Pkg() == nil || !(strings.HasSuffix(f.Pkg().Path(), "/client") || strings.HasSuffix(f.Pkg().Path(), "/main")) {
					continue
				}
				if stat[f] == nil {
					stat[f] = &fuse{}
				}
				switch kind {
				case "send":
					stat[f].sends++
				case "recv":
					stat[f].recvs++
				case "escape":
					stat[f].escapes++
				}
			}
		}
		// values stored into chan fields that are also handed elsewhere count as an escape of the field
		storedVals := map[ssa.Value]*types.Var{}
		for _, fn := range e.Funcs {
			Instrs(fn, func(in ssa.Instruction) {
				if st, ok := in.(*ssa.Store); ok {
					if fa, ok := st.Addr.(*ssa.FieldAddr); ok {
						if f := fieldVar(fa.X, fa.Field); f != nil {
							if _, isChan := f.Type().Underlying().(*types.Chan); isChan {
								v := st.Val
								for {
									if ct, ok := v.(*ssa.ChangeType); ok {
										v = ct.X
										continue
									}
									break
								}
								storedVals[v] = f
							}
						}
					}
				}
			})
		}
		for _, fn := range e.Funcs {
			Instrs(fn, func(in ssa.Instruction) {
				switch x := in.(type) {
				case *ssa.Send:
					note(x.Chan, "send")
				case *ssa.Select:
					for _, st := range x.States {
						if st.Dir == types.SendOnly {
							note(st.Chan, "send")
						} else {
							note(st.Chan, "recv")
						}
					}
				case *ssa.UnOp:
					if x.Op.String() == "<-" {
						note(x.X, "recv")
					}
				case *ssa.Range:
					note(x.X, "recv")
				case ssa.CallInstruction:
					cc := x.Common()
					key := e.CalleeKey(cc)
					for i, a := range cc.Args {
						if _, isChan := a.Type().Underlying().(*types.Chan); !isChan {
							continue
						}
						switch {
						case strings.HasPrefix(key, "client.sendCh[") && i == 1:
							note(a, "send")
						case strings.HasPrefix(key, "client.recvCh[") && i == 1:
							note(a, "recv")
						case key == "builtin(close)" || key == "builtin(len)" || key == "builtin(cap)":
						default:
							note(a, "escape")
							v := a
							for {
								if ct, ok := v.(*ssa.ChangeType); ok {
									v = ct.X
									continue
								}
								break
							}
							if f, ok := storedVals[v]; ok {
								if stat[f] == nil {
									stat[f] = &fuse{}
								}
								stat[f].escapes++
							}
						}
					}
				}
			})
		}
		var names []string
		byName := map[string]*types.Var{}
		for f := range stat {
			n := f.Pkg().Name() + "." + f.Name()
			names = append(names, n)
			byName[n] = f
		}
		sort.Strings(names)
		nChecked := 0
		for _, n := range names {
			u := stat[byName[n]]
			if u.sends == 0 {
				continue
			}
			nChecked++
			r.Check(u.recvs+u.escapes > 0, "R16.5", "channel field "+n+": has a receiver", e.Pos(byName[n].Pos()),
				fmt.Sprintf("%d blocking send(s) on a channel that nobody receives from and that is handed to nobody: the sender blocks for ever", u.sends),
				u.sends+u.recvs+u.escapes, fmt.Sprintf("sends=%d receives=%d handed-to-callee=%d", u.sends, u.recvs, u.escapes))
		}
		r.Min("R16.5", "channel fields with senders in client/main", nChecked, 8)
	}

	// ---------------------------------------------------------------- R16.6
	r.Rule("R16.6", "one-shot = graceful: app.run() stops the clients with graceful = !isDaemon; stopClients hands exactly that flag to every client's stop channel and waits for its done signal")
	if fn := needFn(e, r, "R16.6", "main.(*app).run"); fn != nil {
		calls := e.findInstrs(fn, "call(main.(*app).stopClients)(p0, §)", false)
		ok := len(calls) == 1
		arg := ""
		if ok {
			arg = e.Canon(calls[0].(ssa.CallInstruction).Common().Args[1])
			ok = strings.HasPrefix(arg, "!") && strings.Contains(arg, "call(main.(*app).startClients)(p0)") && len(e.ifEdges(fn, "p0.loop")) > 0
		}
		r.Check(ok, "R16.6", "main.(*app).run: stopClients(!isDaemon)", e.Pos(fn.Pos()), "the clients are not stopped with graceful = !isDaemon: "+arg, 1, arg)
	}
	if fn := needFn(e, r, "R16.6", "main.(*app).stopClients"); fn != nil {
		okFlag, okWait := false, false
		for _, cf := range fn.AnonFuncs {
			for _, in := range e.findInstrs(cf, "send(p0, p1)", false) {
				_ = in
				okFlag = true
			}
			Instrs(cf, func(in ssa.Instruction) {
				if u, ok := in.(*ssa.UnOp); ok && u.Op.String() == "<-" && e.Canon(u.X) == "p2" {
					okWait = true
				}
			})
		}
		passes := e.findInstrs(fn, "go call(main.(*app).stopClients$1)(next(range(p0.clientStop))#1, p1, next(range(p0.clientStop))#2, §)", false)
		r.Check(okFlag && okWait && len(passes) == 1, "R16.6", "main.(*app).stopClients: each client gets the flag and is waited for", e.Pos(fn.Pos()),
			"stopClients does not send the requested flag on each stop channel and wait on the matching done channel", 3)
	}

	// ---------------------------------------------------------------- R16.7
	r.Rule("R16.7", "no eternal select: a blocking select in a stage function whose arms are all receives must, on every incoming control edge, have at least one arm whose channel cannot be nil there (a receive on a nil channel blocks for ever; the stages set their input to nil once it is closed and use a nil timer to mean `block`)")
	{
		n := 0
		for _, st := range stages {
			Instrs(st.fn, func(in ssa.Instruction) {
				sel, ok := in.(*ssa.Select)
				if !ok || !sel.Blocking {
					return
				}
				for _, s := range sel.States {
					if s.Dir == types.SendOnly {
						return // a send arm on a stage channel: covered by R16.2
					}
				}
				n++
				var track []*ssa.Phi
				for _, s2 := range sel.States {
					var collect func(v ssa.Value, d int)
					collect = func(v ssa.Value, d int) {
						if ph, ok := v.(*ssa.Phi); ok && d < 6 {
							for _, t := range track {
								if t == ph {
									return
								}
							}
							track = append(track, ph)
							for _, ed := range ph.Edges {
								collect(ed, d+1)
							}
						}
					}
					collect(s2.Chan, 0)
				}
				res := e.Flow(st.fn, FlowOpts{Target: only(sel), Track: track, Probe: func(in ssa.Instruction, resolve func(ssa.Value) ssa.Value) []string {
					all := true
					var desc []string
					for _, s2 := range sel.States {
						v := resolve(s2.Chan)
						k, isConst := v.(*ssa.Const)
						isNil := isConst && k.Value == nil
						if !isNil {
							all = false
						}
						desc = append(desc, fmt.Sprintf("%s=%v", shorten(e.Canon(s2.Chan)), map[bool]string{true: "nil", false: "live-or-unknown"}[isNil]))
					}
					if all {
						return []string{"allNil[" + strings.Join(desc, "; ") + "]"}
					}
					return nil
				}})
				bad := false
				var facts []string
				for _, ws := range res.At {
					for _, w := range ws {
						if w.HasPrefix("allNil") {
							bad = true
							facts = append(facts, w.String())
						}
					}
				}
				r.Check(!bad && !res.Undecided, "R16.7", fmt.Sprintf("%s: blocking select with every channel possibly nil", e.ShortName(st.fn)), e.InstrPos(sel),
					"on some path every arm of this select waits on a nil channel: the stage never returns and the stop never completes", res.Evals, facts...)
			})
		}
		r.Min("R16.7", "receive-only blocking selects in stage functions", n, 4)
	}

	// ---------------------------------------------------------------- R16.8
	r.Rule("R16.8", "senders give up no later than receivers leave: for a channel whose receivers leave on predicate P (recvCh(P, ch)), every stop-aware sender on that channel uses a predicate that holds whenever P holds (shouldStop covers shouldStopNow, not the other way round); otherwise a sender can block for ever on a channel nobody reads any more during a graceful stop")
	{
		rank := func(p string) int {
			switch {
			case strings.Contains(p, "shouldStopNow"):
				return 1 // holds only for an immediate stop
			case strings.Contains(p, "shouldStop"):
				return 2 // holds for every stop
			}
			return 0
		}
		recvPred := map[string]int{}
		for _, u := range uses {
			if u.Kind == "helperrecv" {
				if rk := rank(u.Pred); rk > recvPred[u.Chan] {
					recvPred[u.Chan] = rk
				}
			}
		}
		n := 0
		for _, u := range uses {
			if u.Kind != "helpersend" {
				continue
			}
			rp, has := recvPred[u.Chan]
			if !has {
				continue
			}
			n++
			r.Check(rank(u.Pred) >= rp, "R16.8", fmt.Sprintf("%s: sendCh(%s, %s) vs. receivers' predicate", e.ShortName(u.Fn), shortPred(u.Pred), u.Chan), e.InstrPos(u.In),
				"the receivers of "+u.Chan+" leave on any stop, but this sender only gives up on an immediate stop: during a graceful stop it blocks for ever once the buffer is full", 1,
				"sender predicate "+shortPred(u.Pred))
		}
		r.Min("R16.8", "stop-aware senders on channels with stop-aware receivers", n, 1)
	}
	// ---------------------------------------------------------------- R16.10
	r.Rule("R16.10", "'nothing to hand out' is not 'nothing left': Pop() answers nil also while the youngest file of a group is withheld by its tag's last-delay; a stage that leaves on 'input closed and Pop() == nil' therefore needs a second, real emptiness signal from the queue before it may take that exit during a graceful stop (else a one-shot run ends with a scanned file unsent)")
	{
		withheld := false
		if pop := needFn(e, r, "R16.10", "queue.(*Tagged).Pop"); pop != nil {
			cl := labeler(C("(call(time.Since)(§) < §.conf.LastDelay)", "withheld"))
			res := e.Flow(pop, FlowOpts{Classify: cl, Target: isReturn, Sticky: []string{"withheld"}})
			for in, ws := range res.At {
				for _, w := range ws {
					if e.Canon(in.(*ssa.Return).Results[0]) == "nil" && w.Has("withheld") {
						withheld = true
					}
				}
			}
			r.Check(!res.Undecided, "R16.10", "queue.(*Tagged).Pop: decided", e.Pos(pop.Pos()), "undecided (path-world cap)", res.Evals)
		}
		if fn := needFn(e, r, "R16.10", "client.(*Broker).startQueue"); fn != nil && withheld {
			other := 0
			for _, s := range e.InvokeSites("sts", "FileQueue", "Pop") {
				_ = s
			}
			Instrs(fn, func(in ssa.Instruction) {
				if c, ok := in.(ssa.CallInstruction); ok && c.Common().IsInvoke() && strings.HasPrefix(e.Canon(c.Common().Value), "p0.Conf.Queue") {
					if m := c.Common().Method.Name(); m != "Pop" && m != "Push" {
						other++
					}
				}
			})
			r.Check(other > 0, "R16.10", "client.(*Broker).startQueue: the exit on a closed input asks the queue whether it is empty", e.Pos(fn.Pos()),
				"startQueue leaves when its input is closed and Pop() answers nil, but Pop() answers nil also for a file withheld by last-delay: during a graceful (one-shot) stop that file is never transmitted", 1)
		}
	}
	// ---------------------------------------------------------------- R16.11
	r.Rule("R16.11", "the stop is visible before it is announced: the goroutine that turns the external stop request into the broker's state sets the flags (stop, stopGraceful, under stopMux) BEFORE it sends on chStop - the send blocks until the scanner is between two scans, and every other stage, every timed send and every retry loop learns of the stop from the flags only")
	{
		n := 0
		for _, cf := range WithClosures(start) {
			snd := e.findInstrs(cf, "send(^p0.chStop, §)", false)
			if len(snd) == 0 {
				continue
			}
			n++
			cls := labeler(I("store(^p0.stop = true)", "stopSet"), I("store(^p0.stopGraceful = §)", "kindSet"), I("call(sync.(*RWMutex).Unlock)(&^p0.stopMux)", "published"))
			e.Guarded(r, "R16.11", e.ShortName(cf)+": send on chStop only after the flags are set and published", cf, only(snd[0]), cls,
				func(l LabelSet) bool { return l.HasAll("stopSet", "kindSet", "published") }, "stop and stopGraceful stored, stopMux released")
		}
		r.Min("R16.11", "stop broadcasts in Start", n, 1)
	}
	// ---------------------------------------------------------------- R16.12
	r.Rule("R16.12", "the tracker can always drain: an entry whose bytes are not all acknowledged is passed over only while more parts can still arrive (input open); once its input is closed - the senders are done - such an entry is deleted, because the part it waits for was dropped (the file changed) and will never come: otherwise `input closed and backlog empty` is never reached and a graceful or one-shot stop never ends")
	if fn := needFn(e, r, "R16.12", "client.(*Broker).startTrack"); fn != nil {
		ent := "next(range(make(map[string]*client.progressFile)))"
		edges := e.ifEdges(fn, "("+ent+"#2.sent < "+ent+"#2.size)")
		r.Min("R16.12", "`not all bytes acknowledged` tests in the tracker", len(edges), 1)
		cls := labeler(
			C("(phi(p0.chTransmitted|§) == nil)", "closed"), C("(phi(p0.chTransmitted|§) != nil)", "open"),
			I("builtin(delete)(make(map[string]*client.progressFile), "+ent+"#1)", "dropped"),
		)
		for _, ed := range edges {
			// from the `incomplete` edge to wherever the iteration goes on (the range header)
			hdr := ed.B.Preds[0]
			for _, p := range ed.B.Preds {
				if p.Dominates(ed.B) {
					hdr = p
				}
			}
			var backs []ssa.Instruction
			for _, p := range hdr.Preds {
				if hdr.Dominates(p) && reaches(ed.B.Succs[ed.Succ], p, hdr) {
					backs = append(backs, p.Instrs[len(p.Instrs)-1])
				}
			}
			_ = cls
			n := 0
			for _, bi := range backs {
				b := bi.Block()
				conds := e.domConds(b)
				if t, ok := bi.(*ssa.If); ok && b.Succs[0] != b.Succs[1] {
					conds = append(conds, e.CondStr(t.Cond, b.Succs[0] == hdr))
				}
				if !hasStr(conds, "("+ent+"#2.sent < "+ent+"#2.size)") {
					continue // not on the `incomplete` side
				}
				n++
				open := hasStr(conds, "(phi(p0.chTransmitted|§) != nil)")
				closed := hasStr(conds, "(phi(p0.chTransmitted|§) == nil)")
				dropped := false
				for d := b; d != nil && d != ed.B; d = d.Idom() {
					for _, in := range d.Instrs {
						if e.InstrStr(in) == "builtin(delete)(make(map[string]*client.progressFile), "+ent+"#1)" {
							dropped = true
						}
					}
				}
				r.Check(open || (closed && dropped), "R16.12", fmt.Sprintf("client.(*Broker).startTrack: an incomplete entry is kept only while the input is open (b%d)", b.Index), e.InstrPos(bi),
					"an entry with unacknowledged bytes is passed over without asking whether more parts can still arrive: after the senders are done it stays for ever and the tracker never drains", 1, conds...)
			}
			r.Min("R16.12", "ways the tracker passes over an incomplete entry", n, 1)
		}
	}
	// ---------------------------------------------------------------- R16.13
	r.Rule("R16.13", "a verdict takes the file off the validator's list: in startValidate every pass over a polled file that calls finish(f) also does delete(poll, f.GetName()) - the validator leaves only with an empty list, and after a stop nothing re-enters it (the resend that would replace the entry does not happen: finish() hands nothing to the retriers once a stop was asked for)")
	if fn := needFn(e, r, "R16.13", "client.(*Broker).startValidate"); fn != nil {
		fins := e.findInstrs(fn, "call(client.(*Broker).finish)(p0, §)", false)
		r.Min("R16.13", "finish() calls in startValidate", len(fins), 2)
		if len(fins) > 0 {
			var backs []ssa.Instruction
			for _, f := range fins {
				_, bs := innermostLoop(f)
				backs = append(backs, bs...)
			}
			finRe := regexp.MustCompile(`^call\(client\.\(\*Broker\)\.finish\)\(p0, (.*)\)$`)
			delRe := regexp.MustCompile(`^builtin\(delete\)\(make\(map\[string\]\*client\.progressFile\), invoke\(sts\.Polled\.GetName\)\((.*)\)\)$`)
			cls := func(ev *Event) (add, kill []string) {
				if ev.Kind != EvInstr {
					return
				}
				if m := finRe.FindStringSubmatch(ev.Str); m != nil {
					add = append(add, "finished:"+m[1])
				}
				if m := delRe.FindStringSubmatch(ev.Str); m != nil {
					add = append(add, "deleted:"+m[1])
				}
				return
			}
			res := e.Flow(fn, FlowOpts{Classify: cls, Target: anyOf(backs)})
			e.judge(r, "R16.13", "client.(*Broker).startValidate: a file given its verdict leaves the list in the same pass", fn, res,
				func(l LabelSet) bool {
					for k := range l {
						if strings.HasPrefix(k, "finished:") && !l.Has("deleted:"+strings.TrimPrefix(k, "finished:")) {
							return false
						}
					}
					return true
				}, "delete(poll, f.GetName()) in the iteration that called finish(f)")
		}
	}
	// ---------------------------------------------------------------- R16.14
	r.Rule("R16.14", "nothing confirmed is left unrecorded, whichever way the sender leaves: in the two places that apply verdicts in batches (the validator loop and the start-up recovery) every return that can follow a finish() has passed Cache.Persist after the last one - including the returns taken on an immediate stop in the middle of a batch (R07.1 looks at the ends of batches; this rule at the exits)")
	for _, name := range []string{"client.(*Broker).startValidate", "client.(*Broker).recover"} {
		fn := needFn(e, r, "R16.14", name)
		if fn == nil {
			continue
		}
		fin := "call(client.(*Broker).finish)(p0, §)"
		cls := labeler(
			I(fin, "finished"),
			IK(fin, "persisted"),
			I("invoke(sts.FileCache.Persist)(p0.Conf.Cache)", "persisted"),
		)
		res := e.Flow(fn, FlowOpts{Classify: cls, Target: isReturn, Sticky: []string{"finished", "persisted"}})
		n := e.judge(r, "R16.14", name+": no return between a verdict applied and the cache persisted", fn, res,
			func(l LabelSet) bool { return !l.Has("finished") || l.Has("persisted") }, "Cache.Persist after the last finish()")
		r.Min("R16.14", "returns of "+name, n, 2)
	}
	// ---------------------------------------------------------------- R16.15
	r.Rule("R16.15", "no retry loop outlives an immediate stop: every loop of the sender that backs off and tries again (it calls applyErrorBackoff) asks shouldStopNow() in each pass and leaves on yes - a loop that relies on its caller's check is a loop the caller never gets back from while the peer stays away")
	{
		n := 0
		for _, fn := range e.FuncsIn("client") {
			for _, in := range e.findInstrs(fn, "call(client.(*Broker).applyErrorBackoff)(p0, §)", false) {
				hdr, backs := innermostLoop(in)
				if hdr == nil {
					continue
				}
				n++
				// from the loop header to this back-off call, a pass has tested shouldStopNow (and went on only on `no`)
				cls := labeler(C("!call(client.(*Broker).shouldStopNow)(p0)", "askedStop"))
				res := e.Flow(fn, FlowOpts{Classify: cls, Target: anyOf(backs)})
				e.judge(r, "R16.15", fmt.Sprintf("%s: the retry loop around applyErrorBackoff (%s) asks shouldStopNow in every pass", e.ShortName(fn), e.InstrPos(in)), fn, res,
					func(l LabelSet) bool { return l.Has("askedStop") }, "!shouldStopNow() on the way round the loop")
			}
		}
		r.Min("R16.15", "retry loops with a back-off in package client", n, 4)
	}
	// ---------------------------------------------------------------- R16.16
	r.Rule("R16.16", "the start-up poll makes progress: recovery asks the receiver about its unfinished files in batches of PollMaxCount and leaves its loop when the list is used up - with a batch size of zero the list never shrinks and the loop, which only looks at the immediate-stop flag, never ends (a graceful or one-shot stop never terminates); main fills that size from an option that setDefaults leaves positive on every success path")
	e.checkOptionPositive(r, "R16.16", "PollMaxCount", "the start-up recovery slices its poll list by that number - with 0 it asks about 0 files for ever")
}

func shortPred(p string) string {
	p = strings.TrimPrefix(p, "closure(client.(*Broker).")
	p = strings.TrimSuffix(p, "$bound)")
	return p
}
