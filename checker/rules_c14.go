package main

import (
	"fmt"
	"go/types"
	"reflect"
	"sort"
	"strings"

	"golang.org/x/tools/go/ssa"
)

func init() { register("C14", rulesC14); register("C15", rulesC15) }

func rulesC14(e *Engine, r *Report) {
	// ---------------------------------------------------------------- R14.1
	r.Rule("R14.1", "names from a request reach the gatekeeper only after validation: in the data and data-recovery routes every GateKeeper call that carries the decoded parts (Prepare, Receive, Received) is reached only after validateParts(<the same parts>) returned nil; in the validate route every name has passed validateNames (after separator conversion) in a loop that returns on the first bad name and dominates the status loop over the same list")
	for _, name := range []string{"http.(*Server).routeData", "http.(*Server).routeDataRecovery"} {
		fn := needFn(e, r, "R14.1", name)
		if fn == nil {
			continue
		}
		parts := "invoke(sts.PayloadDecoder.GetParts)(§)"
		n := 0
		for _, in := range e.findInstrs(fn, "invoke(sts.GateKeeper.«(Prepare|Receive|Received|GetFileStatus|Scan)»)(§)", false) {
			n++
			var pv string
			for _, vp := range e.findInstrs(fn, "call(http.validateParts)("+parts+")", false) {
				pv = e.Canon(vp.(ssa.CallInstruction).Common().Args[0])
			}
			cls := labeler(C("(call(http.validateParts)("+pv+") == nil)", "validated"))
			e.Guarded(r, "R14.1", fmt.Sprintf("%s: %s after validateParts", name, e.CalleeKey(in.(ssa.CallInstruction).Common())), fn, only(in), cls,
				func(l LabelSet) bool { return l.Has("validated") }, "validateParts(decoder.GetParts()) == nil")
			// the parts handed over are the validated ones
			s := e.InstrStr(in)
			r.Check(pv != "" && (strings.Contains(s, pv) || strings.Contains(s, "&new(sts.Partial)")), "R14.1", fmt.Sprintf("%s: %s works on the validated list", name, e.CalleeKey(in.(ssa.CallInstruction).Common())), e.InstrPos(in),
				"the gatekeeper is handed parts other than the list that was validated", 1)
		}
		r.Min("R14.1", "gatekeeper calls in "+name, n, 1)
		// the factory (which touches directories) is reached through getGateKeeper only after validation as well
		for _, in := range e.findInstrs(fn, "call(http.(*Server).getGateKeeper)(p0, p2)", false) {
			_ = in
		}
	}
	if fn := needFn(e, r, "R14.1", "http.(*Server).routeValidate"); fn != nil {
		list := "var(files)"
		bad := e.ifEdges(fn, "(call(http.validateNames)("+list+"[§].Name, nil) != nil)")
		r.Min("R14.1", "name checks in the validate route", len(bad), 1)
		for _, ed := range bad {
			// a bad name ends the request: no back edge, no gatekeeper call reachable
			res := e.Flow(fn, FlowOpts{StartEdge: ed.B, StartSucc: ed.Succ, Target: e.instrMatch("invoke(sts.GateKeeper.§)(§)")})
			cnt := 0
			for _, ws := range res.At {
				cnt += len(ws)
			}
			r.Check(cnt == 0, "R14.1", "http.(*Server).routeValidate: a bad name ends the request", e.Pos(fn.Pos()), "after a name failed validation the handler still reaches the gatekeeper", res.Evals)
			for _, in := range e.findInstrs(fn, "invoke(sts.GateKeeper.GetFileStatus)(§)", false) {
				hdr, _ := innermostLoop(ed.B.Instrs[len(ed.B.Instrs)-1])
				ok := hdr != nil && hdr.Dominates(in.Block()) && !reaches(in.Block(), hdr, nil)
				// the loop that validates runs to completion before: its header dominates the status loop, which lies after it
				r.Check(ok, "R14.1", "http.(*Server).routeValidate: the validation loop precedes the status loop", e.InstrPos(in), "GetFileStatus can be reached without passing the validation loop", 1)
				s := e.InstrStr(in)
				r.Check(strings.Contains(s, "call(http.(*confirmable).GetName)("+list+"["), "R14.1", "http.(*Server).routeValidate: the name polled is an element of the validated list", e.InstrPos(in),
					"the status is asked for a name that did not go through validation: "+shorten(s), 1)
			}
		}
		// conversion happens before validation (validate what is used)
		conv := e.findInstrs(fn, "store("+list+"[§].Name = call(filepath.Join)(§))", false)
		vn := e.findInstrs(fn, "call(http.validateNames)("+list+"[§].Name, nil)", false)
		okc := len(conv) == 1 && len(vn) == 1 && (conv[0].Block() != vn[0].Block() && reaches(conv[0].Block(), vn[0].Block(), nil) && !reaches(vn[0].Block(), conv[0].Block(), vn[0].Block().Parent().Blocks[0]) || precedes(conv[0], vn[0]))
		_ = okc
		if len(conv) == 1 && len(vn) == 1 {
			cls := labeler(I("store("+list+"[§].Name = call(filepath.Join)(§))", "converted"), C(`(call(http.(Header).Get)(p2.Header, "X-STS-Sep") == "")`, "noSep"))
			e.Guarded(r, "R14.1", "http.(*Server).routeValidate: names are validated after the separator conversion", fn, only(vn[0]), cls,
				func(l LabelSet) bool { return l.HasAny("converted", "noSep") }, "separator already applied (or none given)")
		}
	}
	if fn := needFn(e, r, "R14.1", "http.(*confirmable).GetName"); fn != nil {
		ok := false
		Instrs(fn, func(in ssa.Instruction) {
			if rt, ok2 := in.(*ssa.Return); ok2 && len(rt.Results) == 1 && e.Canon(rt.Results[0]) == "p0.Name" {
				ok = true
			}
		})
		r.Check(ok, "R14.1", "http.(*confirmable).GetName returns the validated field", e.Pos(fn.Pos()), "the name handed to the gatekeeper is not the validated field", 1)
	}

	// ---------------------------------------------------------------- R14.1e
	r.Rule("R14.1e", "nothing is rewritten between validation and use: the names the data route hands to the gatekeeper (Partial.Name, Renamed, Prev) are the direct results of the validated parts' getters - no split/join/replace after validateParts -, and the only place that rewrites names (separator conversion in the decoder and in the validate route) runs BEFORE the names are validated")
	if fn := needFn(e, r, "R14.1e", "http.(*Server).routeData"); fn != nil {
		part := "invoke(sts.PayloadDecoder.GetParts)(§)[phi((phi# + 1)|0)]"
		for fld, getter := range map[string]string{"Name": "GetName", "Renamed": "GetRenamed", "Prev": "GetPrev"} {
			vals := e.fieldStoreVals(fn, "sts.Partial", fld)
			r.Check(len(vals) == 1 && pat("invoke(sts.Binned."+getter+")("+part+")").MatchString(vals[0]), "R14.1e", "http.(*Server).routeData: Partial."+fld+" is the validated part's "+getter+"() unchanged", e.Pos(fn.Pos()),
				"a name is transformed after it was validated (validation of one spelling, use of another): "+strings.Join(vals, " | "), 1, vals...)
		}
		// no string surgery on request-derived names anywhere in the handler after validation
		var surgery []string
		for _, in := range e.findInstrs(fn, "call(«(filepath.Join|strings.Split|strings.Replace|strings.ReplaceAll|path.Join|filepath.Clean|url.PathUnescape|url.QueryUnescape)»)(§)", false) {
			surgery = append(surgery, shorten(e.InstrStr(in)))
		}
		r.Check(len(surgery) == 0, "R14.1e", "http.(*Server).routeData: no path surgery in the handler", e.Pos(fn.Pos()), "the data route rewrites path strings itself: "+strings.Join(surgery, "; "), 1, surgery...)
	}
	if fn := needFn(e, r, "R14.1e", "http.(*Server).routeDataRecovery"); fn != nil {
		var surgery []string
		for _, in := range e.findInstrs(fn, "call(«(filepath.Join|strings.Split|strings.Replace|strings.ReplaceAll|path.Join|filepath.Clean|url.PathUnescape|url.QueryUnescape)»)(§)", false) {
			surgery = append(surgery, shorten(e.InstrStr(in)))
		}
		r.Check(len(surgery) == 0, "R14.1e", "http.(*Server).routeDataRecovery: no path surgery in the handler", e.Pos(fn.Pos()), "the recovery route rewrites path strings itself: "+strings.Join(surgery, "; "), 1, surgery...)
	}
	// the decoder (which converts) is constructed before validateParts runs on its parts
	for _, name := range []string{"http.(*Server).routeData", "http.(*Server).routeDataRecovery"} {
		if fn := e.Fn(name); fn != nil {
			vp := e.findInstrs(fn, "call(http.validateParts)(invoke(sts.PayloadDecoder.GetParts)(dyn(p0.DecoderFactory)(§)#0))", false)
			r.Check(len(vp) == 1, "R14.1e", name+": what is validated is the decoder's (already converted) part list", e.Pos(fn.Pos()), "validateParts is not applied to the decoder's part list", 1)
		}
	}

	// ---------------------------------------------------------------- R14.1b
	r.Rule("R14.1b", "the validators are real: validateNames returns nil only if filepath.IsLocal holds for the required name and for every non-empty optional name; validateParts returns nil only after every part's name, rename target and predecessor went through validateNames")
	if fn := needFn(e, r, "R14.1b", "http.validateNames"); fn != nil {
		// the locality predicate: filepath.IsLocal itself, or a function of package http built on it
		P := "filepath.IsLocal"
		for _, in := range e.findInstrs(fn, "call(http.«[A-Za-z]+»)(p0)", false) {
			P = e.CalleeKey(in.(ssa.CallInstruction).Common())
		}
		rootRefused := false
		if P != "filepath.IsLocal" {
			if pf := e.Fn(P); pf != nil {
				cl := labeler(C("call(filepath.IsLocal)(p0)", "local"))
				okAll, n := true, 0
				for _, rw := range e.returnWorlds(r, "R14.1b", pf, cl) {
					v := e.Canon(rw.In.(*ssa.Return).Results[0])
					if v == "false" {
						continue
					}
					n++
					if !(rw.W.Has("local") && (v == `(call(filepath.Clean)(p0) != ".")` || v == `("." != call(filepath.Clean)(p0))`)) {
						okAll = false
					}
				}
				rootRefused = okAll && n > 0
			}
		}
		r.Check(rootRefused, "R14.1b", "http.validateNames: a name that resolves to the directory itself is refused", e.Pos(fn.Pos()),
			"the locality test is "+P+": names such as \".\", \"./\" or \"a/..\" pass filepath.IsLocal but name the source's directory itself - the partial and companion are then created NEXT TO that directory (<stage>/<source>.part) and the delivery targets the directory", 1, P)
		isP := "call(" + P + ")"
		cls := labeler(
			C(isP+"(p0)", "requiredLocal"),
			C("!"+isP+"(p1[§])", "optionalBad"),
			C(`(p1[§] == "")`, "optionalEmpty"),
			C(isP+"(p1[§])", "optionalLocal"),
			C("(builtin(len)(p1) <= §)", "allSeen"),
		)
		n := 0
		res := e.Flow(fn, FlowOpts{Classify: cls, Target: isReturn, Sticky: []string{"requiredLocal"}})
		for in, ws := range res.At {
			for _, w := range ws {
				rt := in.(*ssa.Return)
				if e.Canon(rt.Results[0]) == "nil" {
					n++
					r.Check(w.HasAll("requiredLocal", "allSeen"), "R14.1b", "http.validateNames: return nil "+w.String(), e.InstrPos(in), "names are accepted without the locality test on the required name or before all optional names were examined", 1, w.String())
				}
			}
		}
		r.Min("R14.1b", "accepting returns of validateNames", n, 1)
		// in the loop: continue only for empty or local names
		nb := 0
		for _, b := range fn.Blocks {
			for _, s := range b.Succs {
				if s.Dominates(b) && s != b {
					nb++
					conds := e.domConds(b)
					if t, ok := b.Instrs[len(b.Instrs)-1].(*ssa.If); ok {
						conds = append(conds, e.CondStr(t.Cond, b.Succs[0] == s))
					}
					r.Check(hasStr(conds, `(p1[§] == "")`) || hasStr(conds, isP+"(p1[§])"), "R14.1b", fmt.Sprintf("http.validateNames: the loop moves on only past an empty or local name (b%d)", b.Index), e.Pos(fn.Pos()),
						"an optional name that is neither empty nor local is skipped over", 1, conds...)
				}
			}
		}
		r.Min("R14.1b", "loop continuations in validateNames", nb, 1)
	}
	if fn := needFn(e, r, "R14.1b", "http.validateParts"); fn != nil {
		p := "p0[§]"
		got := e.findInstrs(fn, "call(http.validateNames)(invoke(sts.Binned.GetName)("+p+"), [invoke(sts.Binned.GetRenamed)("+p+"), invoke(sts.Binned.GetPrev)("+p+")])", false)
		r.Check(len(got) == 1, "R14.1b", "http.validateParts: validateNames(name, renamed, prev) of each part", e.Pos(fn.Pos()), "a part's name, rename target or predecessor is not validated", 1)
		nb := 0
		for _, b := range fn.Blocks {
			for _, s := range b.Succs {
				if s.Dominates(b) && s != b {
					nb++
					conds := e.domConds(b)
					if t, ok := b.Instrs[len(b.Instrs)-1].(*ssa.If); ok {
						conds = append(conds, e.CondStr(t.Cond, b.Succs[0] == s))
					}
					r.Check(hasStr(conds, "(call(http.validateNames)(§) == nil)"), "R14.1b", fmt.Sprintf("http.validateParts: next part only after this one was accepted (b%d)", b.Index), e.Pos(fn.Pos()),
						"the loop continues although a part failed validation", 1, conds...)
				}
			}
		}
		r.Min("R14.1b", "loop continuations in validateParts", nb, 1)
		for _, rw := range e.returnWorlds(r, "R14.1b", fn, labeler(C("(builtin(len)(p0) <= §)", "allSeen"))) {
			rt := rw.In.(*ssa.Return)
			if e.Canon(rt.Results[0]) == "nil" {
				r.Check(rw.W.Has("allSeen"), "R14.1b", "http.validateParts: nil only after the last part", e.InstrPos(rt), "validateParts accepts before all parts were examined", 1)
			}
		}
	}

	// ---------------------------------------------------------------- R14.1c
	r.Rule("R14.1c", "the source name becomes a single directory segment: getGateKeeper refuses \"\", \".\" and \"..\" before the factory is called; the receiver's factory replaces every path separator in the source name before joining it under the stage, final and log roots")
	if fn := needFn(e, r, "R14.1c", "http.(*Server).getGateKeeper"); fn != nil {
		src := "call(http.getSourceName)(p1)"
		cls := labeler(C("("+src+` != "")`, "notEmpty"), C("("+src+` != ".")`, "notDot"), C("("+src+` != "..")`, "notDotDot"))
		n := e.Guarded(r, "R14.1c", "http.(*Server).getGateKeeper: factory call", fn, e.instrMatch("dyn(p0.GateKeeperFactory)("+src+")"), cls,
			func(l LabelSet) bool { return l.HasAll("notEmpty", "notDot", "notDotDot") }, `source ∉ {"", ".", ".."}`)
		r.Min("R14.1c", "factory calls", n, 1)
		n = e.Guarded(r, "R14.1c", "http.(*Server).getGateKeeper: lookup", fn, e.instrMatch("p0.GateKeepers["+src+"]"), cls,
			func(l LabelSet) bool { return l.HasAll("notEmpty", "notDot", "notDotDot") }, `source ∉ {"", ".", ".."}`)
	}
	{
		var factory *ssa.Function
		for _, fn := range e.FuncsIn("main") {
			if len(e.findInstrs(fn, "call(stage.New)(§)", false)) > 0 {
				factory = fn
			}
		}
		if factory == nil {
			r.Unresolved("R14.1c", "the function of package main that calls stage.New")
		} else {
			in := e.findInstrs(factory, "call(stage.New)(§)", false)[0]
			args := in.(ssa.CallInstruction).Common().Args
			safe := "call(strings.ReplaceAll)(p0, "
			ok := true
			var facts []string
			for _, i := range []int{1, 2} {
				s := e.Canon(args[i])
				facts = append(facts, s)
				if !pat("call(filepath.Join)([§, " + safe + "§)])").MatchString(s) {
					ok = false
				}
			}
			lg := e.findInstrs(factory, "call(log.NewFileIO)(call(filepath.Join)([§, "+safe+"§)]), §)", false)
			r.Check(ok && len(lg) == 1, "R14.1c", e.ShortName(factory)+": stage, final and log directories are <root>/<source with separators replaced>", e.InstrPos(in),
				"the source name is joined under a root without replacing path separators: "+strings.Join(facts, " | "), 3, facts...)
			rep := e.findInstrs(factory, "call(strings.ReplaceAll)(p0, §, §)", false)
			okr := len(rep) >= 1
			for _, x := range rep {
				a := x.(ssa.CallInstruction).Common().Args
				if !strings.Contains(e.Canon(a[1]), "47") && !strings.Contains(e.Canon(a[1]), `"/"`) && !strings.Contains(e.Canon(a[1]), "conv(string)") {
					okr = false
				}
			}
			r.Check(okr, "R14.1c", e.ShortName(factory)+": what is replaced is the OS path separator", e.InstrPos(in), "the replacement does not target the path separator", len(rep))
		}
	}

	// ---------------------------------------------------------------- R14.1d
	r.Rule("R14.1d", "who joins onto the roots: every filepath.Join with Stage.rootDir or Stage.targetDir as first element is in the frozen table of (function, operand) pairs - operands that are request names validated by R14.1, values derived from them, names parsed from the receiver's own log, or paths found by walking the root")
	{
		allowed := map[string]string{
			"stage.(*Stage).Prepare|invoke(sts.Binned.GetName)(§)":       "validated part name",
			"stage.(*Stage).Receive|p1.Name":                             "validated part name (Partial built by the data route)",
			"stage.(*Stage).partReceived|invoke(sts.Binned.GetName)(p1)": "validated part name",
			"stage.(*Stage).GetFileStatus|p1":                            "validated poll name",
			"stage.(*Stage).partialToFinal|p1.Name":                      "validated name or companion read from the stage area",
			"stage.(*Stage).isFileReady|p1.prev":                         "validated predecessor",
			"stage.(*Stage).cleanWaiting|§.prev":                         "validated predecessor of a cached file",
			"stage.(*Stage).toCache|p1.prev":                             "validated predecessor",
			"stage.(*Stage).putFileAway|phi(§)":                          "validated name or rename target",
			"stage.(*Stage).buildCache|p0":                               "name parsed from the receiver's own log",
			"stage.(*Stage).cleanStrays|(§)":                             "path found by walking the stage root",
		}
		n := 0
		seen := map[string]bool{}
		for _, fn := range e.FuncsIn("stage") {
			for _, in := range e.findInstrs(fn, "call(filepath.Join)([«\\^?»p0.«(rootDir|targetDir)», §])", false) {
				n++
				s := e.InstrStr(in)
				top := e.ShortName(EnclosingTop(fn))
				i := strings.Index(s, "Dir, ")
				operand := strings.TrimSuffix(s[i+5:], "])")
				ok := false
				for k, why := range allowed {
					kv := strings.SplitN(k, "|", 2)
					if kv[0] == top && pat(kv[1]).MatchString(operand) {
						ok = true
						seen[k] = true
						r.Ok("R14.1d", top+": Join(root, "+shorten(operand)+")", e.InstrPos(in), 1, why)
						break
					}
				}
				if !ok {
					r.Bad("R14.1d", top+": Join(root, "+shorten(operand)+")", e.InstrPos(in), "a new path is built under the stage/final root from an operand that is not in the confirmed table: "+operand, 1)
				}
			}
		}
		r.Min("R14.1d", "joins onto the stage/final roots", n, 10)
	}

	// ---------------------------------------------------------------- R14.2 / R14.3
	r.Rule("R14.2", "static route: every file access goes through the os.Root opened on <serve root>/<source> - a directory that passed isSubpath(serveRoot, ·) with a source that passed sanitizePathSegment - with a name that passed sanitizeRelativePath; the handler calls no path-taking os function other than os.OpenRoot; the sanitizers accept only whitelisted segments and never `..`")
	if fn := needFn(e, r, "R14.2", "http.(*Server).routeFile"); fn != nil {
		src := "call(http.sanitizePathSegment)(call(http.getSourceName)(p2))"
		rel := "call(http.sanitizeRelativePath)(§)"
		cls := labeler(
			C("("+src+"#1 == nil)", "sourceSafe"),
			C("("+rel+"#1 == nil)", "nameSafe"),
			C("call(http.isSubpath)(call(fileutil.Clean)(p0.ServeDir)#0, §)", "insideServeRoot"),
			C("(call(os.OpenRoot)(§)#1 == nil)", "rootOpen"),
		)
		n := e.Guarded(r, "R14.2", "http.(*Server).routeFile: os.OpenRoot", fn, e.instrMatch("call(os.OpenRoot)(§)"), cls,
			func(l LabelSet) bool { return l.HasAll("sourceSafe", "nameSafe", "insideServeRoot") }, "source and name sanitised, directory inside the serve root")
		r.Min("R14.2", "os.OpenRoot calls", n, 1)
		var others []string
		for _, s := range e.SitesIn(fn) {
			key := e.CalleeKey(s.Instr.Common())
			if strings.HasPrefix(key, "os.") && key != "os.OpenRoot" && key != "os.IsNotExist" && !strings.HasPrefix(key, "os.(*Root).") && !strings.HasPrefix(key, "os.(*File).") {
				others = append(others, key)
			}
			if strings.HasPrefix(key, "ioutil.") || strings.HasPrefix(key, "fileutil.") && key != "fileutil.Clean" {
				others = append(others, key)
			}
		}
		for _, cf := range fn.AnonFuncs {
			for _, s := range e.SitesIn(cf) {
				if key := e.CalleeKey(s.Instr.Common()); strings.HasPrefix(key, "os.") {
					others = append(others, key)
				}
			}
		}
		r.Check(len(others) == 0, "R14.2", "http.(*Server).routeFile: no path-taking os/fileutil call besides os.OpenRoot", e.Pos(fn.Pos()), "the static route touches the file system outside the os.Root: "+strings.Join(others, ", "), 1)
		// root methods get the sanitised name
		nm := 0
		for _, in := range e.findInstrs(fn, "call(os.(*Root).«(Stat|Open|Remove|OpenFile|Create|Mkdir|Lstat)»)(§)", false) {
			nm++
			a := in.(ssa.CallInstruction).Common().Args
			s := e.Canon(a[1])
			r.Check(pat("call(http.rootRelativePath)("+rel+"#0)").MatchString(s) && e.Canon(a[0]) == "call(os.OpenRoot)(call(fileutil.Clean)(call(filepath.Join)([call(fileutil.Clean)(p0.ServeDir)#0, "+src+"#0]))#0)#0", "R14.2",
				fmt.Sprintf("http.(*Server).routeFile: %s(sanitised name) on the confined root", e.CalleeKey(in.(ssa.CallInstruction).Common())), e.InstrPos(in),
				"a root method is called with a name that did not pass sanitizeRelativePath, or on another root: "+s, 1)
		}
		r.Min("R14.2", "os.Root method calls", nm, 3)
		// positive control (R14.3): the request path does flow into the sanitiser
		pc := e.findInstrs(fn, "call(http.sanitizeRelativePath)(call(strings.TrimPrefix)(call(strings.TrimPrefix)(p2.URL.Path, §), §))", false)
		r.Check(len(pc) == 1, "R14.3", "positive control: r.URL.Path → sanitizeRelativePath → rootFS", e.Pos(fn.Pos()), "the query no longer finds the flow from the request path into the sanitiser (the rule would be vacuous)", 1)
	}
	r.Rule("R14.3", "positive control: the flow r.URL.Path → sanitizeRelativePath → os.Root method is found on every run")
	if fn := needFn(e, r, "R14.2", "http.sanitizePathSegment"); fn != nil {
		cls := labeler(C(`(p0 != "")`, "nonEmpty"), C("call(regexp.(*Regexp).MatchString)(global(http.safePathSegmentRe), p0)", "whitelisted"))
		for _, rw := range e.returnWorlds(r, "R14.2", fn, cls) {
			rt := rw.In.(*ssa.Return)
			if e.Canon(rt.Results[1]) == "nil" {
				r.Check(rw.W.HasAll("nonEmpty", "whitelisted"), "R14.2", "http.sanitizePathSegment: accepts only a non-empty whitelisted segment", e.InstrPos(rt), "a segment is accepted without matching the whitelist", 1, rw.W.String())
			}
		}
		// the whitelist itself has no separator and no way to spell `..`-escapes beyond dots (.. handled by the caller)
		var pattern string
		for _, fn2 := range e.FuncsIn("http") {
			if fn2.Name() == "init" {
				for _, in := range e.findInstrs(fn2, "store(global(http.safePathSegmentRe) = call(regexp.MustCompile)(§))", false) {
					pattern = e.InstrStr(in)
				}
			}
		}
		okp := strings.Contains(pattern, `"^[`) && strings.Contains(pattern, `]+$"`) && !strings.Contains(pattern[strings.Index(pattern, "^["):], "/") && !strings.Contains(pattern, `\\\\`)
		r.Check(okp, "R14.2", "http.safePathSegmentRe: anchored character whitelist without separators", "", "the segment whitelist is not an anchored character class free of path separators: "+pattern, 1, pattern)
	}
	if fn := needFn(e, r, "R14.2", "http.sanitizeRelativePath"); fn != nil {
		seg := e.findInstrs(fn, "call(http.sanitizePathSegment)(§)", false)
		r.Check(len(seg) == 1, "R14.2", "http.sanitizeRelativePath: every segment goes through sanitizePathSegment", e.Pos(fn.Pos()), "segments are no longer whitelisted", 1)
		dd := e.ifEdges(fn, `(§ == "..")`)
		okd := len(dd) >= 1
		for _, ed := range dd {
			res := e.Flow(fn, FlowOpts{StartEdge: ed.B, StartSucc: ed.Succ, Target: isReturn, StopAtTarget: true})
			for in := range res.At {
				if rt := in.(*ssa.Return); e.Canon(rt.Results[1]) == "nil" {
					okd = false
				}
			}
		}
		r.Check(okd, "R14.2", "http.sanitizeRelativePath: a `..` segment is refused", e.Pos(fn.Pos()), "a parent-directory segment does not lead to an error return", 1)
		// continue only for "", "." or a whitelisted segment
		nb := 0
		for _, b := range fn.Blocks {
			for _, s := range b.Succs {
				if s.Dominates(b) && s != b {
					nb++
					conds := e.domConds(b)
					if t, ok := b.Instrs[len(b.Instrs)-1].(*ssa.If); ok {
						conds = append(conds, e.CondStr(t.Cond, b.Succs[0] == s))
					}
					r.Check(hasStr(conds, `(§ == "")`) || hasStr(conds, `(§ == ".")`) || hasStr(conds, "(call(http.sanitizePathSegment)(§)#1 == nil)"), "R14.2",
						fmt.Sprintf("http.sanitizeRelativePath: the loop moves on only past an empty, `.` or whitelisted segment (b%d)", b.Index), e.Pos(fn.Pos()), "a segment is skipped without being checked", 1, conds...)
				}
			}
		}
		r.Min("R14.2", "loop continuations in sanitizeRelativePath", nb, 2)
	}
	// ---------------------------------------------------------------- R14.9
	r.Rule("R14.9", "a serve root must be written clean and absolute: fileutil.Clean compares filepath.Clean of the path AS GIVEN with its absolute form and refuses a difference - so an empty or relative root (no serve directory configured) is an error and not silently the process's working directory; cleaning the absolute form instead makes the comparison vacuous (Abs already cleans)")
	if fn := needFn(e, r, "R14.9", "fileutil.Clean"); fn != nil {
		edges := e.ifEdges(fn, "(call(filepath.Abs)(p0)#0 «(!=|==)» call(filepath.Clean)(p0))")
		edges = append(edges, e.ifEdges(fn, "(call(filepath.Clean)(p0) «(!=|==)» call(filepath.Abs)(p0)#0)")...)
		r.Check(len(edges) >= 2, "R14.9", "fileutil.Clean: Clean(path) is compared with Abs(path)", e.Pos(fn.Pos()),
			"the path as given is no longer compared with its absolute form: a relative or empty root passes", 1)
		cls := labeler(
			C("(call(filepath.Abs)(p0)#0 == call(filepath.Clean)(p0))", "same"),
			C("(call(filepath.Clean)(p0) == call(filepath.Abs)(p0)#0)", "same"),
		)
		n := 0
		for _, rw := range e.returnWorlds(r, "R14.9", fn, cls) {
			rt := rw.In.(*ssa.Return)
			if len(rt.Results) == 2 && e.Canon(rt.Results[1]) == "nil" {
				n++
				r.Check(rw.W.Has("same"), "R14.9", fmt.Sprintf("fileutil.Clean: success return b%d only for a clean absolute path", rw.In.Block().Index), e.InstrPos(rw.In),
					"Clean returns a path without an error although the given path was not found equal to its absolute form", 1, rw.W.String())
			}
		}
		r.Min("R14.9", "success returns of fileutil.Clean", n, 1)
	}
}

func rulesC15(e *Engine, r *Report) {
	// ---------------------------------------------------------------- R15.1
	r.Rule("R15.1", "every gatekeeper-reaching route is wrapped: each handler registered in Serve whose body (transitively inside package http) obtains a gatekeeper or reads ServeDir is registered as handleValidate(handler); the others are enumerated")
	if fn := needFn(e, r, "R15.1", "http.(*Server).Serve"); fn != nil {
		reachesGK := func(root *ssa.Function) (bool, string) {
			seen := map[*ssa.Function]bool{}
			var why string
			var walk func(f *ssa.Function) bool
			walk = func(f *ssa.Function) bool {
				if seen[f] {
					return false
				}
				seen[f] = true
				hit := false
				Instrs(f, func(in ssa.Instruction) {
					if fa, ok := in.(*ssa.FieldAddr); ok {
						if fv := fieldVar(fa.X, fa.Field); fv != nil && strings.HasSuffix(e.typeShort(fa.X.Type()), "http.Server") &&
							(fv.Name() == "ServeDir" || fv.Name() == "GateKeepers" || fv.Name() == "GateKeeperFactory") {
							hit = true
							why = "reads Server." + fv.Name() + " in " + e.ShortName(f)
						}
					}
				})
				if hit {
					return true
				}
				for _, s := range e.SitesIn(f) {
					cc := s.Instr.Common()
					if cc.IsInvoke() {
						if n, ok := cc.Value.Type().(*types.Named); ok && n.Obj().Name() == "GateKeeper" {
							why = "calls GateKeeper." + cc.Method.Name() + " in " + e.ShortName(f)
							return true
						}
						continue
					}
					if cal, ok := cc.Value.(*ssa.Function); ok && strings.HasPrefix(e.ShortName(cal), "http.") {
						if walk(cal) {
							return true
						}
					}
				}
				for _, a := range f.AnonFuncs {
					if walk(a) {
						return true
					}
				}
				return false
			}
			return walk(root), why
		}
		n, nw := 0, 0
		for _, in := range e.findInstrs(fn, "call(http.(*ServeMux).Handle)(§)", false) {
			n++
			s := e.InstrStr(in)
			// find the bound route method
			var route *ssa.Function
			i := strings.Index(s, "closure(http.(*Server).")
			if i >= 0 {
				name := s[i+len("closure("):]
				name = name[:strings.Index(name, "$bound")]
				route = e.Fn(name)
			}
			if route == nil {
				r.Bad("R15.1", "Serve: registration "+shorten(s), e.InstrPos(in), "cannot resolve the handler registered here", 1)
				continue
			}
			needs, why := reachesGK(route)
			wrapped := strings.Contains(s, "call(http.(*Server).handleValidate)(p0, closure("+e.ShortName(route)+"$bound))")
			if needs {
				nw++
			}
			r.Check(!needs || wrapped, "R15.1", "Serve: "+e.ShortName(route)+" registered behind handleValidate", e.InstrPos(in),
				"a route that reaches a gatekeeper / the serve directory is registered bare: unauthorised and premature requests are processed ("+why+")", 1, "needs wrapper: "+fmt.Sprint(needs)+" "+why, "wrapped: "+fmt.Sprint(wrapped))
		}
		r.Min("R15.1", "routes registered in Serve", n, 8)
		r.Min("R15.1", "routes that need the validating wrapper", nw, 5)
	}

	// ---------------------------------------------------------------- R15.2
	r.Rule("R15.2", "order inside the wrapper: the wrapped handler is called only on paths where a gatekeeper exists for the request's source, it reports Ready(), and IsValid(source, key) holds for the source and key taken from the same request; every refusal writes its status (400, 503, 403) and returns without calling the handler")
	if top := needFn(e, r, "R15.2", "http.(*Server).handleValidate"); top != nil && len(top.AnonFuncs) == 1 {
		fn := top.AnonFuncs[0]
		gk := "call(http.(*Server).getGateKeeper)(^p0, p1)"
		cls := labeler(
			C("("+gk+" != nil)", "haveGateKeeper"),
			C("invoke(sts.GateKeeper.Ready)("+gk+")", "ready"),
			C("dyn(^p0.IsValid)(call(http.getSourceName)(p1), call(http.getKey)(p1))", "authorised"),
			C("("+gk+" == nil)", "noGateKeeper"),
			C("!invoke(sts.GateKeeper.Ready)("+gk+")", "notReady"),
			C("!dyn(^p0.IsValid)(call(http.getSourceName)(p1), call(http.getKey)(p1))", "notAuthorised"),
			I("invoke(http.ResponseWriter.WriteHeader)(p0, 400)", "status400"),
			I("invoke(http.ResponseWriter.WriteHeader)(p0, 503)", "status503"),
			I("invoke(http.ResponseWriter.WriteHeader)(p0, 403)", "status403"),
			I("invoke(http.Handler.ServeHTTP)(^p1, p0, p1)", "served"),
		)
		n := e.Guarded(r, "R15.2", "http.(*Server).handleValidate: next.ServeHTTP", fn, e.instrMatch("invoke(http.Handler.ServeHTTP)(^p1, p0, p1)"), cls,
			func(l LabelSet) bool { return l.HasAll("haveGateKeeper", "ready", "authorised") }, "gatekeeper != nil, Ready(), IsValid(source, key)")
		r.Min("R15.2", "calls of the wrapped handler", n, 1)
		nr := 0
		for _, rw := range e.returnWorlds(r, "R15.2", fn, cls) {
			nr++
			w := rw.W
			ok := false
			switch {
			case w.Has("served"):
				ok = w.HasAll("haveGateKeeper", "ready", "authorised")
			case w.Has("noGateKeeper"):
				ok = w.Has("status400")
			case w.Has("notReady"):
				ok = w.Has("status503")
			case w.Has("notAuthorised"):
				ok = w.Has("status403")
			}
			r.Check(ok, "R15.2", fmt.Sprintf("http.(*Server).handleValidate: exit b%d %s", rw.In.Block().Index, w.String()), e.InstrPos(rw.In),
				"an exit of the wrapper neither serves an authorised, ready request nor refuses with the matching status", 1, w.String())
		}
		r.Min("R15.2", "exits of the wrapper", nr, 4)
	} else if top != nil {
		r.Bad("R15.2", "http.(*Server).handleValidate: one closure", e.Pos(top.Pos()), "the wrapper no longer consists of a single handler closure", 1)
	}
	for _, g := range []struct{ fn, hdr, q string }{
		{"http.getSourceName", "HeaderSourceName", "source"},
		{"http.getKey", "HeaderKey", "key"},
	} {
		if fn := needFn(e, r, "R15.2", g.fn); fn != nil {
			h := e.findInstrs(fn, "call(http.(Header).Get)(p0.Header, "+e.constOr("http", g.hdr)+")", false)
			r.Check(len(h) >= 1, "R15.2", g.fn+": reads "+g.hdr+" of the request", e.Pos(fn.Pos()), "the "+g.q+" is no longer taken from the request's "+g.hdr+" header", 1)
		}
	}

	// ---------------------------------------------------------------- R15.3
	r.Rule("R15.3", "validator predicate: standardValidator says yes only if (no sources configured, or the source matches the name pattern and is listed exactly) and (no keys configured, or the key is listed exactly); the list test is exact string equality")
	if fn := needFn(e, r, "R15.3", "main.(*serverApp).standardValidator"); fn != nil {
		cls := labeler(
			C("(builtin(len)(p0.conf.Sources) <= 0)", "noSources"),
			C("call(regexp.MatchString)(§, p1)#0", "patternOK"),
			C("(call(regexp.MatchString)(§, p1)#1 == nil)", "patternNoErr"),
			C("(0 <= call(main.strToIndex)(p1, p0.conf.Sources))", "sourceListed"),
			C("(builtin(len)(p0.conf.Keys) <= 0)", "noKeys"),
			C("(0 <= call(main.strToIndex)(p2, p0.conf.Keys))", "keyListed"),
		)
		nT := 0
		for _, rw := range e.returnWorlds(r, "R15.3", fn, cls) {
			if !rw.W.Has("ret0=true") {
				continue
			}
			nT++
			ok := (rw.W.Has("noSources") || rw.W.HasAll("patternOK", "patternNoErr", "sourceListed")) && (rw.W.Has("noKeys") || rw.W.Has("keyListed"))
			r.Check(ok, "R15.3", "main.(*serverApp).standardValidator: return true "+rw.W.String(), e.InstrPos(rw.In),
				"a request is authorised although its source is not (pattern-clean and) listed or its key is not listed", 1, rw.W.String())
		}
		r.Min("R15.3", "return-true path classes", nT, 2)
	}
	if fn := needFn(e, r, "R15.3", "main.strToIndex"); fn != nil {
		eq := e.ifEdges(fn, "(p0 == p1[§])")
		eq = append(eq, e.ifEdges(fn, "(p1[§] == p0)")...)
		r.Check(len(eq) >= 1, "R15.3", "main.strToIndex: exact string equality", e.Pos(fn.Pos()), "list membership is no longer decided by exact equality", 1)
		for _, rw := range e.returnWorlds(r, "R15.3", fn, labeler(C("(p0 == p1[§])", "equal"), C("(p1[§] == p0)", "equal"))) {
			rt := rw.In.(*ssa.Return)
			if v := e.Canon(rt.Results[0]); v != "-1" {
				r.Check(rw.W.Has("equal"), "R15.3", "main.strToIndex: an index is returned only for an equal element", e.InstrPos(rt), "a non-negative index is returned without a match: "+v, 1)
			}
		}
	}
	{
		var initFn *ssa.Function
		for _, fn := range e.FuncsIn("main") {
			if v := e.fieldStoreVals(fn, "http.Server", "IsValid"); len(v) >= 1 {
				initFn = fn
				okv := false
				for _, x := range v {
					if x == "closure(main.(*serverApp).standardValidator$bound)" {
						okv = true
					} else if x != "closure(control.(*Postgres).IsValid$bound)" {
						okv = false
						break
					}
				}
				r.Check(okv, "R15.3", e.ShortName(fn)+": Server.IsValid ← standardValidator (or the control database's validator when one is configured)", e.Pos(fn.Pos()),
					"the server is built with another request validator: "+strings.Join(v, " | "), len(v), v...)
			}
		}
		if initFn == nil {
			r.Bad("R15.3", "main: Server.IsValid is set", "", "no function of main installs the request validator", 1)
		}
	}

	// ---------------------------------------------------------------- R15.4
	r.Rule("R15.4", "readiness: Recover keeps readiness cleared across all of its steps and restores it only by the deferred call after its workers finished (as R06.6); Stop clears it for good")
	e.checkRecoverReadiness(r, "R15.4")
	if fn := needFn(e, r, "R15.4", "stage.(*Stage).Stop"); fn != nil {
		d := e.findInstrs(fn, "defer call(stage.(*Stage).setCanReceive)(p0, false)", false)
		r.Check(len(d) == 1 && d[0].Block().Index == 0, "R15.4", "stage.(*Stage).Stop: readiness cleared on every exit", e.Pos(fn.Pos()), "Stop no longer clears readiness by defer at entry", 1)
	}
	// ---------------------------------------------------------------- R15.5
	r.Rule("R15.5", "one gatekeeper per source name: every entry written into a map[string]sts.GateKeeper - the table handleValidate and getGateKeeper look requests up in - is the result of the gatekeeper factory applied to the very string used as the key; the start-up loop that pre-populates it from the stage root converts the directory name back with the inverse of the factory's separator replacement and starts Recover on the gatekeeper it stored")
	{
		n := 0
		for _, fn := range e.Funcs {
			Instrs(fn, func(in ssa.Instruction) {
				mu, ok := in.(*ssa.MapUpdate)
				if !ok {
					return
				}
				mt, ok := mu.Map.Type().Underlying().(*types.Map)
				if !ok || e.typeShort(mt.Elem()) != "sts.GateKeeper" {
					return
				}
				n++
				key := e.Canon(mu.Key)
				val := e.Canon(mu.Value)
				okv := false
				if c, isCall := mu.Value.(*ssa.Call); isCall && len(c.Call.Args) == 1 && !c.Call.IsInvoke() {
					if sig, _ := c.Call.Value.Type().Underlying().(*types.Signature); sig != nil && sig.Params().Len() == 1 && sig.Results().Len() == 1 && e.typeShort(sig.Results().At(0).Type()) == "sts.GateKeeper" {
						okv = e.Canon(c.Call.Args[0]) == key
					}
				}
				r.Check(okv, "R15.5", e.ShortName(EnclosingTop(fn))+": the gatekeeper stored under a key was built for that key", e.InstrPos(in),
					"a gatekeeper is filed under a name other than the source it was created for (requests for that source will not find it and a second gatekeeper is created on the same directories while the first is still recovering): key "+shorten(key)+" value "+shorten(val), 1, key, val)
			})
		}
		r.Min("R15.5", "writes into gatekeeper tables", n, 2)
		if fn := needFn(e, r, "R15.5", "main.(*serverApp).init"); fn != nil {
			mus := e.findInstrs(fn, "mapupdate(make(map[string]sts.GateKeeper)[§] = §)", false)
			r.Min("R15.5", "start-up writes into the gatekeeper table", len(mus), 1)
			for _, in := range mus {
				mu := in.(*ssa.MapUpdate)
				key := e.Canon(mu.Key)
				m := pat("call(strings.ReplaceAll)(invoke(os.DirEntry.Name)(§), «(.+)», «(.+)»)").FindStringSubmatch(key)
				inverse := false
				var fact string
				if m != nil {
					if c, isCall := mu.Value.(*ssa.Call); isCall {
						if callee := c.Call.StaticCallee(); callee != nil {
							rep := e.findInstrs(callee, "call(strings.ReplaceAll)(p0, §, §)", false)
							for _, x := range rep {
								a := x.(ssa.CallInstruction).Common().Args
								from, to := strings.TrimPrefix(e.Canon(a[1]), "^"), strings.TrimPrefix(e.Canon(a[2]), "^")
								fact = from + "→" + to
								if from == m[2] && to == m[1] {
									inverse = true
								}
							}
						}
					}
				}
				r.Check(inverse, "R15.5", "main.(*serverApp).init: directory name → source name is the inverse of the factory's source → directory replacement", e.InstrPos(in),
					"the start-up loop does not map a stage directory back to the source name the factory would map onto it (key "+shorten(key)+", factory replaces "+fact+")", 1, key, fact)
				rec := e.findInstrs(fn, "go invoke(sts.GateKeeper.Recover)("+e.Canon(mu.Value)+")", false)
				r.Check(len(rec) == 1, "R15.5", "main.(*serverApp).init: Recover is started on the gatekeeper that was stored", e.InstrPos(in),
					"the gatekeeper put into the table at start-up is not the one whose recovery is started", 1)
			}
		}
	}
	// ---------------------------------------------------------------- R15.6
	r.Rule("R15.6", "a refused request leaves nothing behind: the wrapper obtains the source's gatekeeper BEFORE it asks the validator, so building a gatekeeper (the factory: stage.New + the receive logger's constructor, and every goroutine they start, up to its first wait for a message) must perform no file-system mutation - directories and log files come into being only when a part or a record is written; timer callbacks armed by the constructor are listed, not followed")
	{
		var factory *ssa.Function
		if fn := needFn(e, r, "R15.6", "main.(*serverApp).init"); fn != nil {
			Instrs(fn, func(in ssa.Instruction) {
				st, ok := in.(*ssa.Store)
				if !ok {
					return
				}
				fa, ok := st.Addr.(*ssa.FieldAddr)
				if !ok {
					return
				}
				if f := fieldVar(fa.X, fa.Field); f != nil && f.Name() == "GateKeeperFactory" {
					v := st.Val
					for {
						if ct, ok := v.(*ssa.ChangeType); ok {
							v = ct.X
							continue
						}
						break
					}
					if mc, ok := v.(*ssa.MakeClosure); ok {
						factory, _ = mc.Fn.(*ssa.Function)
					} else if f, ok := v.(*ssa.Function); ok {
						factory = f
					}
				}
			})
		}
		if factory == nil {
			r.Unresolved("R15.6", "the function stored in http.Server.GateKeeperFactory")
		} else {
			x := e.newEffects()
			eff := x.constructionEffects(factory)
			desc := x.describe(eff)
			r.Check(len(eff) == 0, "R15.6", e.ShortName(factory)+": building a gatekeeper mutates nothing on disk", e.Pos(factory.Pos()),
				"the gatekeeper factory (run for ANY named source before the request is authorised) reaches a file-system mutation: "+strings.Join(desc, "; "), 1+len(x.memo), append(desc, x.later...)...)
			r.Min("R15.6", "goroutines/timers started while building a gatekeeper (followed up to their first receive)", len(x.later), 3)
			// positive control: the same analysis does see the mutations of the data path
			if rc := needFn(e, r, "R15.6", "stage.(*Stage).Receive"); rc != nil {
				r.Check(len(x.sync(rc)) >= 3, "R15.6", "positive control: Receive reaches file-system mutations", e.Pos(rc.Pos()), "the effect analysis no longer sees the writes of the data path (it would be vacuous)", len(x.sync(rc)))
			}
			if lg := needFn(e, r, "R15.6", "log.(*rollingFile).log"); lg != nil {
				r.Check(len(x.sync(lg)) >= 2, "R15.6", "positive control: writing a log record reaches mkdir/open through the function-typed fields", e.Pos(lg.Pos()), "the effect analysis no longer sees the logger's mkdir/open", len(x.sync(lg)))
			}
		}
		// the order that makes this matter
		if fn := needFn(e, r, "R15.6", "http.(*Server).handleValidate"); fn != nil {
			_ = fn
		}
	}
	// ---------------------------------------------------------------- R15.7
	r.Rule("R15.7", "one gatekeeper per source also under concurrency: in getGateKeeper the factory call and the filing of its result happen with the table's write lock held, after a look-up under that same hold found no entry - two first requests of a source must not each build a stage over the same directories (the second would work with its own per-file locks, cache and readiness while the first recovers or receives)")
	e.checkGateKeeperOnce(r, "R15.7")
	_ = sort.Strings
	// ---------------------------------------------------------------- R15.8
	e.shareRule(r, "C14", "R14.1c", "R15.8", "a request that names no source is refused before anything exists for it: getGateKeeper answers nil (→ 400) for an empty source name - with the receiver's wiring an empty name would otherwise get a gatekeeper rooted at the directories ALL sources share")
	// ---------------------------------------------------------------- R15.9
	r.Rule("R15.9", "a receiver's allow lists are read under the same key in both notations: every field of sts.ServerConf that has a yaml and a json tag carries the same key in both - a key list that the JSON notation silently ignores (`keys` vs `key`) leaves the receiver without a key check")
	if t := e.Type("sts", "ServerConf"); t != nil {
		if st, ok := t.Underlying().(*types.Struct); ok {
			n := 0
			for i := 0; i < st.NumFields(); i++ {
				tag := reflect.StructTag(st.Tag(i))
				y, j := strings.Split(tag.Get("yaml"), ",")[0], strings.Split(tag.Get("json"), ",")[0]
				if y == "" || j == "" || y == "-" || j == "-" {
					continue
				}
				n++
				r.Check(y == j, "R15.9", "sts.ServerConf."+st.Field(i).Name()+": yaml and json keys agree", e.Pos(st.Field(i).Pos()),
					"the option is `"+y+"` in YAML and `"+j+"` in JSON: a configuration written in one notation is silently not read in the other", 1, y)
			}
			r.Min("R15.9", "doubly tagged fields of ServerConf", n, 5)
		}
	} else {
		r.Unresolved("R15.9", "sts.ServerConf")
	}
}

// checkGateKeeperOnce: creating the gatekeeper of a source is check-then-act
// on the table and must be atomic - the factory runs and its result is filed
// while the table's write lock is held, after a look-up made under that same
// hold found nothing (F17).  Shared by R15.7 and R09.8.
func (e *Engine) checkGateKeeperOnce(r *Report, rule string) {
	fn := needFn(e, r, rule, "http.(*Server).getGateKeeper")
	if fn == nil {
		return
	}
	src := "call(http.getSourceName)(p1)"
	fac := e.findInstrs(fn, "dyn(p0.GateKeeperFactory)("+src+")", false)
	r.Min(rule, "factory calls in getGateKeeper", len(fac), 1)
	cls := labeler(
		I("call(sync.(*RWMutex).Lock)(&p0.lock)", "w"),
		IK("call(sync.(*RWMutex).Unlock)(&p0.lock)", "w"),
	)
	target := func(in ssa.Instruction) bool {
		if _, ok := in.(*ssa.MapUpdate); ok {
			return true
		}
		for _, f := range fac {
			if f == in {
				return true
			}
		}
		return false
	}
	e.Guarded(r, rule, "http.(*Server).getGateKeeper: gatekeeper built and filed under the table's write lock", fn, target, cls,
		func(l LabelSet) bool { return l.Has("w") }, "write lock held")
	locks := e.findInstrs(fn, "call(sync.(*RWMutex).Lock)(&p0.lock)", false)
	r.Check(len(locks) == 1, rule, "http.(*Server).getGateKeeper: one write-lock acquisition", e.Pos(fn.Pos()), fmt.Sprintf("%d acquisitions of the write lock", len(locks)), 1)
	if len(locks) == 1 {
		cls2 := labeler(C("!p0.GateKeepers["+src+"]#1", "absent"))
		for _, f := range fac {
			n := e.GuardedFrom(r, rule, "http.(*Server).getGateKeeper: the table is looked up again under the write lock before a gatekeeper is built", fn,
				FlowOpts{Classify: cls2, Target: only(f), StartAfter: locks[0]},
				func(l LabelSet) bool { return l.Has("absent") }, "table has no entry (asked after Lock)")
			if n == 0 {
				r.Bad(rule, "http.(*Server).getGateKeeper: the table is looked up again under the write lock before a gatekeeper is built", e.InstrPos(f),
					"the gatekeeper is built before the write lock is taken: two first requests of one source each build their own", 1)
			}
		}
	}
}
