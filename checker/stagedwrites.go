package main

import (
	"fmt"
	"regexp"
	"strings"

	"golang.org/x/tools/go/ssa"
)

var (
	stagedWriteCallee = regexp.MustCompile(`^(io\.Copy|io\.CopyN|io\.CopyBuffer|os\.\(\*File\)\.(Write|WriteAt|WriteString|Truncate|ReadFrom))$`)
	stagedHandleRe    = regexp.MustCompile(`^call\(os\.(?:OpenFile|Create)\)\(\((.+) \+ "\.part"\)(?:, .*)?\)#0$`)
)

// checkStagedWritesUnderLock: every write into a staged partial (a handle
// opened on `<path>.part`) is made while the lock of <path> is held - in the
// function itself or, when <path> is a parameter, at every call site. The
// completion of a file (rename to .full, validation, delivery by rename)
// runs under the exclusive lock: a write outside the lock goes on through its
// handle after the file was validated and delivered.
func (e *Engine) checkStagedWritesUnderLock(r *Report, rule string) {
	lockCls := func(base string) Classifier {
		l := "call(stage.(*Stage).getPathLock)(«[^,]+», " + base + ")"
		return labeler(
			I("call(sync.(*RWMutex).«R?Lock»)("+l+")", "held"),
			IK("call(sync.(*RWMutex).«R?Unlock»)("+l+")", "held"),
		)
	}
	n := 0
	for _, fn := range e.FuncsIn("stage") {
		for _, s := range e.SitesIn(fn) {
			if s.Kind != "call" {
				continue
			}
			cc := s.Instr.Common()
			if cc.IsInvoke() || !stagedWriteCallee.MatchString(e.CalleeKey(cc)) || len(cc.Args) == 0 {
				continue
			}
			m := stagedHandleRe.FindStringSubmatch(e.Canon(cc.Args[0]))
			if m == nil {
				continue
			}
			n++
			base := m[1]
			construct := fmt.Sprintf("%s: %s into <%s>.part under the lock of that path", e.ShortName(fn), e.CalleeKey(cc), shorten(base))
			res := e.Flow(fn, FlowOpts{Classify: lockCls(base), Target: only(s.Instr.(ssa.Instruction))})
			held := !res.Undecided && len(res.At) > 0
			for _, ws := range res.At {
				for _, w := range ws {
					if !w.Has("held") {
						held = false
					}
				}
			}
			if held {
				r.Ok(rule, construct, e.InstrPos(s.Instr), res.Evals, "lock taken in the function itself")
				continue
			}
			// the path is a parameter: the callers hold the lock
			idx := -1
			for i, p := range fn.Params {
				if e.Canon(p) == base {
					idx = i
				}
			}
			if idx >= 0 {
				okAll, nSites := true, 0
				var facts []string
				for _, cs := range e.AllSites() {
					c2 := cs.Instr.Common()
					if c2.IsInvoke() || e.CalleeKey(c2) != e.ShortName(fn) || idx >= len(c2.Args) {
						continue
					}
					nSites++
					if cs.Kind != "call" {
						okAll = false
						facts = append(facts, e.InstrPos(cs.Instr)+": started with `"+cs.Kind+"`")
						continue
					}
					arg := e.Canon(c2.Args[idx])
					rs := e.Flow(cs.Fn, FlowOpts{Classify: lockCls(arg), Target: only(cs.Instr.(ssa.Instruction))})
					h := !rs.Undecided && len(rs.At) > 0
					for _, ws := range rs.At {
						for _, w := range ws {
							if !w.Has("held") {
								h = false
							}
						}
					}
					if !h {
						okAll = false
					}
					facts = append(facts, fmt.Sprintf("%s calls it with the lock of %s held: %v", e.ShortName(cs.Fn), shorten(arg), h))
				}
				if nSites > 0 && okAll {
					r.Ok(rule, construct, e.InstrPos(s.Instr), nSites, facts...)
					continue
				}
				r.Bad(rule, construct, e.InstrPos(s.Instr), "the write is made without the path's lock, and not every caller holds it: "+strings.Join(facts, "; "), nSites, facts...)
				continue
			}
			r.Bad(rule, construct, e.InstrPos(s.Instr),
				"the bytes are copied into the partial before the file's lock is taken, through a handle that follows the inode: a transmission that is overtaken by its own retransmission goes on writing after the file was completed, validated and moved (renamed) to the final directory", res.Evals)
		}
	}
	r.Min(rule, "writes into staged partials in package stage", n, 2)
}
