package main

import (
	"fmt"
	"go/constant"
	"go/token"
	"go/types"
	"hash/fnv"
	"sort"
	"strings"

	"golang.org/x/tools/go/ssa"
)

// Canon renders an SSA value as a canonical symbolic expression that does not
// depend on local variable names, statement order or temporaries:
//
//	parameters        p0, p1 ...            (receiver is p0)
//	captured values   ^<expr in the enclosing function>
//	field reads       X.field
//	calls             call(pkg.Func)(args)   invoke(pkg.Iface.Method)(recv,args)   dyn(fv)(args)
//	tuple element     E#i
//	constants         "s", 42, true, nil
//	operators         (X + Y), (X == Y), !X
//
// Loads of address-taken locals are replaced by the unique reaching store
// when there is one.
func (e *Engine) Canon(v ssa.Value) string {
	c := &canoner{e: e, seen: map[ssa.Value]bool{}}
	return c.val(v, 60)
}

type canoner struct {
	e    *Engine
	seen map[ssa.Value]bool
}

func (e *Engine) typeShort(t types.Type) string {
	return types.TypeString(t, func(p *types.Package) string {
		if p.Path() == modPath {
			return "sts"
		}
		if strings.HasPrefix(p.Path(), modPath+"/") {
			return strings.TrimPrefix(p.Path(), modPath+"/")
		}
		return p.Name()
	})
}

func (c *canoner) calleeName(cc *ssa.CallCommon, d int) string {
	if cc.IsInvoke() {
		recvT := cc.Value.Type()
		return "invoke(" + c.e.typeShort(recvT) + "." + cc.Method.Name() + ")"
	}
	switch f := cc.Value.(type) {
	case *ssa.Function:
		return "call(" + c.e.ShortName(f) + ")"
	case *ssa.Builtin:
		return "builtin(" + f.Name() + ")"
	case *ssa.MakeClosure:
		if fn, ok := f.Fn.(*ssa.Function); ok {
			return "call(" + c.e.ShortName(fn) + ")"
		}
	}
	return "dyn(" + c.val(cc.Value, d-1) + ")"
}

func (c *canoner) call(cc *ssa.CallCommon, d int) string {
	var args []string
	if cc.IsInvoke() {
		args = append(args, c.val(cc.Value, d-1))
	}
	for _, a := range cc.Args {
		args = append(args, c.val(a, d-1))
	}
	return c.calleeName(cc, d) + "(" + strings.Join(args, ", ") + ")"
}

func constStr(k *ssa.Const) string {
	if k.Value == nil {
		if b, ok := k.Type().Underlying().(*types.Basic); ok {
			switch {
			case b.Info()&types.IsString != 0:
				return `""`
			case b.Info()&types.IsNumeric != 0:
				return "0"
			case b.Info()&types.IsBoolean != 0:
				return "false"
			}
		}
		if _, ok := k.Type().Underlying().(*types.Struct); ok {
			return "zero(" + k.Type().String() + ")"
		}
		return "nil"
	}
	switch k.Value.Kind() {
	case constant.String:
		return fmt.Sprintf("%q", constant.StringVal(k.Value))
	case constant.Bool:
		if constant.BoolVal(k.Value) {
			return "true"
		}
		return "false"
	}
	return k.Value.ExactString()
}

// val is context independent: the rendering of a value does not depend on
// where it is referenced from (memoised unless a phi cycle is being expanded);
// very long renderings are abbreviated to a prefix plus a content hash.
func (c *canoner) val(v ssa.Value, d int) string {
	if v == nil {
		return "<nil>"
	}
	if len(c.seen) == 0 {
		if s, ok := c.e.canonMemo[v]; ok {
			return s
		}
	}
	s := c.val0(v, d)
	if len(s) > 700 {
		h := fnv.New32a()
		h.Write([]byte(s))
		s = s[:120] + fmt.Sprintf("…⟦%08x⟧", h.Sum32())
	}
	if len(c.seen) == 0 {
		c.e.canonMemo[v] = s
	}
	return s
}

func (c *canoner) val0(v ssa.Value, d int) string {
	if d <= 0 {
		return "…"
	}
	switch x := v.(type) {
	case *ssa.Const:
		return constStr(x)
	case *ssa.Parameter:
		fn := x.Parent()
		for i, p := range fn.Params {
			if p == x {
				return fmt.Sprintf("p%d", i)
			}
		}
		return "p?"
	case *ssa.FreeVar:
		fn := x.Parent()
		mc := c.e.parents[fn]
		if mc != nil {
			for i, fv := range fn.FreeVars {
				if fv == x && i < len(mc.Bindings) {
					b := mc.Bindings[i]
					if a, ok := b.(*ssa.Alloc); ok {
						// captured by reference: the variable itself
						return "^&" + allocName(a)
					}
					return "^" + c.val(b, d-1)
				}
			}
		}
		return "^fv(" + x.Name() + ")"
	case *ssa.Global:
		return "&global(" + x.Pkg.Pkg.Name() + "." + x.Name() + ")"
	case *ssa.Function:
		return "func(" + c.e.ShortName(x) + ")"
	case *ssa.Builtin:
		return "builtin(" + x.Name() + ")"
	case *ssa.Alloc:
		return "&" + allocName(x)
	case *ssa.FieldAddr:
		return "&" + c.fieldOf(x.X, x.Field, d)
	case *ssa.Field:
		st := x.X.Type().Underlying().(*types.Struct)
		return c.val(x.X, d-1) + "." + st.Field(x.Field).Name()
	case *ssa.IndexAddr:
		return "&" + c.val(x.X, d-1) + "[" + c.val(x.Index, d-1) + "]"
	case *ssa.Index:
		return c.val(x.X, d-1) + "[" + c.val(x.Index, d-1) + "]"
	case *ssa.Lookup:
		return c.val(x.X, d-1) + "[" + c.val(x.Index, d-1) + "]"
	case *ssa.UnOp:
		switch x.Op {
		case token.MUL:
			return c.load(x, d)
		case token.NOT:
			return "!" + c.val(x.X, d-1)
		case token.SUB:
			return "-" + c.val(x.X, d-1)
		case token.ARROW:
			return "recv(" + c.val(x.X, d-1) + ")"
		case token.XOR:
			return "^" + c.val(x.X, d-1)
		}
	case *ssa.BinOp:
		return "(" + c.val(x.X, d-1) + " " + x.Op.String() + " " + c.val(x.Y, d-1) + ")"
	case *ssa.Call:
		return c.call(&x.Call, d)
	case *ssa.Extract:
		return c.val(x.Tuple, d) + fmt.Sprintf("#%d", x.Index)
	case *ssa.Phi:
		if c.seen[x] {
			return "phi#"
		}
		c.seen[x] = true
		defer delete(c.seen, x)
		set := map[string]bool{}
		for _, ed := range x.Edges {
			set[c.val(ed, d-1)] = true
		}
		var parts []string
		for s := range set {
			parts = append(parts, s)
		}
		sort.Strings(parts)
		if len(parts) == 1 {
			return parts[0]
		}
		return "phi(" + strings.Join(parts, "|") + ")"
	case *ssa.MakeInterface:
		return c.val(x.X, d)
	case *ssa.ChangeType:
		return c.val(x.X, d)
	case *ssa.ChangeInterface:
		return c.val(x.X, d)
	case *ssa.Convert:
		from, to := x.X.Type().Underlying(), x.Type().Underlying()
		fb, ok1 := from.(*types.Basic)
		tb, ok2 := to.(*types.Basic)
		if ok1 && ok2 && fb.Info()&types.IsNumeric != 0 && tb.Info()&types.IsNumeric != 0 {
			if fb.Info()&types.IsFloat != tb.Info()&types.IsFloat {
				return "conv(" + tb.Name() + ")(" + c.val(x.X, d-1) + ")"
			}
			return c.val(x.X, d)
		}
		return "conv(" + c.e.typeShort(x.Type()) + ")(" + c.val(x.X, d-1) + ")"
	case *ssa.SliceToArrayPointer:
		return c.val(x.X, d)
	case *ssa.TypeAssert:
		return "assert(" + c.e.typeShort(x.AssertedType) + ")(" + c.val(x.X, d-1) + ")"
	case *ssa.Slice:
		if al, ok := x.X.(*ssa.Alloc); ok && x.Low == nil && x.High == nil {
			if els, ok := c.arrayLit(al, d); ok {
				return "[" + strings.Join(els, ", ") + "]"
			}
		}
		lo, hi := "", ""
		if x.Low != nil {
			lo = c.val(x.Low, d-1)
		}
		if x.High != nil {
			hi = c.val(x.High, d-1)
		}
		return c.val(x.X, d-1) + "[" + lo + ":" + hi + "]"
	case *ssa.MakeClosure:
		if fn, ok := x.Fn.(*ssa.Function); ok {
			return "closure(" + c.e.ShortName(fn) + ")"
		}
	case *ssa.MakeSlice:
		return "make(" + c.e.typeShort(x.Type()) + ")"
	case *ssa.MakeMap:
		return "make(" + c.e.typeShort(x.Type()) + ")"
	case *ssa.MakeChan:
		return "make(" + c.e.typeShort(x.Type()) + ")"
	case *ssa.Range:
		return "range(" + c.val(x.X, d-1) + ")"
	case *ssa.Next:
		return "next(" + c.val(x.Iter, d-1) + ")"
	case *ssa.Select:
		return "select"
	}
	return fmt.Sprintf("?%T", v)
}

func allocName(a *ssa.Alloc) string {
	n := a.Comment
	if n == "" {
		n = "tmp"
	}
	if n == "complit" || n == "new" || n == "slicelit" || n == "makeslice" || n == "varargs" {
		t := a.Type().(*types.Pointer).Elem()
		return "new(" + types.TypeString(t, func(p *types.Package) string { return p.Name() }) + ")"
	}
	return "var(" + n + ")"
}

func (c *canoner) fieldOf(x ssa.Value, idx int, d int) string {
	pt := x.Type().Underlying().(*types.Pointer)
	st := pt.Elem().Underlying().(*types.Struct)
	base := c.val(x, d-1)
	return base + "." + st.Field(idx).Name()
}

// load renders *addr.
func (c *canoner) load(u *ssa.UnOp, d int) string {
	switch a := u.X.(type) {
	case *ssa.FieldAddr:
		return c.fieldOf(a.X, a.Field, d)
	case *ssa.IndexAddr:
		return c.val(a.X, d-1) + "[" + c.val(a.Index, d-1) + "]"
	case *ssa.Global:
		return "global(" + a.Pkg.Pkg.Name() + "." + a.Name() + ")"
	case *ssa.Alloc:
		vals, exact := c.e.ReachingStores(a, u)
		if !exact {
			// a variable shared with closures: a store earlier in the same
			// block with no call in between is still the value read
			if b := u.Block(); b != nil {
				for i := indexIn(b, u) - 1; i >= 0; i-- {
					if st, ok := b.Instrs[i].(*ssa.Store); ok && st.Addr == a {
						return c.val(st.Val, d)
					}
					if _, ok := b.Instrs[i].(ssa.CallInstruction); ok {
						break
					}
				}
			}
		}
		if exact && len(vals) == 1 {
			if vals[0] == nil {
				return "zero(" + allocName(a) + ")"
			}
			if c.seen[u] {
				return "load#"
			}
			c.seen[u] = true
			defer delete(c.seen, u)
			return c.val(vals[0], d)
		}
		return allocName(a)
	case *ssa.FreeVar:
		// a store to the captured variable earlier in the same block with no
		// call in between is the value read
		if b := u.Block(); b != nil {
			ui := indexIn(b, u)
			for i := ui - 1; i >= 0; i-- {
				if st, ok := b.Instrs[i].(*ssa.Store); ok && st.Addr == a {
					return c.val(st.Val, d)
				}
				if _, ok := b.Instrs[i].(ssa.CallInstruction); ok {
					break
				}
			}
		}
		// captured by reference: if the variable has a single store in the
		// enclosing function and no closure writes it, it is that value
		if mc := c.e.parents[a.Parent()]; mc != nil {
			for i, fv := range a.Parent().FreeVars {
				if fv == a && i < len(mc.Bindings) {
					if al, ok := mc.Bindings[i].(*ssa.Alloc); ok {
						if v := c.e.singleStore(al); v != nil {
							return "^" + c.val(v, d-1)
						}
						return "^" + allocName(al)
					}
				}
			}
		}
		s := c.val(a, d)
		return strings.TrimPrefix(strings.TrimPrefix(s, "^&"), "&")
	}
	s := c.val(u.X, d-1)
	if strings.HasPrefix(s, "&") {
		return s[1:]
	}
	return "*" + s
}

// ReachingStores returns the values that may be stored in local alloc a when
// load executes.  A nil element stands for the zero value.  exact is false when
// the alloc escapes (captured by a closure that may write it, address passed
// to a call) so that other writers may exist.
func (e *Engine) ReachingStores(a *ssa.Alloc, load ssa.Instruction) (vals []ssa.Value, exact bool) {
	fn := a.Parent()
	exact = true
	var stores []*ssa.Store
	if a.Referrers() != nil {
		for _, r := range *a.Referrers() {
			switch x := r.(type) {
			case *ssa.Store:
				if x.Addr == a {
					stores = append(stores, x)
				} else {
					exact = false // address stored somewhere
				}
			case *ssa.UnOp:
				// load
			case *ssa.DebugRef:
			case *ssa.MakeClosure:
				// captured by reference: closure may write it
				if cf, ok := x.Fn.(*ssa.Function); ok {
					for i, b := range x.Bindings {
						if b == a && closureWrites(cf, i) {
							exact = false
						}
					}
				}
			case *ssa.FieldAddr, *ssa.IndexAddr:
				// partial writes through sub-addresses: treat as inexact
				exact = false
			default:
				exact = false
			}
		}
	}
	// block-level reaching definitions
	type defset map[*ssa.Store]bool
	n := len(fn.Blocks)
	lastStore := make([]*ssa.Store, n)
	for _, s := range stores {
		b := s.Block()
		cur := lastStore[b.Index]
		if cur == nil || indexIn(b, s) > indexIn(b, cur) {
			lastStore[b.Index] = s
		}
	}
	in := make([]defset, n)
	out := make([]defset, n)
	zeroIn := make([]bool, n)
	zeroOut := make([]bool, n)
	for i := range in {
		in[i] = defset{}
		out[i] = defset{}
	}
	// the alloc's own block: zero value defined at the alloc
	changed := true
	for changed {
		changed = false
		for _, b := range fn.Blocks {
			i := b.Index
			ni := defset{}
			nz := false
			for _, p := range b.Preds {
				for s := range out[p.Index] {
					ni[s] = true
				}
				if zeroOut[p.Index] {
					nz = true
				}
			}
			if b == a.Block() || (len(b.Preds) == 0) {
				nz = true
			}
			no := defset{}
			noz := false
			if ls := lastStore[i]; ls != nil {
				no[ls] = true
			} else {
				for s := range ni {
					no[s] = true
				}
				noz = nz
			}
			// if alloc is defined in this block after position 0, zero starts here
			if b == a.Block() && lastStore[i] == nil {
				noz = true
			}
			if len(ni) != len(in[i]) || nz != zeroIn[i] || len(no) != len(out[i]) || noz != zeroOut[i] {
				changed = true
			}
			in[i], out[i], zeroIn[i], zeroOut[i] = ni, no, nz, noz
		}
	}
	lb := load.Block()
	li := indexIn(lb, load)
	var last *ssa.Store
	for _, s := range stores {
		if s.Block() == lb {
			si := indexIn(lb, s)
			if si < li && (last == nil || si > indexIn(lb, last)) {
				last = s
			}
		}
	}
	if last != nil {
		return []ssa.Value{last.Val}, exact
	}
	if lb == a.Block() && indexIn(lb, a) < li {
		// after the alloc, before any store in this block; loop-carried stores could still reach
		if len(in[lb.Index]) == 0 {
			return []ssa.Value{nil}, exact
		}
	}
	var ss []*ssa.Store
	for s := range in[lb.Index] {
		ss = append(ss, s)
	}
	sort.Slice(ss, func(i, j int) bool { return ss[i].Pos() < ss[j].Pos() })
	for _, s := range ss {
		vals = append(vals, s.Val)
	}
	if zeroIn[lb.Index] {
		vals = append(vals, nil)
	}
	return vals, exact
}

func indexIn(b *ssa.BasicBlock, in ssa.Instruction) int {
	for i, x := range b.Instrs {
		if x == in {
			return i
		}
	}
	return -1
}

// closureWrites reports whether closure fn stores through its i-th free variable.
func closureWrites(fn *ssa.Function, i int) bool {
	if i >= len(fn.FreeVars) {
		return true
	}
	fv := fn.FreeVars[i]
	if fv.Referrers() == nil {
		return false
	}
	for _, r := range *fv.Referrers() {
		switch x := r.(type) {
		case *ssa.Store:
			if x.Addr == fv {
				return true
			}
		case *ssa.UnOp, *ssa.DebugRef:
		case *ssa.MakeClosure:
			if cf, ok := x.Fn.(*ssa.Function); ok {
				for j, b := range x.Bindings {
					if b == fv && closureWrites(cf, j) {
						return true
					}
				}
			}
		default:
			return true
		}
	}
	return false
}

// InstrStr renders an instruction with effect (call, store, send, go, defer, return).
func (e *Engine) InstrStr(in ssa.Instruction) string {
	c := &canoner{e: e, seen: map[ssa.Value]bool{}}
	switch x := in.(type) {
	case *ssa.Call:
		return c.call(&x.Call, 60)
	case *ssa.Go:
		return "go " + c.call(&x.Call, 60)
	case *ssa.Defer:
		return "defer " + c.call(&x.Call, 60)
	case *ssa.Store:
		a := c.val(x.Addr, 60)
		a = strings.TrimPrefix(a, "&")
		return "store(" + a + " = " + c.val(x.Val, 60) + ")"
	case *ssa.Send:
		return "send(" + c.val(x.Chan, 60) + ", " + c.val(x.X, 60) + ")"
	case *ssa.Return:
		var rs []string
		for _, r := range x.Results {
			rs = append(rs, c.val(r, 60))
		}
		return "return(" + strings.Join(rs, ", ") + ")"
	case *ssa.MapUpdate:
		return "mapupdate(" + c.val(x.Map, 60) + "[" + c.val(x.Key, 60) + "] = " + c.val(x.Value, 60) + ")"
	case *ssa.Panic:
		return "panic"
	case *ssa.RunDefers:
		return "rundefers"
	case *ssa.Select:
		var st []string
		for _, s := range x.States {
			if s.Dir == types.SendOnly {
				st = append(st, "send("+c.val(s.Chan, 60)+", "+c.val(s.Send, 60)+")")
			} else {
				st = append(st, "recv("+c.val(s.Chan, 60)+")")
			}
		}
		blocking := "blocking"
		if !x.Blocking {
			blocking = "nonblocking"
		}
		return "select[" + blocking + "](" + strings.Join(st, "; ") + ")"
	}
	if v, ok := in.(ssa.Value); ok {
		return c.val(v, 60)
	}
	return fmt.Sprintf("%T", in)
}

// singleStore returns the only value ever stored to a local (nil if none/several
// or if a closure may write it).
func (e *Engine) singleStore(a *ssa.Alloc) ssa.Value {
	var val ssa.Value
	n := 0
	if a.Referrers() == nil {
		return nil
	}
	for _, r := range *a.Referrers() {
		switch x := r.(type) {
		case *ssa.Store:
			if x.Addr == a {
				n++
				val = x.Val
			} else {
				return nil
			}
		case *ssa.UnOp, *ssa.DebugRef:
		case *ssa.MakeClosure:
			if cf, ok := x.Fn.(*ssa.Function); ok {
				for i, b := range x.Bindings {
					if b == a && closureWrites(cf, i) {
						return nil
					}
				}
			}
		default:
			return nil
		}
	}
	if n == 1 {
		return val
	}
	return nil
}

// arrayLit renders the elements stored into a local array (variadic argument
// lists, small literals) when every element is stored exactly once at a
// constant index.
func (c *canoner) arrayLit(a *ssa.Alloc, d int) ([]string, bool) {
	at, ok := a.Type().(*types.Pointer).Elem().Underlying().(*types.Array)
	if !ok || at.Len() > 16 || a.Referrers() == nil {
		return nil, false
	}
	els := make([]string, at.Len())
	for _, r := range *a.Referrers() {
		switch x := r.(type) {
		case *ssa.IndexAddr:
			k, ok := x.Index.(*ssa.Const)
			if !ok || x.Referrers() == nil {
				return nil, false
			}
			idx, _ := constant.Int64Val(k.Value)
			for _, rr := range *x.Referrers() {
				if st, ok := rr.(*ssa.Store); ok && st.Addr == x {
					if idx < 0 || idx >= int64(len(els)) || els[idx] != "" {
						return nil, false
					}
					els[idx] = c.val(st.Val, d-1)
				}
			}
		case *ssa.Slice, *ssa.DebugRef:
		default:
			return nil, false
		}
	}
	for i := range els {
		if els[i] == "" {
			els[i] = "_"
		}
	}
	return els, true
}
