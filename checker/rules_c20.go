package main

import (
	"fmt"
	"go/constant"
	"sort"
	"strings"
	"time"

	"golang.org/x/tools/go/ssa"
)

func init() { register("C20", rulesC20) }

func rulesC20(e *Engine, r *Report) {
	sc := e.stageConsts(r, "R20")
	if !sc.ok {
		return
	}
	top := needFn(e, r, "R20.1", "stage.(*Stage).cleanStrays")
	var cl *ssa.Function
	if top != nil {
		cl = e.closureOfCall(top, "filepath.Walk", 1)
		if cl == nil {
			r.Unresolved("R20.1", "walk closure of cleanStrays")
		}
	}
	// ---------------------------------------------------------------- R20.1
	r.Rule("R20.1", "path kinds: in the stray cleaner the companion is read through the companion's own path (<root>/<rel>.cmp), the state and hash are looked up under the base path (the walked path without .part), the log is asked for the relative name, and what is removed is exactly <root>/<rel>.part and <root>/<rel>.cmp")
	if cl != nil {
		rel := `call(strings.TrimSuffix)(p0[(builtin(len)(^p0.rootDir) + 1):], call(filepath.Ext)(p0))`
		cmpPath := `call(filepath.Join)([^p0.rootDir, (` + rel + ` + ".cmp")])`
		partPath := `call(filepath.Join)([^p0.rootDir, (` + rel + ` + ".part")])`
		base := `call(strings.TrimSuffix)(p0, ".part")`
		for _, c := range []struct{ what, p string }{
			{"companion stat'ed at <root>/<rel>.cmp", "call(os.Stat)(" + cmpPath + ")"},
			{"companion read from <root>/<rel>.cmp under the relative name", "call(stage.readLocalCompanion)(" + cmpPath + ", " + rel + ")"},
			{"state looked up under the base path", "call(stage.(*Stage).getFileState)(^p0, " + base + ")"},
			{"hash looked up under the base path", "call(stage.(*Stage).getFileHash)(^p0, " + base + ")"},
			{"partial removed at <root>/<rel>.part", "call(os.Remove)(" + partPath + ")"},
			{"companion removed at <root>/<rel>.cmp", "call(os.Remove)(" + cmpPath + ")"},
		} {
			got := e.findInstrs(cl, c.p, false)
			r.Check(len(got) == 1, "R20.1", e.ShortName(top)+": "+c.what, e.Pos(cl.Pos()),
				fmt.Sprintf("expected exactly one call %s, found %d: a helper is handed a path of the wrong kind", c.p, len(got)), 1, c.p)
		}
		// no helper call with another path
		for _, p := range []string{"call(stage.readLocalCompanion)(§)", "call(stage.(*Stage).getFileState)(§)", "call(stage.(*Stage).getFileHash)(§)", "call(os.Remove)(§)", "invoke(sts.ReceiveLogger.WasReceived)(§)"} {
			got := e.findInstrs(cl, p, false)
			r.Check(len(got) == 1 || (p == "call(os.Remove)(§)" && len(got) == 2), "R20.1", e.ShortName(top)+": single "+strings.TrimSuffix(p, "(§)"), e.Pos(cl.Pos()),
				fmt.Sprintf("%d calls found", len(got)), len(got))
		}
	}

	// ---------------------------------------------------------------- R20.2
	r.Rule("R20.2", "delete decision: the stray partial is removed only for a .part file at least minAge old and only if the companion is absent or was read without error, and either the cache knows the path beyond `received` - validated, finalized or logged, NOT failed - and (no companion exists or its hash equals the cached hash), or the receive log answers yes for the relative name with the companion's hash; the companion is removed only on paths that also satisfy the partial's condition, and only for a logged file or through the log arm")
	if cl != nil {
		rel := `call(strings.TrimSuffix)(p0[(builtin(len)(^p0.rootDir) + 1):], call(filepath.Ext)(p0))`
		cmpPath := `call(filepath.Join)([^p0.rootDir, (` + rel + ` + ".cmp")])`
		base := `call(strings.TrimSuffix)(p0, ".part")`
		compCall := "call(stage.readLocalCompanion)(" + cmpPath + ", " + rel + ")#0"
		comp := "phi(" + compCall + "|nil)"
		state := "call(stage.(*Stage).getFileState)(^p0, " + base + ")"
		hash := "call(stage.(*Stage).getFileHash)(^p0, " + base + ")"
		cls := labeler(
			C(`(call(filepath.Ext)(p0) == ".part")`, "isPart"),
			C("(^p1 <= call(time.Since)(invoke(os.FileInfo.ModTime)(p1)))", "aged"),
			C("("+sc.received+" < "+state+")", "beyondReceived"),
			C("("+state+" == "+sc.logged+")", "isLogged"),
			C("("+state+" != "+sc.failed+")", "notFailed"),
			C("("+state+" == "+sc.logged+")", "notFailed"),
			C("("+state+" == "+sc.finalized+")", "notFailed"),
			C("("+state+" == "+sc.validated+")", "notFailed"),
			C("("+state+" == "+sc.logged+")", "beyondReceived"),
			C("("+state+" == "+sc.finalized+")", "beyondReceived"),
			C("("+state+" == "+sc.validated+")", "beyondReceived"),
			C("(call(stage.readLocalCompanion)("+cmpPath+", "+rel+")#1 == nil)", "cmpRead"),
			C("("+comp+" == nil)", "noCompanion"),
			C("("+compCall+" == nil)", "noCompanion"),
			C("(call(os.Stat)("+cmpPath+")#1 != nil)", "noCompanion"),
			C("("+comp+".Hash == "+hash+")", "hashMatches"),
			C("("+hash+" == "+comp+".Hash)", "hashMatches"),
			C("("+compCall+".Hash == "+hash+")", "hashMatches"),
			C("("+hash+" == "+compCall+".Hash)", "hashMatches"),
			C("(call(os.Stat)("+cmpPath+")#1 == nil)", "cmpExists"),
			C("invoke(sts.ReceiveLogger.WasReceived)(^p0.logger, "+rel+`, phi(""|`+comp+".Hash), §)", "inLog"),
			C("invoke(sts.ReceiveLogger.WasReceived)(^p0.logger, "+rel+", "+comp+".Hash, §)", "inLog"),
		)
		partOK := func(l LabelSet) bool {
			// `failed` sorts above `received` numerically but is not "beyond" it: nothing was delivered (F19a);
			// a companion that exists but could not be read licenses nothing (F19b)
			readable := l.Has("cmpRead") || (l.Has("noCompanion") && !l.Has("cmpExists"))
			return l.HasAll("isPart", "aged") && readable && ((l.HasAll("beyondReceived", "notFailed") && l.HasAny("noCompanion", "hashMatches")) || l.Has("inLog"))
		}
		n := e.Guarded(r, "R20.2", e.ShortName(top)+": os.Remove[Part]", cl, e.instrMatch(`call(os.Remove)(§ + ".part")]))`), cls, partOK,
			".part, aged, companion absent or READ, and (state > received and not failed, with no/matching companion hash | WasReceived(rel, companion hash))")
		r.Min("R20.2", "partial removals in the cleaner", n, 1)
		n = e.Guarded(r, "R20.2", e.ShortName(top)+": os.Remove[Cmp]", cl, e.instrMatch(`call(os.Remove)(§ + ".cmp")]))`), cls,
			func(l LabelSet) bool {
				return partOK(l) && l.Has("cmpExists") && (l.Has("inLog") || l.HasAll("beyondReceived", "isLogged"))
			}, "the partial's condition, the companion exists, and (log arm | state logged)")
		r.Min("R20.2", "companion removals in the cleaner", n, 1)
	}

	// ---------------------------------------------------------------- R20.6
	r.Rule("R20.6", "only partials older than a day are considered: every call of the stray cleaner passes a constant age of at least 24 h (a transfer in progress - a prepared partial whose first chunk has not landed yet has no companion - must never be young enough to qualify), and the age is compared with the partial's modification time (R20.2 `aged`)")
	{
		n := 0
		for _, fn := range e.FuncsIn("stage") {
			for _, in := range e.findInstrs(fn, "call(stage.(*Stage).cleanStrays)(§, §)", false) {
				n++
				arg := in.(ssa.CallInstruction).Common().Args[1]
				okAge := false
				if c, ok := arg.(*ssa.Const); ok && c.Value != nil {
					if v, exact := constant.Int64Val(constant.ToInt(c.Value)); exact {
						okAge = v >= int64(24*time.Hour)
					}
				}
				r.Check(okAge, "R20.6", e.ShortName(fn)+": cleanStrays(age >= 24h)", e.InstrPos(in),
					"the stray cleaner is run with an age below one day (or a non-constant age): partials of transfers still in progress become candidates: "+e.Canon(arg), 1, e.Canon(arg))
			}
		}
		r.Min("R20.6", "calls of the stray cleaner", n, 1)
	}

	// ---------------------------------------------------------------- R20.3
	r.Rule("R20.3", "removal table: every os.Remove in package stage belongs to the frozen (function, kind) table; there is no os.RemoveAll and no removal of a .wait file at all, and of a .full file only in the validator's unreadable-file arm and in recovery for the leftover of a duplicate whose version the cache knows as delivered with the same hash; no truncation/creation outside initStageFile")
	{
		allowed := map[string]string{
			"stage.(*Stage).cleanStrays|Part":  "stray partial of a delivered file",
			"stage.(*Stage).cleanStrays|Cmp":   "its companion",
			"stage.(*Stage).process|Cmp":       "unreadable staged file",
			"stage.(*Stage).process|Full":      "unreadable staged file",
			"stage.(*Stage).Receive|Part":      "duplicate completion",
			"stage.(*Stage).Receive|Cmp":       "duplicate completion of a delivered file",
			"stage.(*Stage).initStageFile|Cmp": "stale companion of an unknown/failed file",
			"stage.(*Stage).putFileAway|Cmp":   "delivered",
			"stage.(*Stage).Recover|Cmp":       "orphan companion",
			"stage.(*Stage).Recover|Full":      "leftover of a duplicate of a delivered version",
			"stage.(*Stage).finalize|Final":    "exported file",
			"stage.(*Stage).pruneTree|Dir":     "empty directory",
		}
		seen := map[string]bool{}
		n := 0
		for _, fn := range e.FuncsIn("stage") {
			topName := e.ShortName(EnclosingTop(fn))
			for _, in := range e.findInstrs(fn, "call(os.«(Remove|RemoveAll|Truncate)»)(§)", false) {
				n++
				key := e.CalleeKey(in.(ssa.CallInstruction).Common())
				arg := e.Canon(in.(ssa.CallInstruction).Common().Args[0])
				kind := "?"
				switch {
				case strings.Contains(arg, `".part"`):
					kind = "Part"
				case strings.Contains(arg, `".cmp"`):
					kind = "Cmp"
				case strings.Contains(arg, `".full"`):
					kind = "Full"
				case strings.Contains(arg, `".wait"`):
					kind = "Wait"
				case topName == "stage.(*Stage).Recover" && arg == "p0":
					kind = "Cmp"
				case topName == "stage.(*Stage).finalize" && strings.Contains(arg, "putFileAway"):
					kind = "Final"
				case topName == "stage.(*Stage).pruneTree":
					kind = "Dir"
				}
				k := topName + "|" + kind
				why, ok := allowed[k]
				ok = ok && key == "os.Remove"
				seen[k] = true
				r.Check(ok, "R20.3", fmt.Sprintf("%s: %s[%s]", topName, key, kind), e.InstrPos(in),
					"a removal outside the frozen table (function, kind): "+e.InstrStr(in), 1, "allowed: "+why)
			}
		}
		r.Min("R20.3", "removals in package stage", n, 11)
		var missing []string
		for k := range allowed {
			if !seen[k] {
				missing = append(missing, k)
			}
		}
		sort.Strings(missing)
		r.Check(len(missing) == 0, "R20.3", "every table entry is still present", "", "table entries without a site (the table must be re-confirmed): "+strings.Join(missing, ", "), len(allowed))
		// creation/truncation only in initStageFile
		var creators []string
		for _, fn := range e.FuncsIn("stage") {
			for _, in := range e.findInstrs(fn, "call(«(os.Create|os.WriteFile|os.\\(\\*File\\).Truncate)»)(§)", false) {
				creators = append(creators, e.ShortName(fn))
				_ = in
			}
		}
		sort.Strings(creators)
		okc := len(creators) == 2 && creators[0] == "stage.(*Stage).initStageFile" && creators[1] == "stage.(*Stage).initStageFile"
		r.Check(okc, "R20.3", "create/truncate only in initStageFile", "", "files are created or truncated in: "+strings.Join(creators, ", "), len(creators), creators...)
	}
	if fn := needFn(e, r, "R20.3", "stage.(*Stage).process"); fn != nil {
		cls := labeler(C("(call(fileutil.FileMD5)((p1.path + \".full\"))#1 != nil)", "unreadable"))
		n := e.Guarded(r, "R20.3", "stage.(*Stage).process: removals only for an unreadable staged file", fn, e.instrMatch("call(os.Remove)(§)"), cls,
			func(l LabelSet) bool { return l.Has("unreadable") }, "FileMD5 returned an error")
		r.Min("R20.3", "removals in the validator", n, 2)
	}
	if top := needFn(e, r, "R20.3", "stage.(*Stage).Recover"); top != nil {
		n := 0
		for _, fn := range WithClosures(top) {
			cls := labeler(
				C("("+sc.finalized+" <= call(stage.(*Stage).fromCache)(§).state)", "delivered"),
				C("(call(stage.(*Stage).fromCache)(§).hash == §.hash)", "sameHash"),
				C("(§.hash == call(stage.(*Stage).fromCache)(§).hash)", "sameHash"),
			)
			n += e.Guarded(r, "R20.3", e.ShortName(fn)+": a staged body is removed only as the duplicate of a delivered version", fn, e.instrMatch("call(os.Remove)((§ + \".full\"))"), cls,
				func(l LabelSet) bool { return l.HasAll("delivered", "sameHash") }, "cache: state >= finalized and the same hash")
		}
		r.Min("R20.3", "removals of a .full in recovery", n, 1)
	}
	if fn := needFn(e, r, "R20.3", "stage.(*Stage).finalize"); fn != nil {
		cls := labeler(C("(invoke(sts.Exporter.Upload)(p0.exporter, call(stage.(*Stage).putFileAway)(p0, p1)#0, §) == nil)", "exported"))
		n := e.Guarded(r, "R20.3", "stage.(*Stage).finalize: delivered file removed only after a successful export", fn, e.instrMatch("call(os.Remove)(§)"), cls,
			func(l LabelSet) bool { return l.Has("exported") }, "Exporter.Upload(targetPath, …) == nil")
		r.Min("R20.3", "removals in finalize", n, 1)
	}

	// ---------------------------------------------------------------- R20.4
	r.Rule("R20.4", "prune removes only directories that are old enough and empty: the candidate list is filled only with directories whose age is at least minAge (walk callback), and os.Remove(dir) is reached only under len(ReadDir(dir)) == 0 with a successful ReadDir")
	if fn := needFn(e, r, "R20.4", "stage.(*Stage).pruneTree"); fn != nil {
		cw := e.closureOfCall(fn, "filepath.Walk", 1)
		if cw == nil {
			r.Unresolved("R20.4", "walk closure of pruneTree")
		} else {
			cls := labeler(
				C("invoke(os.FileInfo.IsDir)(p1)", "isDir"),
				C("(^p2 <= call(time.Since)(invoke(os.FileInfo.ModTime)(p1)))", "aged"),
				C("(p2 == nil)", "noErr"),
			)
			n := e.Guarded(r, "R20.4", e.ShortName(fn)+": candidate appended", cw, e.instrMatch("store(^&var(dirs) = builtin(append)(§))"), cls,
				func(l LabelSet) bool { return l.HasAll("isDir", "aged", "noErr") }, "is a directory, age >= minAge, no walk error")
			r.Min("R20.4", "appends to the candidate list", n, 1)
		}
		cls := labeler(
			C("(builtin(len)(call(os.ReadDir)(«(.*)»)#0) == 0)", "empty"),
			C("(call(os.ReadDir)(§)#1 == nil)", "listed"),
		)
		n := 0
		for _, in := range e.findInstrs(fn, "call(os.Remove)(§)", false) {
			n++
			d := e.Canon(in.(ssa.CallInstruction).Common().Args[0])
			cls2 := labeler(
				C("(builtin(len)(call(os.ReadDir)("+d+")#0) == 0)", "empty"),
				C("(call(os.ReadDir)("+d+")#1 == nil)", "listed"),
			)
			e.Guarded(r, "R20.4", e.ShortName(fn)+": os.Remove(dir)", fn, only(in), cls2,
				func(l LabelSet) bool { return l.HasAll("empty", "listed") }, "ReadDir(<same dir>) succeeded and returned no entries")
			r.Check(strings.Contains(d, "var(dirs)["), "R20.4", e.ShortName(fn)+": the directory removed is an element of the candidate list", e.InstrPos(in),
				"prune removes something that is not taken from the aged-directory list: "+d, 1, d)
		}
		_ = cls
		r.Min("R20.4", "directory removals in prune", n, 1)
	}

	// ---------------------------------------------------------------- R20.5
	r.Rule("R20.5", "one cleaning at a time: clean() holds cleanLock across the stray and wait-loop passes and re-arms the timer by defer after releasing it; the timer callback only calls clean()")
	if fn := needFn(e, r, "R20.5", "stage.(*Stage).clean"); fn != nil {
		cls := labeler(
			I("call(sync.(*RWMutex).Lock)(&p0.cleanLock)", "locked"),
			IK("call(sync.(*RWMutex).Unlock)(&p0.cleanLock)", "locked"),
			I("defer call(stage.(*Stage).scheduleClean)(p0)", "rearmDeferred"),
			I("defer call(sync.(*RWMutex).Unlock)(&p0.cleanLock)", "unlockDeferred"),
		)
		n := e.Guarded(r, "R20.5", "stage.(*Stage).clean: passes under cleanLock", fn, e.instrMatch("call(stage.(*Stage).«(cleanStrays|cleanWaiting)»)(§)"), cls,
			func(l LabelSet) bool { return l.HasAll("locked", "rearmDeferred", "unlockDeferred") }, "cleanLock held; unlock and re-arm deferred")
		r.Min("R20.5", "cleaning passes", n, 2)
		// defer order: scheduleClean deferred before Unlock => runs after it
		var order []string
		Instrs(fn, func(in ssa.Instruction) {
			if d, ok := in.(*ssa.Defer); ok {
				order = append(order, e.CalleeKey(&d.Call))
			}
		})
		okOrder := len(order) >= 2 && order[0] == "stage.(*Stage).scheduleClean" && order[1] == "sync.(*RWMutex).Unlock"
		r.Check(okOrder, "R20.5", "stage.(*Stage).clean: re-arm is deferred first (runs after the unlock)", e.Pos(fn.Pos()),
			"scheduleClean takes cleanLock itself: it must run after clean() released it: "+strings.Join(order, ", "), 1, order...)
	}
	// ---------------------------------------------------------------- R20.7
	r.Rule("R20.7", "`old enough` means the age the operator gave: the on-demand prune route reads `minage` as whole seconds and hands GateKeeper.Prune that number multiplied by time.Second (a bare number would be nanoseconds: every empty directory, however fresh, would qualify)")
	if fn := needFn(e, r, "R20.7", "http.(*Server).routeInternal"); fn != nil {
		n := 0
		for _, cf := range WithClosures(fn) {
			for _, in := range e.findInstrs(cf, "invoke(sts.GateKeeper.Prune)(§)", false) {
				n++
				a := e.Canon(in.(ssa.CallInstruction).Common().Args[0])
				ok := strings.Contains(a, `"minage"`) && strings.HasSuffix(strings.TrimPrefix(a, "^"), "* 1000000000)")
				r.Check(ok, "R20.7", e.ShortName(cf)+": Prune(minage × time.Second)", e.InstrPos(in), "the age handed to Prune is not the request's minage in seconds: "+shorten(a), 1, a)
			}
		}
		r.Min("R20.7", "Prune calls in the internal route", n, 1)
	}
	// ---------------------------------------------------------------- R20.8
	r.Rule("R20.8", "cleaning cannot wedge the receiver: while a method of the stage holds one of the stage's mutexes it calls nothing on the same stage that acquires that mutex again - a read lock taken inside a read lock (sync.RWMutex) blocks for ever as soon as a writer (a file being received: toCache) is queued in between, and then every cache user hangs")
	e.checkNoReentrantLocking(r, "R20.8", 15, "stage")
	// ---------------------------------------------------------------- R20.9
	e.shareRule(r, "C06", "R06.9", "R20.9", "the cleaner decides with the companion's hash: whatever produces the companion record it reads - the current format, or the upgrade of a legacy-format companion - carries the hash over (an empty hash makes the log look-up match ANY record of the name, and the partial and companion of a version still being received are deleted)")
	// ---------------------------------------------------------------- R20.10
	r.Rule("R20.10", "an unreadable record is an error, not an empty record: readLocalCompanion decodes what it has read with json.Unmarshal and returns its error; it does not go through fileutil.LoadJSON, which takes an empty file for a successful load - the cleaner skips a partial only because reading its companion fails (`nothing can be decided without the record`), and an all-empty record matches any logged version of the name")
	{
		bad := 0
		for _, fn := range e.FuncsIn("stage") {
			for _, s := range e.SitesIn(fn) {
				if e.CalleeKey(s.Instr.Common()) == "fileutil.LoadJSON" {
					bad++
					r.Bad("R20.10", e.ShortName(fn)+": fileutil.LoadJSON in package stage", e.InstrPos(s.Instr), "a companion (or any stage record) is loaded with a decoder that reports an empty file as success", 1)
				}
			}
		}
		if fn := needFn(e, r, "R20.10", "stage.readLocalCompanion"); fn != nil {
			un := e.findInstrs(fn, "call(json.Unmarshal)(§)", false)
			r.Check(len(un) >= 1 && bad == 0, "R20.10", "stage.readLocalCompanion: decoded with json.Unmarshal, whose error is returned", e.Pos(fn.Pos()),
				"the companion is no longer decoded with json.Unmarshal", 1)
		}
	}
}
