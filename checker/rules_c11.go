package main

import (
	"fmt"
	"go/token"
	"strings"

	"golang.org/x/tools/go/ssa"
)

func init() { register("C11", rulesC11) }

// fieldLoadsIn collects the loads of field `name` in the expression tree of v.
func fieldLoadsIn(v ssa.Value, name string, seen map[ssa.Value]bool, out *[]*ssa.UnOp) {
	if v == nil || seen[v] {
		return
	}
	seen[v] = true
	if u, ok := v.(*ssa.UnOp); ok && u.Op == token.MUL {
		if fa, ok := u.X.(*ssa.FieldAddr); ok {
			if f := fieldVar(fa.X, fa.Field); f != nil && f.Name() == name {
				*out = append(*out, u)
			}
		}
	}
	if in, ok := v.(ssa.Instruction); ok {
		for _, op := range in.Operands(nil) {
			if *op != nil {
				fieldLoadsIn(*op, name, seen, out)
			}
		}
	}
}

// precedes: instruction a executes before b on every path that reaches b
// (same block earlier, or a's block strictly dominates b's).
func precedes(a, b ssa.Instruction) bool {
	if a.Block() == b.Block() {
		return indexIn(a.Block(), a) < indexIn(b.Block(), b)
	}
	return a.Block().Dominates(b.Block())
}

// fieldStoreInstrs lists the stores to field `name` of the receiver-typed object in fn.
func fieldStoreInstrs(fn *ssa.Function, name string) []*ssa.Store {
	var out []*ssa.Store
	Instrs(fn, func(in ssa.Instruction) {
		if st, ok := in.(*ssa.Store); ok {
			if fa, ok := st.Addr.(*ssa.FieldAddr); ok {
				if f := fieldVar(fa.X, fa.Field); f != nil && f.Name() == name {
					out = append(out, st)
				}
			}
		}
	})
	return out
}

// oldValue: every load of field `name` inside v happens before every store to that field in fn.
func (e *Engine) oldValue(fn *ssa.Function, v ssa.Value, name string) (bool, int) {
	var loads []*ssa.UnOp
	fieldLoadsIn(v, name, map[ssa.Value]bool{}, &loads)
	for _, ld := range loads {
		for _, st := range fieldStoreInstrs(fn, name) {
			if !precedes(ld, st) {
				return false, len(loads)
			}
		}
	}
	return true, len(loads)
}

func rulesC11(e *Engine, r *Report) {
	// ---------------------------------------------------------------- R11.1
	r.Rule("R11.1", "allocation conserves bytes: sortedFile.allocate returns as offset the counter's value before the call and adds exactly the returned length to the counter; the length is `desired` only when that stays within the file, otherwise the remainder; recoverFile.Allocate returns as offset range.Beg + used (values before the call), advances `used` by the desired length, and when offset+desired reaches the range end returns exactly End-offset, moves to the next range and leaves `used` at 0 (the reset is the last write to it)")
	if fn := needFn(e, r, "R11.1", "queue.(*sortedFile).allocate"); fn != nil {
		var ret *ssa.Return
		Instrs(fn, func(in ssa.Instruction) {
			if rt, ok := in.(*ssa.Return); ok && len(rt.Results) == 2 && e.Canon(rt.Results[0]) == "p0.allocated" {
				ret = rt
			}
		})
		if ret == nil {
			r.Bad("R11.1", "queue.(*sortedFile).allocate: returns (allocated, length)", e.Pos(fn.Pos()), "the non-resumed return no longer yields the allocation counter as offset", 1)
		} else {
			old, nl := e.oldValue(fn, ret.Results[0], "allocated")
			r.Check(old && nl == 1, "R11.1", "queue.(*sortedFile).allocate: offset = counter before the update", e.InstrPos(ret),
				"the offset returned is read after the counter was advanced (the chunk would start where it ends)", 1)
			length := e.Canon(ret.Results[1])
			sts := fieldStoreInstrs(fn, "allocated")
			okS := len(sts) == 1 && e.Canon(sts[0].Val) == "(p0.allocated + "+length+")"
			if okS {
				if bo, ok := sts[0].Val.(*ssa.BinOp); ok {
					okS = bo.Y == ret.Results[1] // the very value returned
				}
			}
			r.Check(okS, "R11.1", "queue.(*sortedFile).allocate: counter += the length returned", e.InstrPos(ret),
				"the counter is not advanced by exactly the length handed out (bytes would be skipped or handed out twice)", 1, length)
			size := "invoke(sts.Hashed.GetSize)(p0.orig)"
			okL := true
			var facts []string
			if ph, ok := ret.Results[1].(*ssa.Phi); ok {
				for i, ed := range ph.Edges {
					cv := e.Canon(ed)
					conds := e.domConds(ph.Block().Preds[i])
					if t, ok2 := ph.Block().Preds[i].Instrs[len(ph.Block().Preds[i].Instrs)-1].(*ssa.If); ok2 {
						conds = append(conds, e.CondStr(t.Cond, ph.Block().Preds[i].Succs[0] == ph.Block()))
					}
					switch cv {
					case "p1":
						if !(hasStr(conds, "((p0.allocated + p1) <= "+size+")") && hasStr(conds, "(p1 != 0)")) {
							okL = false
						}
						facts = append(facts, "desired, under "+strings.Join(conds, " & "))
					case "(" + size + " - p0.allocated)":
						facts = append(facts, "remainder")
					default:
						okL = false
						facts = append(facts, "OTHER "+cv)
					}
				}
			} else {
				okL = false
			}
			r.Check(okL, "R11.1", "queue.(*sortedFile).allocate: length = desired within the file, else the remainder", e.InstrPos(ret),
				"the length handed out can exceed what is left of the file or be something else than desired/remainder", 2, facts...)
		}
		cls := labeler(C("assert(sts.Recovered)(p0.orig)#1", "resumed"))
		for _, rw := range e.returnWorlds(r, "R11.1", fn, cls) {
			if rw.W.Has("resumed") {
				rt := rw.In.(*ssa.Return)
				ok := e.Canon(rt.Results[0]) == "invoke(sts.Recovered.Allocate)(assert(sts.Recovered)(p0.orig)#0, p1)#0" && e.Canon(rt.Results[1]) == "invoke(sts.Recovered.Allocate)(assert(sts.Recovered)(p0.orig)#0, p1)#1"
				r.Check(ok, "R11.1", "queue.(*sortedFile).allocate: a resumed file allocates from its own missing ranges", e.InstrPos(rt), "a resumed file is not allocated through its Recovered.Allocate", 1)
			}
		}
	}
	e.checkRecoverAllocate(r, "R11.1")
	for _, spec := range []struct{ fn, want, what string }{
		{"client.(*recoverFile).IsAllocated", "(builtin(len)(p0.left) == p0.part)", "all missing ranges handed out"},
		{"queue.(*sortedFile).isAllocated", "(invoke(sts.Hashed.GetSize)(p0.orig) == p0.allocated)", "counter reached the file size"},
	} {
		if fn := needFn(e, r, "R11.1", spec.fn); fn != nil {
			ok := false
			Instrs(fn, func(in ssa.Instruction) {
				if rt, ok2 := in.(*ssa.Return); ok2 && len(rt.Results) == 1 {
					s := e.CondStr(rt.Results[0], true)
					if s == spec.want {
						ok = true
					}
				}
			})
			r.Check(ok, "R11.1", spec.fn+": done ⇔ "+spec.what, e.Pos(fn.Pos()), "the completion test of the allocator is no longer "+spec.want, 1)
		}
	}

	// ---------------------------------------------------------------- R11.2
	r.Rule("R11.2", "Bin.Add conserves bytes: one value end-beg (> 0) is what the new part spans (part.beg = beg, part.end = end), what the payload's byte count grows by and what the chunk's allocation advances by; end is min(chunk end, beg + free space incl. slack) with free space = capacity + fluff - bytes")
	if fn := needFn(e, r, "R11.2", "payload.(*Bin).Add"); fn != nil {
		// the three sinks must carry one and the same expression; its form is taken from the code
		var n, beg, end string
		if aa := e.findInstrs(fn, "invoke(sts.Binnable.AddAlloc)(p1, §)", false); len(aa) == 1 {
			n = e.Canon(aa[0].(ssa.CallInstruction).Common().Args[0])
		}
		if v := e.fieldStoreVals(fn, "payload.part", "beg"); len(v) == 1 {
			beg = v[0]
		}
		if v := e.fieldStoreVals(fn, "payload.part", "end"); len(v) == 1 {
			end = v[0]
		}
		r.Check(n != "" && beg != "" && end != "" && n == "("+end+" - "+beg+")", "R11.2", "payload.(*Bin).Add: the count given to the chunk is part.end - part.beg", e.Pos(fn.Pos()),
			"the extent of the new part and the amount the chunk's allocation advances by are different expressions: n="+shorten(n)+" beg="+shorten(beg)+" end="+shorten(end), 3)
		r.Check(beg == "invoke(sts.Binnable.GetNextAlloc)(p1)#0" && strings.Contains(end, "invoke(sts.Binnable.GetNextAlloc)(p1)#1") &&
			strings.Contains(end, "("+beg+" + ((p0.capacity + p0.fluff) - p0.bytes))"), "R11.2", "payload.(*Bin).Add: part = [next alloc begin, min(next alloc end, begin + capacity + slack - bytes))", e.Pos(fn.Pos()),
			"the part's extent is not bounded by the chunk's next allocation and the payload's free space incl. slack", 2, shorten(end))
		checks := []struct{ what, p string }{
			{"part.Binnable ← the chunk", "store(&new(payload.part).Binnable = p1)"},
			{"bin.bytes += end - beg", "store(p0.bytes = (p0.bytes + " + n + "))"},
			{"chunk.AddAlloc(end - beg)", "invoke(sts.Binnable.AddAlloc)(p1, " + n + ")"},
			{"the part is appended to the payload", "store(p0.parts = builtin(append)(p0.parts, [&new(payload.part)]))"},
		}
		cls := labeler(C("(0 < "+n+")", "positive"))
		for _, c := range checks {
			got := e.findInstrs(fn, c.p, false)
			if !r.Check(len(got) == 1, "R11.2", "payload.(*Bin).Add: "+c.what, e.Pos(fn.Pos()), "expected exactly one "+shorten(c.p)+" (the same byte count must reach the part, the payload and the chunk)", 1) {
				continue
			}
			e.Guarded(r, "R11.2", "payload.(*Bin).Add: "+c.what+" only for a positive count", fn, only(got[0]), cls,
				func(l LabelSet) bool { return l.Has("positive") }, "end - beg > 0")
		}
		for _, f := range []string{"bytes", "parts"} {
			r.Check(len(fieldStoreInstrs(fn, f)) == 1, "R11.2", "payload.(*Bin).Add: single update of bin."+f, e.Pos(fn.Pos()), "bin."+f+" is written more than once", 1)
		}
		for _, rw := range e.returnWorlds(r, "R11.2", fn, cls) {
			if rw.W.Has("ret0=true") {
				r.Check(rw.W.Has("positive"), "R11.2", "payload.(*Bin).Add: reports `added` only when bytes were added", e.InstrPos(rw.In), "Add reports success without adding bytes (the binner would drop the chunk's remainder)", 1)
			}
			if rw.W.Has("ret0=false") {
				r.Check(!rw.W.Has("positive"), "R11.2", "payload.(*Bin).Add: reports `not added` only when nothing fitted", e.InstrPos(rw.In), "Add reports failure although bytes were added", 1)
			}
		}
	}
	if fn := needFn(e, r, "R11.2", "payload.(*Bin).IsFull"); fn != nil {
		ok := false
		Instrs(fn, func(in ssa.Instruction) {
			if rt, ok2 := in.(*ssa.Return); ok2 && len(rt.Results) == 1 {
				s := e.Canon(rt.Results[0])
				if strings.Contains(s, "((p0.capacity - p0.bytes) < p0.fluff)") {
					ok = true
				}
			}
		})
		r.Check(ok, "R11.2", "payload.(*Bin).IsFull: full ⇔ free space below the slack", e.Pos(fn.Pos()), "the fullness test no longer compares capacity - bytes with the slack", 1)
	}
	if fn := needFn(e, r, "R11.2", "payload.NewBin"); fn != nil {
		v := e.fieldStoreVals(fn, "payload.Bin", "fluff")
		c := e.fieldStoreVals(fn, "payload.Bin", "capacity")
		fl, _ := e.ConstVal("payload", "binFluff")
		_ = fl
		ok := len(v) == 1 && strings.HasPrefix(v[0], "conv(int64)((conv(float64)(p0) * ") && len(c) == 1 && c[0] == "p0"
		r.Check(ok, "R11.2", "payload.NewBin: capacity = size, slack = size × binFluff", e.Pos(fn.Pos()), "the payload allowance is not (size, size×"+fl+"): "+strings.Join(append(c, v...), " | "), 2)
	}

	// ---------------------------------------------------------------- R11.3
	r.Rule("R11.3", "Split and Remove conserve bytes: Split sums end-beg of exactly the parts from n on, gives that sum to the new payload (capacity and bytes) together with parts[n:], keeps parts[:n] and subtracts the same sum from its own count; it refuses n outside 1..len-1; Remove subtracts end-beg of the very part it removes")
	e.checkSplit(r, "R11.3")
	if fn := needFn(e, r, "R11.3", "payload.(*Bin).Remove"); fn != nil {
		got := e.findInstrs(fn, "store(p0.bytes = (p0.bytes - (assert(*payload.part)(p1).end - assert(*payload.part)(p1).beg)))", false)
		r.Check(len(got) == 1, "R11.3", "payload.(*Bin).Remove: bytes -= end-beg of the part removed", e.Pos(fn.Pos()), "the payload's byte count is not reduced by the extent of the removed part", 1)
		cls := labeler(C("(p0.parts[§] == p1)", "found"), C("(0 <= phi(§))", "found"))
		if len(got) == 1 {
			e.Guarded(r, "R11.3", "payload.(*Bin).Remove: only for a part found in this payload", fn, only(got[0]), cls,
				func(l LabelSet) bool { return l.Has("found") }, "the part was found (index >= 0)")
		}
		cut := e.findInstrs(fn, "store(p0.parts = p0.parts[:(builtin(len)(p0.parts) - 1)])", false)
		r.Check(len(cut) == 1, "R11.3", "payload.(*Bin).Remove: the list shrinks by one", e.Pos(fn.Pos()), "the part list is not shortened by exactly one", 1)
	}

	// ---------------------------------------------------------------- R11.4
	r.Rule("R11.4", "the binner's view of a chunk: binnable.IsAllocated ⇔ allocated == the chunk's length; GetNextAlloc = (offset + allocated, offset + length); AddAlloc adds its argument; part.GetSlice = (beg, end-beg)")
	for _, spec := range []struct {
		fn   string
		want []string
	}{
		{"client.(*binnable).IsAllocated", []string{"(invoke(sts.Sendable.GetSlice)(p0.Sendable)#1 == p0.allocated)"}},
		{"client.(*binnable).GetNextAlloc", []string{"(invoke(sts.Sendable.GetSlice)(p0.Sendable)#0 + p0.allocated)", "(invoke(sts.Sendable.GetSlice)(p0.Sendable)#0 + invoke(sts.Sendable.GetSlice)(p0.Sendable)#1)"}},
		{"payload.(*part).GetSlice", []string{"p0.beg", "(p0.end - p0.beg)"}},
		{"queue.(*sendable).GetSlice", []string{"p0.offset", "p0.length"}},
	} {
		if fn := needFn(e, r, "R11.4", spec.fn); fn != nil {
			ok := false
			var got []string
			Instrs(fn, func(in ssa.Instruction) {
				if rt, ok2 := in.(*ssa.Return); ok2 && len(rt.Results) == len(spec.want) {
					m := true
					for i, w := range spec.want {
						s := e.Canon(rt.Results[i])
						if isBool(rt.Results[i].Type()) {
							s = e.CondStr(rt.Results[i], true)
						}
						got = append(got, s)
						if s != w {
							m = false
						}
					}
					if m {
						ok = true
					}
				}
			})
			r.Check(ok, "R11.4", spec.fn+" = "+strings.Join(spec.want, ", "), e.Pos(fn.Pos()), "returns "+strings.Join(got, ", "), 1, got...)
		}
	}
	if fn := needFn(e, r, "R11.4", "client.(*binnable).AddAlloc"); fn != nil {
		got := e.findInstrs(fn, "store(p0.allocated = (p0.allocated + p1))", false)
		r.Check(len(got) == 1, "R11.4", "client.(*binnable).AddAlloc: allocated += n", e.Pos(fn.Pos()), "AddAlloc does not add its argument", 1)
	}
	if fn := needFn(e, r, "R11.4", "queue.(*Tagged).Pop"); fn != nil {
		al := "call(queue.(*sortedFile).allocate)(§)"
		o := e.fieldStoreVals(fn, "queue.sendable", "offset")
		l := e.fieldStoreVals(fn, "queue.sendable", "length")
		ok := len(o) == 1 && len(l) == 1 && pat(al+"#0").MatchString(o[0]) && pat(al+"#1").MatchString(l[0]) && strings.TrimSuffix(o[0], "#0") == strings.TrimSuffix(l[0], "#1")
		r.Check(ok, "R11.4", "queue.(*Tagged).Pop: chunk (offset, length) ← the two results of one allocate call", e.Pos(fn.Pos()), "the chunk's extent is not what allocate handed out", 2)
	}
	// ---------------------------------------------------------------- R11.6
	r.Rule("R11.6", "a resumed file is tiled from exactly the ranges the receiver lacks: the gap scan in recover() sorts the receiver's part list by Beg, moves its position to the END of every part it examines (never to its Beg - the part itself is held), ends a gap at the next part's Beg and the tail at the file size - shared with R07.7; recoverFile.Allocate then hands out exactly those ranges (R11.1)")
	e.checkGapScan(r, "R11.6")
	// ---------------------------------------------------------------- R11.7
	e.shareRule(r, "C19", "R19.4", "R11.7", "chunks have a positive size: the queue tag's chunk size is the tag's, else the source's bin size - never 0 (a resumed file's allocator has no `0 = the rest` convention: it would hand out empty chunks for ever and the missing ranges would never be tiled)")
	// ---------------------------------------------------------------- R11.8
	r.Rule("R11.8", "a file sent again whole is sent whole: wherever the sender builds a recovered file whose single missing range starts at 0 (retry after a failed or lost validation, recovery of a failed file), the range ends at the size of the cache entry stored in the same record - not at a size taken from the polled object, which for a resumed file is the number of bytes that were to be sent")
	{
		n := 0
		for _, name := range []string{"client.(*Broker).startRetry", "client.(*Broker).recover"} {
			fn := needFn(e, r, "R11.8", name)
			if fn == nil {
				continue
			}
			cached := map[string]bool{}
			for _, v := range e.fieldStoreVals(fn, "client.recoverFile", "Cached") {
				cached["invoke(sts.Cached.GetSize)("+v+")"] = true
			}
			begs := e.fieldStoreVals(fn, "sts.ByteRange", "Beg")
			ends := e.fieldStoreVals(fn, "sts.ByteRange", "End")
			for i, b := range begs {
				if b != "0" || i >= len(ends) {
					continue
				}
				n++
				r.Check(cached[ends[i]], "R11.8", fmt.Sprintf("%s: whole-file range #%d ends at the cache entry's size", name, n), e.Pos(fn.Pos()),
					"the range {0, "+shorten(ends[i])+"} does not end at the size of a cache entry stored as the recovered file's Cached", 1, ends[i])
			}
		}
		r.Min("R11.8", "whole-file ranges built for re-sending", n, 2)
	}
	// ---------------------------------------------------------------- R11.9
	r.Rule("R11.9", "the ranges a resumed file is cut into lie inside the file: they are derived from a partial of the same hash, hence of the same size (same check as R07.11; a partial of an older, longer version gave a 300-byte file the range 100-500)")
	checkResumeSameVersion(e, r, "R11.9")
	// ---------------------------------------------------------------- R11.10
	e.shareRule(r, "C08", "R08.11", "R11.10", "what is sent again after a failure is exactly the parts the receiver lacks: the split point is the count the receiver reported - through the failed request or the recovery request - and only the split-off tail returns to the sender")
}

// checkRecoverAllocate: the allocator of a resumed file hands out exactly its
// missing ranges (shared by C11 and C07).
func (e *Engine) checkRecoverAllocate(r *Report, rule string) {
	if fn := needFn(e, r, rule, "client.(*recoverFile).Allocate"); fn != nil {
		rng := "p0.left[p0.part]"
		off := "(" + rng + ".Beg + p0.used)"
		cls := labeler(
			C("("+rng+".End <= ("+off+" + p1))", "rangeDone"),
			C("(("+off+" + p1) < "+rng+".End)", "rangeOpen"),
			IK("store(p0.used = §)", "usedReset"),
			IK("store(p0.used = §)", "usedAdvanced"),
			I("store(p0.used = 0)", "usedReset"),
			I("store(p0.used = (p0.used + p1))", "usedAdvanced"),
			I("store(p0.part = (p0.part + 1))", "nextRange"),
		)
		n := 0
		for _, rw := range e.returnWorlds(r, rule, fn, cls) {
			n++
			rt := rw.In.(*ssa.Return)
			o, l := e.Canon(rt.Results[0]), e.Canon(rt.Results[1])
			oldU, _ := e.oldValue(fn, rt.Results[0], "used")
			oldP, _ := e.oldValue(fn, rt.Results[0], "part")
			r.Check(o == off && oldU && oldP, rule, fmt.Sprintf("client.(*recoverFile).Allocate: offset = range.Beg + used (before the update) %s", rw.W.String()), e.InstrPos(rt),
				"the offset handed out is not the current range's Beg plus the bytes already used (as they were before this call): "+o, 1, o)
			if rw.W.Has("rangeDone") {
				okl := strings.Contains(l, "("+rng+".End - "+off+")")
				r.Check(rw.W.HasAll("usedReset", "nextRange") && !rw.W.Has("usedAdvanced") && okl, rule, "client.(*recoverFile).Allocate: range exhausted → length = End-offset, next range, used left at 0 "+rw.W.String(), e.InstrPos(rt),
					"when a missing range is used up the state for the next range is wrong (used must end at 0, part advance by one, length clamp to the range end): the next range would start at the wrong offset", 1, rw.W.String(), l)
			} else {
				r.Check(rw.W.Has("usedAdvanced") && !rw.W.Has("nextRange") && strings.Contains(l, "p1"), rule, "client.(*recoverFile).Allocate: inside a range → length = desired, used += desired "+rw.W.String(), e.InstrPos(rt),
					"inside a missing range the bytes handed out and the bytes accounted differ", 1, rw.W.String(), l)
			}
		}
		r.Min(rule, "return path classes of recoverFile.Allocate", n, 2)
		// the phi for the length: per-edge correctness
		Instrs(fn, func(in ssa.Instruction) {
			rt, ok := in.(*ssa.Return)
			if !ok || len(rt.Results) != 2 {
				return
			}
			if ph, ok := rt.Results[1].(*ssa.Phi); ok {
				okE := true
				var facts []string
				for i, ed := range ph.Edges {
					cv := e.Canon(ed)
					conds := e.domConds(ph.Block().Preds[i])
					if t, ok2 := ph.Block().Preds[i].Instrs[len(ph.Block().Preds[i].Instrs)-1].(*ssa.If); ok2 {
						conds = append(conds, e.CondStr(t.Cond, ph.Block().Preds[i].Succs[0] == ph.Block()))
					}
					facts = append(facts, cv+" under "+strings.Join(conds, " & "))
					switch cv {
					case "p1":
						if !hasStr(conds, "(("+off+" + p1) < "+rng+".End)") {
							okE = false
						}
					case "(" + rng + ".End - " + off + ")":
						if !hasStr(conds, "("+rng+".End <= ("+off+" + p1))") {
							okE = false
						}
						if old, _ := e.oldValue(fn, ed, "used"); !old {
							okE = false
							facts = append(facts, "clamp computed from `used` AFTER its update")
						}
					default:
						okE = false
					}
				}
				r.Check(okE, rule, "client.(*recoverFile).Allocate: length per branch (desired inside the range | End-offset at its end)", e.InstrPos(rt), "a branch returns a length that does not fit its condition", len(ph.Edges), facts...)
			}
		})
	}
}

// checkSplit: Bin.Split(n) keeps parts[:n] and hands out parts[n:] with
// exactly their bytes (shared by R11.3 and R03.7: the handed-out tail is what
// the sender transmits again after a partly accepted payload).
func (e *Engine) checkSplit(r *Report, rule string) {
	if fn := needFn(e, r, rule, "payload.(*Bin).Split"); fn != nil {
		idx := "phi((phi# + 1)|p1)"
		nb := "phi((phi# + (p0.parts[" + idx + "].end - p0.parts[" + idx + "].beg))|0)"
		nbin := "assert(*payload.Bin)(call(payload.NewBin)(" + nb + ", p0.opener, p0.renamer))"
		for _, c := range []struct{ what, p string }{
			{"new.bytes ← Σ(end-beg) over parts[n:]", "store(" + nbin + ".bytes = " + nb + ")"},
			{"new.capacity ← the same sum", "store(" + nbin + ".capacity = " + nb + ")"},
			{"new.parts ← parts[n:]", "store(" + nbin + ".parts = p0.parts[p1:])"},
			{"old.parts ← parts[:n]", "store(p0.parts = p0.parts[:p1])"},
			{"old count reduced by the same sum", "store(p0.capacity = (p0.bytes - " + nb + "))"},
			{"old.bytes ← the reduced count", "store(p0.bytes = p0.capacity)"},
		} {
			got := e.findInstrs(fn, c.p, false)
			r.Check(len(got) == 1, rule, "payload.(*Bin).Split: "+c.what, e.Pos(fn.Pos()), "expected exactly one "+shorten(c.p), 1)
		}
		// order: new.parts taken before old.parts is cut; old.capacity computed before old.bytes overwritten
		a := e.findInstrs(fn, "store("+nbin+".parts = p0.parts[p1:])", false)
		b := e.findInstrs(fn, "store(p0.parts = p0.parts[:p1])", false)
		c := e.findInstrs(fn, "store(p0.capacity = §)", false)
		d := e.findInstrs(fn, "store(p0.bytes = p0.capacity)", false)
		okOrd := len(a) == 1 && len(b) == 1 && len(c) == 1 && len(d) == 1 && precedes(a[0], b[0]) && precedes(c[0], d[0])
		r.Check(okOrd, rule, "payload.(*Bin).Split: tail taken before the head is cut; reduced count computed before it is stored", e.Pos(fn.Pos()),
			"the order of the updates makes one of them read an already overwritten field", 4)
		// the summation loop covers n..len-1: condition idx < len(parts)
		lp := e.ifEdges(fn, "("+idx+" < builtin(len)(p0.parts))")
		r.Check(len(lp) >= 1, rule, "payload.(*Bin).Split: the sum runs from n to the last part", e.Pos(fn.Pos()), "the summation loop is no longer `for i := n; i < len(parts); i++`", 1)
		Instrs(fn, func(in ssa.Instruction) {
			rt, ok := in.(*ssa.Return)
			if !ok || len(rt.Results) != 1 || e.Canon(rt.Results[0]) == "nil" || rt.Block().Comment == "recover" {
				return
			}
			conds := e.domConds(rt.Block())
			r.Check(hasStr(conds, "(1 <= p1)") && hasStr(conds, "(p1 < builtin(len)(p0.parts))"), rule, "payload.(*Bin).Split: splits only for 1 <= n < len(parts)", e.InstrPos(rt),
				"a split at 0 or at/after the end is performed", 1, conds...)
		})
	}
}
