package main

import (
	"fmt"
	"sort"
	"strings"

	"golang.org/x/tools/go/ssa"
)

// lockSummary: which mutex fields of its receiver a method acquires, directly
// or through methods it calls on the same receiver.
type lockSummary map[string]bool

var lockOps = map[string]string{
	"sync.(*RWMutex).Lock": "acq", "sync.(*RWMutex).RLock": "acq", "sync.(*Mutex).Lock": "acq",
	"sync.(*RWMutex).Unlock": "rel", "sync.(*RWMutex).RUnlock": "rel", "sync.(*Mutex).Unlock": "rel",
}

// mutexField returns F for an argument of the form &p0.F (a mutex field of the receiver / first parameter).
func (e *Engine) mutexField(v ssa.Value) string {
	s := e.Canon(v)
	if strings.HasPrefix(s, "&p0.") && !strings.ContainsAny(s[4:], ".[(") {
		return s[4:]
	}
	return ""
}

func (e *Engine) lockSummaries(pkgs ...string) map[*ssa.Function]lockSummary {
	sum := map[*ssa.Function]lockSummary{}
	var fns []*ssa.Function
	for _, p := range pkgs {
		fns = append(fns, e.FuncsIn(p)...)
	}
	for _, fn := range fns {
		sum[fn] = lockSummary{}
		Instrs(fn, func(in ssa.Instruction) {
			c, ok := in.(*ssa.Call)
			if !ok {
				return
			}
			if lockOps[e.CalleeKey(&c.Call)] == "acq" && len(c.Call.Args) == 1 {
				if f := e.mutexField(c.Call.Args[0]); f != "" {
					sum[fn][f] = true
				}
			}
		})
	}
	for changed := true; changed; {
		changed = false
		for _, fn := range fns {
			Instrs(fn, func(in ssa.Instruction) {
				c, ok := in.(*ssa.Call) // synchronous calls only: `go` and `defer` do not nest inside the caller's hold in the same way
				if !ok {
					return
				}
				cal := c.Call.StaticCallee()
				if cal == nil || sum[cal] == nil || len(c.Call.Args) == 0 || e.Canon(c.Call.Args[0]) != "p0" {
					return
				}
				for m := range sum[cal] {
					if !sum[fn][m] {
						sum[fn][m] = true
						changed = true
					}
				}
			})
		}
	}
	return sum
}

// checkNoReentrantLocking: while a method holds a mutex of its receiver it
// calls nothing (on the same receiver) that acquires that mutex again.  For a
// sync.Mutex that is a certain deadlock; for a sync.RWMutex a read lock taken
// inside a read lock blocks for ever as soon as a writer is queued in between
// - and then every user of the mutex hangs.
func (e *Engine) checkNoReentrantLocking(r *Report, rule string, minHolds int, pkgs ...string) {
	sum := e.lockSummaries(pkgs...)
	holds, lockers, examined := 0, 0, 0
	var fns []*ssa.Function
	for fn := range sum {
		fns = append(fns, fn)
	}
	sort.Slice(fns, func(i, j int) bool { return e.ShortName(fns[i]) < e.ShortName(fns[j]) })
	for _, fn := range fns {
		direct := map[string]bool{}
		Instrs(fn, func(in ssa.Instruction) {
			if c, ok := in.(*ssa.Call); ok && lockOps[e.CalleeKey(&c.Call)] == "acq" && len(c.Call.Args) == 1 {
				if f := e.mutexField(c.Call.Args[0]); f != "" {
					direct[f] = true
				}
			}
		})
		if len(direct) == 0 {
			continue
		}
		lockers++
		cls := func(ev *Event) (add, kill []string) {
			if ev.Kind != EvInstr {
				return
			}
			c, ok := ev.Instr.(*ssa.Call)
			if !ok || len(c.Call.Args) != 1 {
				return
			}
			f := e.mutexField(c.Call.Args[0])
			if f == "" {
				return
			}
			switch lockOps[e.CalleeKey(&c.Call)] {
			case "acq":
				return []string{"held:" + f}, nil
			case "rel":
				return nil, []string{"held:" + f}
			}
			return
		}
		target := func(in ssa.Instruction) bool {
			c, ok := in.(*ssa.Call)
			if !ok {
				return false
			}
			if lockOps[e.CalleeKey(&c.Call)] == "acq" && len(c.Call.Args) == 1 && e.mutexField(c.Call.Args[0]) != "" {
				return true
			}
			cal := c.Call.StaticCallee()
			return cal != nil && len(sum[cal]) > 0 && len(c.Call.Args) > 0 && e.Canon(c.Call.Args[0]) == "p0"
		}
		var sticky []string
		for f := range direct {
			sticky = append(sticky, "held:"+f)
		}
		res := e.Flow(fn, FlowOpts{Classify: cls, Target: target, Sticky: sticky})
		if res.Undecided {
			r.Bad(rule, e.ShortName(fn)+": lock states", e.Pos(fn.Pos()), "undecided: path-world cap exceeded", res.Evals)
			continue
		}
		type site struct {
			in  ssa.Instruction
			bad []string
		}
		var sites []site
		for in, ws := range res.At {
			examined++
			c := in.(*ssa.Call)
			var acquires []string
			if lockOps[e.CalleeKey(&c.Call)] == "acq" {
				acquires = []string{e.mutexField(c.Call.Args[0])}
			} else {
				for m := range sum[c.Call.StaticCallee()] {
					acquires = append(acquires, m)
				}
			}
			sort.Strings(acquires)
			var bad []string
			for _, w := range ws {
				for _, m := range acquires {
					if w.Has("held:" + m) {
						bad = append(bad, m)
					}
				}
			}
			sites = append(sites, site{in, bad})
		}
		sort.Slice(sites, func(i, j int) bool { return e.InstrPos(sites[i].in) < e.InstrPos(sites[j].in) })
		for _, s := range sites {
			c := s.in.(*ssa.Call)
			what := e.CalleeKey(&c.Call)
			held := false
			for _, w := range res.At[s.in] {
				for l := range w {
					if strings.HasPrefix(l, "held:") {
						held = true
					}
				}
			}
			if !held {
				continue
			}
			holds++
			r.Check(len(s.bad) == 0, rule, fmt.Sprintf("%s: %s while holding a lock of the receiver", e.ShortName(fn), what), e.InstrPos(s.in),
				fmt.Sprintf("%s (re)acquires %s while %s already holds it: a recursive (read) lock - it blocks for ever once a writer is waiting, and then every user of that mutex hangs", what, strings.Join(uniq(s.bad), ", "), e.ShortName(fn)), 1, uniq(s.bad)...)
		}
	}
	_ = holds
	r.Min(rule, "methods that lock a mutex of their receiver in "+strings.Join(pkgs, ", "), lockers, minHolds)
	r.Min(rule, "acquisitions and calls of acquiring methods examined in them", examined, minHolds)
}

func uniq(ss []string) []string {
	m := map[string]bool{}
	var out []string
	for _, s := range ss {
		if !m[s] {
			m[s] = true
			out = append(out, s)
		}
	}
	sort.Strings(out)
	return out
}
