package main

import (
	"fmt"
	"go/token"
	"go/types"
	"sort"
	"strings"

	"golang.org/x/tools/go/ssa"
)

func init() { register("C17", rulesC17) }

func rulesC17(e *Engine, r *Report) {
	// ---------------------------------------------------------------- R17.1
	r.Rule("R17.1", "scan filter: a node is appended to the scan result only if it is not a directory, shouldIgnore(rel, false) is false, its age - the age of the record that is appended, i.e. of the link's target for a link - measured from the scan's start time is at least MinAge, and the caller's filter accepted it (when one is installed); an ignored directory is skipped as a whole (SkipDir); Scan returns nothing under the disable marker and installs the caller's filter and the scan start time before walking")
	if fn := needFn(e, r, "R17.1", "store.(*Local).handleNode"); fn != nil {
		rel := "call(store.(*Local).getRelPath)(p0, p1)"
		file := "call(store.newLocalFile)(p1, " + rel + ", p2)"
		cls := labeler(
			C("!invoke(os.FileInfo.IsDir)(p2)", "notDir"),
			C("invoke(os.FileInfo.IsDir)(p2)", "isDir"),
			C("!call(store.(*Local).shouldIgnore)(p0, "+rel+", false)", "notIgnored"),
			C("call(store.(*Local).shouldIgnore)(p0, "+rel+", true)", "dirIgnored"),
			// the age is that of what is appended (for a link: the target's time, which is what
			// newLocalFile puts into the record), not that of the directory entry the walk met (F49)
			C("(p0.MinAge <= call(time.(Time).Sub)(p0.scanTimeStart, call(store.(*localFile).GetTime)("+file+"#0)))", "oldEnough"),
			C("(p0.MinAge <= call(time.(Time).Sub)(p0.scanTimeStart, invoke(os.FileInfo.ModTime)("+file+"#0.info)))", "oldEnough"),
			C("dyn(p0.shouldAllow)("+file+"#0)", "allowed"),
			C("(p0.shouldAllow == nil)", "noFilter"),
			C("("+file+"#1 == nil)", "fileOK"),
			C("(p2 != nil)", "haveInfo"),
			C("(p3 == nil)", "noErr"),
			C("("+rel+" != \"\")", "notRoot"),
			C("("+file+"#1 != global(filepath.SkipDir))", "errNotSkip"),
			C("(global(filepath.SkipDir) != "+file+"#1)", "errNotSkip"),
			C("!call(errors.Is)("+file+"#1, global(filepath.SkipDir))", "errNotSkip"),
			C("!call(os.IsNotExist)("+file+"#1)", "errNotGone"),
			C("!call(errors.Is)("+file+"#1, global(fs.ErrNotExist))", "errNotGone"),
		)
		n := e.Guarded(r, "R17.1", "store.(*Local).handleNode: append to the scan result", fn, e.instrMatch("store(p0.scanFiles = builtin(append)(p0.scanFiles, ["+file+"#0]))"), cls,
			func(l LabelSet) bool {
				return l.HasAll("haveInfo", "noErr", "notRoot", "notDir", "notIgnored", "oldEnough", "fileOK") && l.HasAny("allowed", "noFilter")
			}, "not a directory, not ignored, MinAge <= scanStart - mtime, filter accepted")
		r.Min("R17.1", "appends to the scan result", n, 1)
		all := e.findInstrs(fn, "store(p0.scanFiles = §)", false)
		r.Check(len(all) == 1, "R17.1", "store.(*Local).handleNode: single writer of the scan result", e.Pos(fn.Pos()), fmt.Sprintf("%d stores to scanFiles", len(all)), len(all))
		nSkip := 0
		for _, rw := range e.returnWorlds(r, "R17.1", fn, cls) {
			rt := rw.In.(*ssa.Return)
			if e.Canon(rt.Results[0]) == "global(filepath.SkipDir)" {
				nSkip++
				r.Check(rw.W.HasAll("isDir", "dirIgnored"), "R17.1", "store.(*Local).handleNode: SkipDir only for an ignored directory "+rw.W.String(), e.InstrPos(rt), "a directory is skipped without matching an ignore rule", 1)
			}
			if rv := e.Canon(rt.Results[0]); rv != "nil" && rv != "global(filepath.SkipDir)" && rw.W.HasAll("haveInfo", "noErr") {
				// an error produced while looking at a file (newLocalFile answers SkipDir for a link to a directory when links are not followed)
				r.Check(rw.W.Has("errNotGone"), "R17.1", "store.(*Local).handleNode: a node that is gone (a dangling link, a file that vanished) does not stop the scan "+rw.W.String(), e.InstrPos(rt),
					"a not-exist error of the file constructor is handed to the walk: the walk stops, Scan returns the error and NO file of the tree is returned - on every scan while the dangling link is there ("+rv+")", 1, rv)
				r.Check(rw.W.Has("errNotSkip"), "R17.1", "store.(*Local).handleNode: a file node never answers SkipDir "+rw.W.String(), e.InstrPos(rt),
					"an error of the file constructor is handed to the walk without excluding filepath.SkipDir: for a non-directory the walk abandons the rest of the containing directory, so eligible siblings are never scanned ("+rv+")", 1, rv)
			}
			if rw.W.HasAll("isDir", "dirIgnored") {
				r.Check(e.Canon(rt.Results[0]) == "global(filepath.SkipDir)", "R17.1", "store.(*Local).handleNode: an ignored directory is skipped as a whole "+rw.W.String(), e.InstrPos(rt),
					"the walk descends into an ignored (hidden / pattern-matched) directory: its files are scanned", 1)
			}
		}
		r.Min("R17.1", "SkipDir returns", nSkip, 1)
	}
	if fn := needFn(e, r, "R17.1", "store.(*Local).Scan"); fn != nil {
		dn, _ := e.ConstVal("store", "disabledName")
		cls := labeler(
			C("(call(os.Lstat)(call(filepath.Join)([p0.Root, "+dn+"]))#1 != nil)", "notDisabled"),
			C("(call(os.Lstat)(call(filepath.Join)([p0.Root, "+dn+"]))#1 == nil)", "disabled"),
			I("store(p0.shouldAllow = p1)", "filterInstalled"),
			I("store(p0.scanTimeStart = call(time.Now)())", "clockSet"),
			I("store(p0.scanFiles = nil)", "resultReset"),
		)
		n := e.Guarded(r, "R17.1", "store.(*Local).Scan: walk", fn, e.instrMatch("call(fileutil.Walk)(p0.Root, §)"), cls,
			func(l LabelSet) bool { return l.HasAll("notDisabled", "filterInstalled", "clockSet", "resultReset") },
			"no disable marker; filter, start time and empty result installed first")
		r.Min("R17.1", "walks in Scan", n, 1)
		for _, rw := range e.returnWorlds(r, "R17.1", fn, cls) {
			if rw.W.Has("disabled") {
				rt := rw.In.(*ssa.Return)
				r.Check(e.Canon(rt.Results[0]) == "nil", "R17.1", "store.(*Local).Scan: nothing is returned under the disable marker", e.InstrPos(rt), "files are returned although the directory is disabled", 1)
			}
		}
		w := e.findInstrs(fn, "call(fileutil.Walk)(p0.Root, closure(store.(*Local).handleNode$bound), §)", false)
		r.Check(len(w) == 1, "R17.1", "store.(*Local).Scan: the walk callback is handleNode", e.Pos(fn.Pos()), "the filter function is not the walk callback", 1)
	}

	// ---------------------------------------------------------------- R17.2
	r.Rule("R17.2", "ignore predicate: shouldIgnore answers false (eligible) only if the name is not hidden or hidden files are enabled, every ignore pattern was tried and none matched, and (for files, when include patterns exist) one include pattern matched")
	if fn := needFn(e, r, "R17.2", "store.(*Local).shouldIgnore"); fn != nil {
		cls := labeler(
			C("p0.IncludeHidden", "hiddenEnabled"),
			C(`(p1 == "")`, "emptyName"),
			C(`!call(strings.HasPrefix)(call(filepath.Base)(p1), ".")`, "notHidden"),
			C("(builtin(len)(p0.Ignore) <= §)", "allIgnoreTried"),
			C("p2", "isDir"),
			C("(builtin(len)(p0.Include) <= 0)", "noInclude"),
			C("call(regexp.(*Regexp).MatchString)(p0.Include[§], p1)", "included"),
			C("call(regexp.(*Regexp).MatchString)(p0.Ignore[§], p1)", "ignoreHit"),
		)
		nF := 0
		res := e.Flow(fn, FlowOpts{Classify: cls, Target: isReturn, Sticky: []string{"allIgnoreTried"}})
		for in, ws := range res.At {
			for _, w := range ws {
				if w.Has("ret0=false") {
					nF++
					ok := w.HasAny("hiddenEnabled", "emptyName", "notHidden") && w.Has("allIgnoreTried") && !w.Has("ignoreHit") && w.HasAny("isDir", "noInclude", "included")
					r.Check(ok, "R17.2", fmt.Sprintf("store.(*Local).shouldIgnore: return false b%d %s", in.Block().Index, w.String()), e.InstrPos(in),
						"a name is declared eligible although it may be hidden, match an ignore pattern, or miss every include pattern", 1, w.String())
				}
				if w.Has("ignoreHit") {
					r.Check(w.Has("ret0=true"), "R17.2", fmt.Sprintf("store.(*Local).shouldIgnore: an ignore hit answers true b%d", in.Block().Index), e.InstrPos(in), "an ignore pattern matched but the name is not ignored", 1)
				}
			}
		}
		r.Min("R17.2", "return-false path classes", nF, 3)
	}

	// ---------------------------------------------------------------- R17.3
	r.Rule("R17.3", "standard and tag-derived ignores are installed: the sender's store gets AddStandardIgnore() before it is handed to the broker; the patterns of tags whose method is not HTTP are appended to the store's Ignore list; the standard ignores are the lock extension and the disable marker")
	{
		var initFn *ssa.Function
		for _, fn := range e.FuncsIn("main") {
			if len(e.findInstrs(fn, "call(store.(*Local).AddStandardIgnore)(§)", false)) > 0 {
				initFn = fn
			}
		}
		if initFn == nil {
			r.Bad("R17.3", "main: AddStandardIgnore is called on the sender's store", "", "no function of package main installs the standard ignore patterns (lock files and the disable marker would be sent)", 1)
		} else {
			add := e.findInstrs(initFn, "call(store.(*Local).AddStandardIgnore)(§)", false)[0]
			st := e.Canon(add.(ssa.CallInstruction).Common().Args[0])
			// the same store object is the Conf.Store of the broker
			vals := e.fieldStoreVals(initFn, "client.Conf", "Store")
			r.Check(len(vals) == 1 && vals[0] == st, "R17.3", e.ShortName(initFn)+": the store given to the broker is the one with the standard ignores", e.InstrPos(add),
				"Conf.Store is not the store AddStandardIgnore was called on: "+strings.Join(vals, " | ")+" vs "+st, 2, st)
			http, _ := e.ConstVal("sts", "MethodHTTP")
			cls := labeler(C("(§.Method != "+http+")", "notHTTP"), C("(§.Pattern != nil)", "hasPattern"))
			n := e.Guarded(r, "R17.3", e.ShortName(initFn)+": tag pattern appended to the store's Ignore", initFn, e.instrMatch("store("+st+".Ignore = builtin(append)("+st+".Ignore, [§.Pattern]))"), cls,
				func(l LabelSet) bool { return l.HasAll("notHTTP", "hasPattern") }, "tag.Method != http and the tag has a pattern")
			r.Min("R17.3", "tag-derived ignore appends", n, 1)
		}
	}
	if fn := needFn(e, r, "R17.3", "store.(*Local).AddStandardIgnore"); fn != nil {
		lck, _ := e.ConstVal("fileutil", "LockExt")
		dn, _ := e.ConstVal("store", "disabledName")
		a := e.findInstrs(fn, "call(regexp.QuoteMeta)("+lck+")", false)
		b := e.findInstrs(fn, "call(regexp.QuoteMeta)("+dn+")", false)
		st := e.findInstrs(fn, "store(p0.Ignore = builtin(append)(p0.Ignore, §))", false)
		r.Check(len(a) == 1 && len(b) == 1 && len(st) == 1, "R17.3", "store.(*Local).AddStandardIgnore: lock extension and disable marker", e.Pos(fn.Pos()),
			"the standard ignore list no longer covers the lock extension and the disable marker", 3)
	}

	// ---------------------------------------------------------------- R17.4
	r.Rule("R17.4", "changed ⇔ size or mtime differ: the scan-time filter rejects empty files, accepts unknown names, and for a cached name answers `unchanged` only on paths where size and modification time are both EQUAL to the cached values (any other relation - older, newer - is a change); Store.Sync reports `unchanged` (nil) only when time, size and metadata are all equal")
	if fn := needFn(e, r, "R17.4", "client.(*Broker).includeScannedFile"); fn != nil {
		c := "invoke(sts.FileCache.Get)(p0.Conf.Cache, invoke(sts.File.GetName)(p1))"
		cls := labeler(
			C("(invoke(sts.File.GetSize)(p1) == 0)", "empty"),
			C("("+c+" == nil)", "unknown"),
			C("(invoke(sts.Cached.GetSize)("+c+") == invoke(sts.File.GetSize)(p1))", "sizeEq"),
			C("(invoke(sts.File.GetSize)(p1) == invoke(sts.Cached.GetSize)("+c+"))", "sizeEq"),
			C("(invoke(sts.Cached.GetTime)("+c+") == invoke(sts.File.GetTime)(p1))", "timeEq"),
			C("(invoke(sts.File.GetTime)(p1) == invoke(sts.Cached.GetTime)("+c+"))", "timeEq"),
			C("call(time.(Time).Equal)(invoke(sts.Cached.GetTime)("+c+"), invoke(sts.File.GetTime)(p1))", "timeEq"),
			C("call(time.(Time).Equal)(invoke(sts.File.GetTime)(p1), invoke(sts.Cached.GetTime)("+c+"))", "timeEq"),
		)
		nF, nT := 0, 0
		for _, rw := range e.returnWorlds(r, "R17.4", fn, cls) {
			if rw.W.Has("ret0=false") {
				nF++
				r.Check(rw.W.Has("empty") || rw.W.HasAll("sizeEq", "timeEq"), "R17.4", "client.(*Broker).includeScannedFile: return false "+rw.W.String(), e.InstrPos(rw.In),
					"a file is skipped by the scan although it is neither empty nor proved identical (size and mtime equal) to the cached version: a changed file would never be sent again", 1, rw.W.String())
			}
			if rw.W.Has("ret0=true") {
				nT++
				r.Check(!rw.W.Has("empty") && !rw.W.HasAll("sizeEq", "timeEq"), "R17.4", "client.(*Broker).includeScannedFile: return true "+rw.W.String(), e.InstrPos(rw.In),
					"an empty or unchanged file is queued again", 1, rw.W.String())
			}
		}
		r.Min("R17.4", "return-false path classes of the scan filter", nF, 2)
		r.Min("R17.4", "return-true path classes of the scan filter", nT, 2)
	}
	if fn := needFn(e, r, "R17.4", "store.(*Local).Sync"); fn != nil {
		f := "call(store.newLocalFile)(§)#0"
		cls := labeler(
			C("(call(store.(*localFile).GetTime)("+f+") == invoke(sts.File.GetTime)(p1))", "timeEq"),
			C("(invoke(sts.File.GetTime)(p1) == call(store.(*localFile).GetTime)("+f+"))", "timeEq"),
			C("(call(store.(*localFile).GetSize)("+f+") == invoke(sts.File.GetSize)(p1))", "sizeEq"),
			C("(invoke(sts.File.GetSize)(p1) == call(store.(*localFile).GetSize)("+f+"))", "sizeEq"),
			C("(conv(string)(call(store.(*localFile).GetMeta)("+f+")) == conv(string)(invoke(sts.File.GetMeta)(p1)))", "metaEq"),
			C("(conv(string)(invoke(sts.File.GetMeta)(p1)) == conv(string)(call(store.(*localFile).GetMeta)("+f+")))", "metaEq"),
			C("(call(os.Lstat)(invoke(sts.File.GetPath)(p1))#1 == nil)", "statOK"),
			C("("+strings.TrimSuffix(f, "#0")+"#1 == nil)", "fileOK"),
		)
		n := 0
		for _, rw := range e.returnWorlds(r, "R17.4", fn, cls) {
			rt := rw.In.(*ssa.Return)
			if len(rt.Results) != 2 {
				continue
			}
			nf, er := e.Canon(rt.Results[0]), e.Canon(rt.Results[1])
			if (nf == "nil" || rw.W.Has("ret0=nil")) && rw.W.HasAll("statOK", "fileOK") {
				n++
				r.Check(rw.W.HasAll("timeEq", "sizeEq", "metaEq"), "R17.4", "store.(*Local).Sync: `unchanged` "+rw.W.String(), e.InstrPos(rt),
					"Sync reports a file as unchanged although time, size and metadata were not all found equal", 1, rw.W.String(), nf, er)
			}
		}
		r.Min("R17.4", "`unchanged` returns of Sync", n, 1)
	}

	// ---------------------------------------------------------------- R17.6
	r.Rule("R17.6", "only hashed, cached files leave the scan: scan() returns the whole batch only when every file of it got a hash, otherwise a file is appended to the result only under a non-empty hash; every file of the batch is added to the cache (or removed from it when it vanished) before the result is returned; the hash workers write the hash of the file they were given (R01.11)")
	if fn := needFn(e, r, "R17.6", "client.(*Broker).scan"); fn != nil {
		n := 0
		seen := map[ssa.Value]bool{}
		var walk func(v ssa.Value, pred *ssa.BasicBlock, blk *ssa.BasicBlock)
		walk = func(v ssa.Value, pred *ssa.BasicBlock, blk *ssa.BasicBlock) {
			if seen[v] {
				return
			}
			seen[v] = true
			switch x := v.(type) {
			case *ssa.Phi:
				for i, ed := range x.Edges {
					walk(ed, x.Block().Preds[i], x.Block())
				}
			case *ssa.Const:
			case *ssa.Call:
				if strings.HasPrefix(e.Canon(x), "builtin(append)(") {
					n++
					conds := e.domConds(x.Block())
					r.Check(hasStr(conds, `(invoke(sts.Hashed.GetHash)(§) != "")`), "R17.6", "client.(*Broker).scan: a file is appended to the result only with a hash", e.InstrPos(x),
						"a file without a hash is queued for sending (it would be announced with an empty hash and fail validation for ever)", 1, conds...)
					walk(x.Call.Args[0], nil, nil)
				}
			default:
				// a function with a defer returns through a spilled result slot: follow the stores that reach the load
				if u, ok := v.(*ssa.UnOp); ok && u.Op == token.MUL {
					if a, ok := u.X.(*ssa.Alloc); ok && e.Canon(v) != "var(wrapped)" {
						if vals, _ := e.ReachingStores(a, u); len(vals) > 0 {
							for _, sv := range vals {
								walk(sv, nil, nil)
							}
							return
						}
					}
				}
				if e.Canon(v) == "var(wrapped)" && pred != nil {
					n++
					conds := e.domConds(pred)
					if t, ok := pred.Instrs[len(pred.Instrs)-1].(*ssa.If); ok {
						conds = append(conds, e.CondStr(t.Cond, pred.Succs[0] == blk))
					}
					r.Check(hasStr(conds, "(§#0 == builtin(len)(var(wrapped)))") || hasStr(conds, "(builtin(len)(var(wrapped)) == §#0)"), "R17.6", "client.(*Broker).scan: the whole batch is returned only when every file was hashed", e.Pos(fn.Pos()),
						"the unfiltered batch is returned although some files have no hash", 1, conds...)
				}
			}
		}
		Instrs(fn, func(in ssa.Instruction) {
			if rt, ok := in.(*ssa.Return); ok && len(rt.Results) == 1 && e.Canon(rt.Results[0]) != "nil" && rt.Block().Comment != "recover" {
				walk(rt.Results[0], nil, nil)
			}
		})
		r.Min("R17.6", "sources of the scan result", n, 2)
	}

	// ---------------------------------------------------------------- R17.8
	r.Rule("R17.8", "each sender filters with its own list: a slice-typed field of an object the sender builds (the store's Include / Ignore) that is initialised with the configuration's own slice value is never appended to - neither in the wiring function nor in a method it calls on the object -, because inherited options share one backing array across sources; lists that grow (standard ignores, non-HTTP tag patterns) must start from a copy")
	e.checkNoSharedAppend(r, "R17.8")

	// ---------------------------------------------------------------- R17.7
	r.Rule("R17.7", "the walk offers every entry: fileutil.walk lists a directory whenever the callback accepted it (nil) unless it was visited before (link loops); inside the listing loop the next entry is taken only after this one was offered to the callback, recursed into, or - when links are followed - could not be resolved; the loop is left early only with a non-nil answer that is not `SkipDir from a directory`; a callback error ends walk with nil only for `SkipDir from a directory`; Readdir asks for all entries (Readdir(-1)); Walk swallows only SkipDir")
	if fn := needFn(e, r, "R17.7", "fileutil.walk"); fn != nil {
		cb := "dyn(p3)(p0, p2, nil)"
		cls := labeler(
			C("("+cb+" != nil)", "cbErr"), C("("+cb+" == nil)", "cbOK"),
			C("invoke(os.FileInfo.IsDir)(p2)", "isDir"), C("!invoke(os.FileInfo.IsDir)(p2)", "notDir"),
			C("("+cb+" == global(filepath.SkipDir))", "cbSkip"),
			C("p4[p1]#1", "seenBefore"),
			I("call(fileutil.Readdir)(p1)", "listed"),
		)
		n := 0
		for _, rw := range e.returnWorlds(r, "R17.7", fn, cls) {
			rt := rw.In.(*ssa.Return)
			v := e.Canon(rt.Results[0])
			switch {
			case rw.W.Has("cbErr") && v == "nil":
				n++
				r.Check(rw.W.HasAll("isDir", "cbSkip"), "R17.7", "fileutil.walk: a callback error is swallowed only as SkipDir of a directory "+rw.W.String(), e.InstrPos(rt),
					"walk answers nil although the callback reported an error other than SkipDir-for-a-directory", 1, rw.W.String())
			case rw.W.Has("cbErr"):
				n++
				r.Check(v == cb, "R17.7", "fileutil.walk: the callback's error is handed up unchanged "+rw.W.String(), e.InstrPos(rt), "another value is returned: "+shorten(v), 1, v)
			case rw.W.HasAll("cbOK", "isDir"):
				n++
				r.Check(rw.W.HasAny("listed", "seenBefore"), "R17.7", "fileutil.walk: an accepted directory is listed "+rw.W.String(), e.InstrPos(rt),
					"walk returns for a directory the callback accepted without reading its entries", 1, rw.W.String())
			}
		}
		r.Min("R17.7", "return classes of fileutil.walk examined", n, 4)
		// the listing loop
		rec := e.findInstrs(fn, "call(fileutil.walk)(call(filepath.Join)([p0, §]), §, §, p3, p4)", false)
		r.Check(len(rec) == 1, "R17.7", "fileutil.walk: recursion into <path>/<entry> with the same callback and history", e.Pos(fn.Pos()), "the recursive call is not on the entry's path with the caller's callback", 1)
		if len(rec) == 1 {
			hdr, _ := innermostLoop(rec[0])
			var backs []ssa.Instruction // every back edge of the listing loop, not only those behind the recursion
			for _, p := range hdr.Preds {
				if hdr.Dominates(p) {
					backs = append(backs, p.Instrs[len(p.Instrs)-1])
				}
			}
			offered := "dyn(p3)(call(filepath.Join)([p0, §"
			recursed := "call(fileutil.walk)(call(filepath.Join)([p0, §"
			nb := 0
			for _, bi := range backs {
				b := bi.Block()
				conds := e.domConds(b)
				if t, ok := bi.(*ssa.If); ok {
					for si, pol := range []bool{true, false} {
						if b.Succs[si] == hdr && b.Succs[1-si] != hdr {
							conds = append(conds, e.CondStr(t.Cond, pol))
						}
					}
				}
				nb++
				unresolved := hasStr(conds, "(p4 != nil)") && (hasStr(conds, "(call(fileutil.cleanAbsPath)(§)#1 != nil)") || hasStr(conds, "(call(filepath.EvalSymlinks)(§)#1 != nil)"))
				ok := unresolved || hasStr(conds, "("+offered+"§") || hasStr(conds, "("+recursed+"§")
				r.Check(ok, "R17.7", fmt.Sprintf("fileutil.walk: next entry only after this one was offered, recursed into or unresolvable under link-following (b%d)", b.Index), e.InstrPos(bi),
					"an entry of the directory is passed over without being shown to the callback", 1, conds...)
			}
			r.Min("R17.7", "ways the listing loop moves to the next entry", nb, 4)
			// early exits of the loop
			ne := 0
			for _, b := range fn.Blocks {
				rt, ok := b.Instrs[len(b.Instrs)-1].(*ssa.Return)
				if !ok || b == hdr || !hdr.Dominates(b) || (len(b.Preds) == 1 && b.Preds[0] == hdr) {
					continue // not a return from inside the listing (the loop's own end is the block entered from the header)
				}
				ne++
				conds := e.domConds(b)
				v := e.Canon(rt.Results[0])
				viaCb := strings.HasPrefix(v, "dyn(p3)(call(filepath.Join)([p0, ")
				viaRec := strings.HasPrefix(v, "call(fileutil.walk)(call(filepath.Join)([p0, ")
				okc := false
				if viaCb {
					okc = hasStr(conds, "("+offered+"§ != nil)") && hasStr(conds, "("+offered+"§ != global(filepath.SkipDir))")
				}
				if viaRec {
					okc = hasStr(conds, "("+recursed+"§ != nil)")
				}
				r.Check(okc, "R17.7", fmt.Sprintf("fileutil.walk: the listing is abandoned only with the entry's own non-nil answer (b%d)", b.Index), e.InstrPos(rt),
					"the loop over a directory's entries returns early without a non-nil, non-SkipDir answer for the entry: the remaining entries are never scanned", 1, append([]string{v}, conds...)...)
			}
			r.Min("R17.7", "early exits of the listing loop", ne, 2)
			// a directory's SkipDir does not end the parent's listing: the F edge of `err != SkipDir` under IsDir goes back to the header
			skipOK := false
			for _, ed := range e.ifEdges(fn, "("+recursed+"§ == global(filepath.SkipDir))") {
				if ed.B.Succs[ed.Succ] == hdr && hasStr(e.domConds(ed.B), "invoke(os.FileInfo.IsDir)(call(os.Lstat)(§)#0)") {
					skipOK = true
				}
			}
			r.Check(skipOK, "R17.7", "fileutil.walk: SkipDir of a sub-directory continues with its siblings", e.Pos(fn.Pos()), "a skipped sub-directory ends the listing of its parent", 1)
		}
	}
	if fn := needFn(e, r, "R17.7", "fileutil.Readdir"); fn != nil {
		all := e.findInstrs(fn, "call(os.(*File).Readdir)(§, -1)", false)
		r.Check(len(all) == 1, "R17.7", "fileutil.Readdir reads all entries", e.Pos(fn.Pos()), "the directory is no longer read with Readdir(-1)", 1)
	}
	if fn := needFn(e, r, "R17.7", "fileutil.Walk"); fn != nil {
		w := e.findInstrs(fn, "call(fileutil.walk)(p0, §, §, p1, §)", false)
		r.Check(len(w) == 1, "R17.7", "fileutil.Walk starts walk at the root with the caller's callback", e.Pos(fn.Pos()), "walk is not started on the root with the callback given", 1)
	}

	// ---------------------------------------------------------------- R17.5
	r.Rule("R17.5", "changed files are dropped, not mixed: before a failed payload is sent again every part's file is re-checked with Store.Sync and removed from the payload when it changed, errored or left the cache; the retrier skips a file whose Sync reports a change")
	if fn := needFn(e, r, "R17.5", "client.(*Broker).startSend"); fn != nil {
		tx := e.findInstrs(fn, "dyn(p0.Conf.Transmitter)(§)", false)
		if len(tx) == 1 {
			_, backs := innermostLoop(tx[0])
			cls := labeler(
				I("invoke(sts.FileSource.Sync)(p0.Conf.Store, §)", "synced"),
				I("invoke(sts.Payload.Remove)(§)", "removedSome"),
			)
			// on the retry back edge the Sync loop over the parts has been passed
			res := e.Flow(fn, FlowOpts{Classify: cls, Target: anyOf(backs), Sticky: []string{"loopSeen"},
				StartAfter: tx[0]})
			_ = res
			syncs := e.findInstrs(fn, "invoke(sts.FileSource.Sync)(p0.Conf.Store, invoke(sts.FileCache.Get)(p0.Conf.Cache, invoke(sts.Binned.GetName)(§)))", false)
			r.Check(len(syncs) == 1, "R17.5", "client.(*Broker).startSend: each part's cached file is re-checked with Store.Sync before the re-send", e.Pos(fn.Pos()),
				"the retry path no longer consults Store.Sync for the parts of the failed payload", 1)
			if len(syncs) == 1 {
				sv := e.Canon(syncs[0].(ssa.Value))
				cls2 := labeler(C("("+sv+"#0 != nil)", "changed"), C("("+sv+"#1 != nil)", "changed"),
					C("(invoke(sts.FileCache.Get)(p0.Conf.Cache, §) == nil)", "gone"))
				n := e.Guarded(r, "R17.5", "client.(*Broker).startSend: payload.Remove(part)", fn, e.instrMatch("invoke(sts.Payload.Remove)(§)"), cls2,
					func(l LabelSet) bool { return l.HasAny("changed", "gone") }, "Sync reported a change/error, or the cache no longer knows the file")
				r.Min("R17.5", "removals from a payload being retried", n, 2)
				// every `changed` edge leads to a Remove before the next part
				for _, p := range []string{"(" + sv + "#0 != nil)", "(" + sv + "#1 != nil)"} {
					for _, ed := range e.ifEdges(fn, p) {
						_, lb := innermostLoop(syncs[0])
						e.GuardedFrom(r, "R17.5", "client.(*Broker).startSend: a changed part is removed ("+shorten(p)+")", fn,
							FlowOpts{Classify: labeler(I("invoke(sts.Payload.Remove)(§)", "removed")), Target: anyOf(lb), StartEdge: ed.B, StartSucc: ed.Succ, StopAtTarget: true},
							func(l LabelSet) bool { return l.Has("removed") }, "payload.Remove(part) before the next part")
					}
				}
			}
		} else {
			r.Bad("R17.5", "client.(*Broker).startSend: Transmitter call", e.Pos(fn.Pos()), "expected exactly one Transmitter call", len(tx))
		}
	}
	if fn := needFn(e, r, "R17.5", "client.(*Broker).startRetry"); fn != nil {
		syncs := e.findInstrs(fn, "invoke(sts.FileSource.Sync)(p0.Conf.Store, §)", false)
		r.Min("R17.5", "Sync calls in the retrier", len(syncs), 1)
		for _, s := range syncs {
			sv := e.Canon(s.(ssa.Value))
			cls := labeler(C("("+sv+"#0 == nil)", "same"), C("("+sv+"#1 == nil)", "statOK"))
			n := e.Guarded(r, "R17.5", "client.(*Broker).startRetry: re-queue only an unchanged file", fn, e.instrMatch("call(client.sendCh[§])(§, p0.chScanned, §)"), cls,
				func(l LabelSet) bool { return l.HasAll("same", "statOK") }, "Sync(cached) returned (nil, nil)")
			r.Min("R17.5", "re-queues in the retrier", n, 1)
		}
	}
	// ---------------------------------------------------------------- R17.9
	r.Rule("R17.9", "a tag without a method is an http tag: `matches no non-HTTP tag` is decided from tag.Method, so before the sender builds its ignore list the default (http) has reached every configured tag - the defaulting loop over conf.Tags is left only at the end of the list and stores http wherever the method is empty, and init() reads the methods after setDefaults()")
	e.checkMethodDefault(r, "R17.9")
	// ---------------------------------------------------------------- R17.10
	r.Rule("R17.10", "the cache remembers the version that was queued: when FileCache.Add meets a name it already holds, the entry takes size, modification time, metadata and hash of the file handed in - all four, on every path that returns from that branch - so that the next scan compares against the version just queued (an entry left with the old mtime makes every later scan see `changed` and queue the same version again, also after a restart)")
	if fn := needFn(e, r, "R17.10", "cache.(*JSON).add"); fn != nil {
		ent := "p0.Files[invoke(sts.Hashed.GetName)(p1)]#0"
		cls := labeler(
			C("p0.Files[invoke(sts.Hashed.GetName)(p1)]#1", "existing"),
			I("store("+ent+".Size = invoke(sts.Hashed.GetSize)(p1))", "size"),
			I("store(&new(marshal.NanoTime).Time = invoke(sts.Hashed.GetTime)(p1))", "timeVal"),
			I("store("+ent+".Time = new(marshal.NanoTime))", "time"),
			I("store("+ent+".Meta = invoke(sts.Hashed.GetMeta)(p1))", "meta"),
			I("store("+ent+".Hash = invoke(sts.Hashed.GetHash)(p1))", "hash"),
		)
		n := 0
		for _, rw := range e.returnWorlds(r, "R17.10", fn, cls) {
			if !rw.W.Has("existing") {
				continue
			}
			n++
			r.Check(rw.W.HasAll("size", "time", "timeVal", "meta", "hash"), "R17.10", "cache.(*JSON).add: an existing entry takes size, mtime, meta and hash of the new version "+rw.W.String(), e.InstrPos(rw.In),
				"a version field of the cached entry keeps the old version's value", 1, rw.W.String())
		}
		r.Min("R17.10", "returns of the existing-entry branch of add", n, 1)
	}
	// ---------------------------------------------------------------- R17.11
	r.Rule("R17.11", "a symbolic link to a file is resolved from where it is: when links are not followed newLocalFile stats the link's target - the link text as it is only when it is absolute, otherwise joined to the link's own directory (a bare relative text would be looked up in the process's working directory: the stat fails and the scan stops, or a different file of that name is queued)")
	if fn := needFn(e, r, "R17.11", "store.newLocalFile"); fn != nil {
		raw := "call(os.Readlink)(p0)#0"
		joined := "call(filepath.Join)([call(filepath.Dir)(p0), " + raw + "])"
		sts := e.findInstrs(fn, "call(os.Stat)(§)", false)
		r.Min("R17.11", "stat of the link target in newLocalFile", len(sts), 1)
		for _, in := range sts {
			arg := in.(ssa.CallInstruction).Common().Args[0]
			ok := true
			var facts []string
			var visit func(v ssa.Value, conds []string)
			visit = func(v ssa.Value, conds []string) {
				if ph, isPhi := v.(*ssa.Phi); isPhi {
					for i, ed := range ph.Edges {
						pred := ph.Block().Preds[i]
						cs := e.domConds(pred)
						if t, isIf := pred.Instrs[len(pred.Instrs)-1].(*ssa.If); isIf && pred.Succs[0] != pred.Succs[1] {
							cs = append(cs, e.CondStr(t.Cond, pred.Succs[0] == ph.Block()))
						}
						visit(ed, cs)
					}
					return
				}
				c := e.Canon(v)
				switch {
				case c == joined:
					facts = append(facts, "relative: "+c)
				case c == raw && hasStr(conds, "call(filepath.IsAbs)("+raw+")"):
					facts = append(facts, "absolute: "+c)
				default:
					ok = false
					facts = append(facts, "UNRESOLVED LINK TEXT: "+c)
				}
			}
			visit(arg, e.domConds(in.Block()))
			r.Check(ok, "R17.11", "store.newLocalFile: the link target is absolute or taken relative to the link's directory", e.InstrPos(in),
				"os.Stat is applied to the link text as written: a relative target is resolved against the process's working directory", 1, facts...)
		}
	}
	// ---------------------------------------------------------------- R17.12
	e.shareRule(r, "C02", "R02.11", "R17.12", "a changed file is sent again, not deleted: the two places that remove a confirmed source file by path (the confirmation itself, the scan's clean-up of aged confirmed files) first compare the file on disk with the cache entry; a file rewritten after it was sent or during its delete-delay stays for the next scan to queue it as a new version")
	// R17.11 (second half): what is hashed and streamed is found the same way
	if fn := needFn(e, r, "R17.11", "store.(*Local).Open"); fn != nil {
		ops := e.findInstrs(fn, "call(os.Open)(§)", false)
		r.Min("R17.11", "os.Open in the store's opener", len(ops), 1)
		for _, in := range ops {
			arg := in.(ssa.CallInstruction).Common().Args[0]
			ok := true
			var facts []string
			var visit func(v ssa.Value, conds []string, depth int)
			visit = func(v ssa.Value, conds []string, depth int) {
				if ph, isPhi := v.(*ssa.Phi); isPhi && depth < 6 {
					for i, ed := range ph.Edges {
						pred := ph.Block().Preds[i]
						cs := e.domConds(pred)
						if t, isIf := pred.Instrs[len(pred.Instrs)-1].(*ssa.If); isIf && pred.Succs[0] != pred.Succs[1] {
							cs = append(cs, e.CondStr(t.Cond, pred.Succs[0] == ph.Block()))
						}
						visit(ed, cs, depth+1)
					}
					return
				}
				c := e.Canon(v)
				switch {
				case c == "invoke(sts.File.GetPath)(p1)":
					facts = append(facts, "the file's own path")
				case strings.HasPrefix(c, "call(filepath.Join)([call(filepath.Dir)(invoke(sts.File.GetPath)(p1)), "):
					facts = append(facts, "relative link joined to the link's directory")
				case strings.HasSuffix(c, ".Link") && hasStr(conds, "call(filepath.IsAbs)(§.Link)"):
					facts = append(facts, "absolute link text")
				default:
					ok = false
					facts = append(facts, "UNRESOLVED LINK TEXT: "+c)
				}
			}
			visit(arg, e.domConds(in.Block()), 0)
			r.Check(ok, "R17.11", "store.(*Local).Open: a link is opened through its own path, an absolute target, or a target taken relative to the link's directory", e.InstrPos(in),
				"the opener opens the link text as written: a relative target is looked up in the process's working directory - the file cannot be hashed (it is never sent) or another file of that name is hashed and sent", 1, facts...)
		}
	}
	// ---------------------------------------------------------------- R17.13
	r.Rule("R17.13", "recovery filters like the scan: Store.ShouldIgnore(file) - used at start-up to drop cached entries the current configuration excludes - judges the name as a FILE (shouldIgnore(name, false)), so that include patterns apply to it exactly as they do in the scan")
	if fn := needFn(e, r, "R17.13", "store.(*Local).ShouldIgnore"); fn != nil {
		ok := false
		Instrs(fn, func(in ssa.Instruction) {
			if rt, isRet := in.(*ssa.Return); isRet && len(rt.Results) == 1 && e.Canon(rt.Results[0]) == "call(store.(*Local).shouldIgnore)(p0, invoke(sts.File.GetName)(p1), false)" {
				ok = true
			}
		})
		r.Check(ok, "R17.13", "store.(*Local).ShouldIgnore = shouldIgnore(name, isDir=false)", e.Pos(fn.Pos()), "the recovery-time filter judges a file by the directory rules (include patterns are skipped): files the configuration now excludes are re-sent after a restart", 1)
	}
	// ---------------------------------------------------------------- R17.14
	e.shareRule(r, "C02", "R02.12", "R17.14", "a changed file is sent again: a verdict about the version sent earlier does not mark the re-scanned newer version done (it would never be queued) nor delete it")
	// ---------------------------------------------------------------- R17.15
	e.shareRule(r, "C13", "R13.4", "R17.15", "an unchanged file looks unchanged after a restart: the time codec of the cache file rebuilds the modification time exactly as the store produces it (time.Unix of the same seconds and nanoseconds, no change of location) - the scan and Store.Sync compare times as values")
	// ---------------------------------------------------------------- R17.16
	e.shareRule(r, "C07", "R07.3", "R17.16", "what was sent is remembered: a cache entry is removed only for a file the store ignores, a file that does not exist, or a done file that was deleted - not on any error of Sync (the unchanged file would be found anew and sent again)")
}

// checkNoSharedAppend: a sender-private list that is appended to must not be
// the configuration's own slice - sources that omit an option inherit the
// SAME slice header (reflectutil.CopyStruct copies it), and append writes
// into the spare capacity the parser's append left behind, i.e. into the
// other sender's list (F14).  Shared by R17.8 and R19.7.
func (e *Engine) checkNoSharedAppend(r *Report, rule string) {
	n := 0
	for _, fn := range e.FuncsIn("main") {
		if fn.Parent() != nil {
			continue
		}
		Instrs(fn, func(in ssa.Instruction) {
			st, ok := in.(*ssa.Store)
			if !ok {
				return
			}
			fa, ok := st.Addr.(*ssa.FieldAddr)
			if !ok {
				return
			}
			f := fieldVar(fa.X, fa.Field)
			if f == nil {
				return
			}
			if _, isSlice := f.Type().Underlying().(*types.Slice); !isSlice {
				return
			}
			val := e.Canon(st.Val)
			if !strings.HasPrefix(val, "p0.conf.") || strings.ContainsAny(val, "([") {
				return // not the configuration's own slice value
			}
			obj := strings.TrimLeft(e.Canon(fa.X), "&")
			n++
			// appends to that field: here, or in methods called on the object here
			var where []string
			for _, cf := range WithClosures(fn) {
				for _, ap := range e.findInstrs(cf, "builtin(append)("+obj+"."+f.Name()+", §)", false) {
					where = append(where, e.InstrPos(ap))
				}
				for _, pre := range []string{"^", "&", "^&"} {
					for _, ap := range e.findInstrs(cf, "builtin(append)("+pre+obj+"."+f.Name()+", §)", false) {
						where = append(where, e.InstrPos(ap))
					}
				}
			}
			for _, s := range e.SitesIn(fn) {
				cal := s.Instr.Common().StaticCallee()
				if cal == nil || len(cal.Blocks) == 0 || len(s.Instr.Common().Args) == 0 {
					continue
				}
				if strings.TrimLeft(e.Canon(s.Instr.Common().Args[0]), "&") != obj {
					continue
				}
				for _, ap := range e.findInstrs(cal, "builtin(append)(p0."+f.Name()+", §)", false) {
					where = append(where, e.ShortName(cal)+" @"+e.InstrPos(ap))
				}
			}
			sort.Strings(where)
			r.Check(len(where) == 0, rule, fmt.Sprintf("%s: %s.%s shares the configuration's slice and is appended to", e.ShortName(fn), e.typeShort(fa.X.Type()), f.Name()), e.InstrPos(in),
				"the list is the configuration's own slice ("+val+") - shared by every source that inherits the option - and is appended to at "+strings.Join(where, ", ")+": one sender's additions overwrite another's", 1+len(where), append([]string{val}, where...)...)
		})
	}
	r.Min(rule, "per-sender slice fields initialised from the configuration's slices", n, 1)
}

// checkMethodDefault: a tag without a method is an http tag.  The sender's
// wiring puts the pattern of every tag whose method is not http on the
// store's ignore list, so the default must have reached EVERY tag before
// that: the defaulting loop over conf.Tags visits all of them (it is left
// only at the end of the list) and stores http wherever the method is empty
// (F18).  Shared by R17.9, R19.10 and R03.9.
func (e *Engine) checkMethodDefault(r *Report, rule string) {
	http, _ := e.ConstVal("sts", "MethodHTTP")
	var fn *ssa.Function
	var sto ssa.Instruction
	for _, f := range e.FuncsIn("main") {
		for _, in := range e.findInstrs(f, "store(p0.conf.Tags[§].Method = "+http+")", false) {
			fn, sto = f, in
		}
	}
	if fn == nil {
		r.Bad(rule, "main: an empty tag method is defaulted to http", "", "no function of package main defaults the method of the configured tags (tags without `method` are treated as not-http: their files are ignored)", 1)
		return
	}
	hdr, _ := innermostLoop(sto)
	if hdr == nil {
		r.Bad(rule, e.ShortName(fn)+": the method default is applied in a loop over the tags", e.InstrPos(sto), "the default is stored outside a loop over conf.Tags", 1)
		return
	}
	// the loop is over the whole list and is left only at its end
	okRange := len(e.ifEdges(fn, "(§ < builtin(len)(p0.conf.Tags))")) > 0
	early := 0
	var where []string
	for _, b := range fn.Blocks {
		if b == hdr || !hdr.Dominates(b) || !reaches(b, hdr, nil) {
			continue // not a block of the loop body
		}
		for _, s := range b.Succs {
			if s != hdr && !(hdr.Dominates(s) && reaches(s, hdr, nil)) {
				early++
				where = append(where, fmt.Sprintf("b%d→b%d", b.Index, s.Index))
			}
		}
	}
	r.Check(okRange && early == 0, rule, e.ShortName(fn)+": the defaulting loop visits every tag (left only at the end of the list)", e.Pos(hdr.Instrs[0].Pos()),
		"the loop that defaults the tag method stops early ("+strings.Join(where, ", ")+"): tags behind that point keep an empty method and are treated as not-http - their files are never sent", 1+early, where...)
	// inside an iteration: empty method ⇒ http stored before the next tag
	var backs []ssa.Instruction
	for _, p := range hdr.Preds {
		if hdr.Dominates(p) {
			backs = append(backs, p.Instrs[len(p.Instrs)-1])
		}
	}
	cls := labeler(C("(p0.conf.Tags[§].Method == \"\")", "empty"), I("store(p0.conf.Tags[§].Method = "+http+")", "defaulted"))
	nb := 0
	res := e.Flow(fn, FlowOpts{Classify: cls, Target: anyOf(backs)})
	if res.Undecided {
		r.Bad(rule, e.ShortName(fn)+": path classes", e.Pos(fn.Pos()), "undecided: path-world cap exceeded", res.Evals)
	}
	for in, ws := range res.At {
		for _, w := range ws {
			nb++
			if w.Has("empty") {
				r.Check(w.Has("defaulted"), rule, fmt.Sprintf("%s: an empty method is set to http before the next tag (b%d %s)", e.ShortName(fn), in.Block().Index, w.String()), e.InstrPos(in),
					"a tag with an empty method is passed over without the default", 1, w.String())
			}
		}
	}
	_ = cls
	r.Min(rule, "ways the defaulting loop moves to the next tag", nb, 1)
	// ... and before the ignore list is built from the methods
	if ini := e.Fn("main.(*clientApp).init"); ini != nil {
		cl := labeler(I("call(main.(*clientApp).setDefaults)(p0)", "defaulted"))
		n := e.Guarded(r, rule, "main.(*clientApp).init: tag methods are read after setDefaults", ini, e.instrMatch("store(§.Ignore = builtin(append)(§.Ignore, [§.Pattern]))"), cl,
			func(l LabelSet) bool { return l.Has("defaulted") }, "setDefaults() already ran")
		r.Min(rule, "tag-derived ignore appends in init", n, 1)
	}
}
