package main

import (
	"fmt"
	"go/types"
	"strings"

	"golang.org/x/tools/go/ssa"
)

func init() { register("C04", rulesC04) }

// fieldStoreVals lists the canonical values stored into field `field` of
// objects whose (pointer) type name ends with typeSuffix, inside fn.
func (e *Engine) fieldStoreVals(fn *ssa.Function, typeSuffix, field string) []string {
	var out []string
	Instrs(fn, func(in ssa.Instruction) {
		st, ok := in.(*ssa.Store)
		if !ok {
			return
		}
		fa, ok := st.Addr.(*ssa.FieldAddr)
		if !ok {
			return
		}
		f := fieldVar(fa.X, fa.Field)
		if f == nil || f.Name() != field {
			return
		}
		t := fa.X.Type()
		if p, ok := t.Underlying().(*types.Pointer); ok {
			t = p.Elem()
		}
		if !strings.HasSuffix(t.String(), typeSuffix) {
			return
		}
		out = append(out, e.Canon(st.Val))
	})
	return out
}

func rulesC04(e *Engine, r *Report) {
	sc := e.stageConsts(r, "R04")
	if !sc.ok {
		return
	}
	// ---------------------------------------------------------------- R04.1
	r.Rule("R04.1", "finalize (the only caller of the deliverer, R01.5) is called only on paths guarded by isFileReady(f) == true and getFileState(f.path) == validated for the same f")
	fs := e.SitesOf(pat("stage.(*Stage).finalize"), nil)
	for _, s := range fs {
		f := e.Canon(s.Instr.Common().Args[1])
		cls := labeler(
			C("call(stage.(*Stage).isFileReady)(p0, "+f+")", "ready"),
			C("(call(stage.(*Stage).getFileState)(p0, "+f+".path) == "+sc.validated+")", "validated"),
		)
		e.Guarded(r, "R04.1", e.ShortName(s.Fn)+": finalize("+shorten(f)+")", s.Fn, only(s.Instr.(ssa.Instruction)), cls,
			func(l LabelSet) bool { return l.HasAll("ready", "validated") }, "isFileReady(f) and state validated")
	}
	r.Min("R04.1", "call sites of finalize", len(fs), 1)

	// ---------------------------------------------------------------- R04.2 / R04.3
	r.Rule("R04.2", "isFileReady says yes only for a delivered predecessor: every `return true` path carries prev == \"\", prev == name, WasReceived(prev) == true, or excludes all of {unknown, received, failed, validated} for the predecessor's state")
	r.Rule("R04.3", "every `return false` path of isFileReady parks the file (toWait)")
	if fn := needFn(e, r, "R04.2", "stage.(*Stage).isFileReady"); fn != nil {
		prev := "call(filepath.Join)([p0.rootDir, p1.prev])"
		cls := both(
			labeler(
				C(`(p1.prev == "")`, "noPrev"),
				C(`(p1.name == p1.prev)`, "selfPrev"),
				C(`invoke(sts.ReceiveLogger.WasReceived)(p0.logger, p1.prev, §)`, "loggedPrev"),
				I("call(stage.(*Stage).toWait)(p0, "+prev+", p1, §)", "parked"),
			),
			CF(EvCond, "(call(stage.(*Stage).getFileState)(p0, "+prev+") != «(-?\\d+)»)", func(m []string) string { return "st!=" + m[1] }),
		)
		res := e.Flow(fn, FlowOpts{Classify: cls, Target: isReturn})
		nT, nF := 0, 0
		for in, worlds := range res.At {
			for _, w := range worlds {
				if w.Has("ret0=true") {
					nT++
					excl := w.HasAll("st!="+sc.unknown, "st!="+sc.received, "st!="+sc.failed, "st!="+sc.validated)
					r.Check(w.HasAny("noPrev", "selfPrev", "loggedPrev") || excl, "R04.2",
						fmt.Sprintf("stage.(*Stage).isFileReady: return true %s", w.String()), e.InstrPos(in),
						"a file is declared ready although its predecessor may be undelivered (unknown/received/failed/validated not excluded and not found in the log)", 1, w.String())
				} else if w.Has("ret0=false") {
					nF++
					r.Check(w.Has("parked"), "R04.3", fmt.Sprintf("stage.(*Stage).isFileReady: return false %s", w.String()), e.InstrPos(in),
						"a not-ready file is not parked", 1, w.String())
				}
			}
		}
		r.Min("R04.2", "return-true path classes", nT, 4)
		r.Min("R04.3", "return-false path classes", nF, 1)
	}

	// ---------------------------------------------------------------- R04.4
	r.Rule("R04.4", "logged before moved: in the deliverer ReceiveLogger.Received(file) - in this attempt or, shown by the `logged` stamp, in an earlier one - precedes fileutil.Move on every path; state finalized is set only on the err == nil edge of that Move")
	for _, m := range e.SitesOf(pat("fileutil.Move"), e.FuncsIn("stage")) {
		fn := m.Fn
		file := "p1"
		ls := []L{I("invoke(sts.ReceiveLogger.Received)(p0.logger, "+file+")", "logged")}
		if e.loggedStampHonest(r, "R04.4") {
			ls = append(ls, C("!call(time.(Time).IsZero)("+file+".logged)", "logged"))
		}
		cls := labeler(ls...)
		e.Guarded(r, "R04.4", e.ShortName(fn)+": fileutil.Move after log record", fn, only(m.Instr.(ssa.Instruction)), cls,
			func(l LabelSet) bool { return l.Has("logged") }, "ReceiveLogger.Received(file) already passed")
		mv := e.Canon(m.Instr.Value())
		for _, s := range e.stateSetterSites(sc.finalized) {
			cls2 := labeler(C("("+mv+" == nil)", "moved"))
			e.Guarded(r, "R04.4", e.ShortName(s.Fn)+": toCache(file, finalized)", s.Fn, only(s.Instr.(ssa.Instruction)), cls2,
				func(l LabelSet) bool { return l.Has("moved") }, "success edge of the Move")
		}
	}
	r.Min("R04.4", "sites setting state finalized", len(e.stateSetterSites(sc.finalized)), 1)

	// ---------------------------------------------------------------- R04.5
	r.Rule("R04.5", "the announced predecessor is cleared (prev = \"\") outside constructors only under `wait loop detected` (len(detectWaitLoop(..)) != 0); detectWaitLoop returns a non-nil result only on a path where a waiting file's path equals the start (a real cycle)")
	nClr := 0
	for _, fn := range e.FuncsIn("stage") {
		Instrs(fn, func(in ssa.Instruction) {
			st, ok := in.(*ssa.Store)
			if !ok {
				return
			}
			fa, ok := st.Addr.(*ssa.FieldAddr)
			if !ok {
				return
			}
			f := fieldVar(fa.X, fa.Field)
			if f == nil || f.Name() != "prev" || !strings.HasSuffix(fa.X.Type().String(), "finalFile") {
				return
			}
			if strings.Contains(e.Canon(fa.X), "new(") {
				return // composite literal (constructor)
			}
			nClr++
			cls := labeler(C("(builtin(len)(call(stage.(*Stage).detectWaitLoop)(§)) != 0)", "loop"))
			e.Guarded(r, "R04.5", e.ShortName(fn)+": store to finalFile.prev", fn, only(in), cls,
				func(l LabelSet) bool { return l.Has("loop") }, "len(detectWaitLoop(prevPath)) != 0")
		})
	}
	r.Min("R04.5", "stores to an existing file's prev", nClr, 1)
	if fn := needFn(e, r, "R04.5", "stage.(*Stage).detectWaitLoop"); fn != nil {
		cls := labeler(C("(§.path == p1)", "cycleFound"), C("(p1 == §.path)", "cycleFound"))
		res := e.Flow(fn, FlowOpts{Classify: cls, Target: isReturn})
		n := 0
		for in, worlds := range res.At {
			if in.Block().Comment == "recover" {
				continue
			}
			for _, w := range worlds {
				n++
				r.Check(w.Has("ret0=nil") || w.Has("cycleFound"), "R04.5", fmt.Sprintf("stage.(*Stage).detectWaitLoop: return @%s %s", e.InstrPos(in), w.String()), e.InstrPos(in),
					"detectWaitLoop reports a (non-nil) loop on a path where no waiting file points back to the start: the cleaner would give up the order of an acyclic chain", 1, w.String())
			}
		}
		r.Min("R04.5", "return path classes of detectWaitLoop", n, 2)
	}

	// ---------------------------------------------------------------- R04.6
	r.Rule("R04.6", "the announced predecessor survives every hand-over: each conversion between the carriers of a file's metadata copies Prev from its source")
	type hand struct{ fn, typ, field, want string }
	for _, h := range []hand{
		{"stage.(*Stage).partialToFinal", "stage.finalFile", "prev", "p1.Prev"},
		{"stage.(*Stage).partReceived", "stage.finalFile", "prev", "invoke(sts.Binned.GetPrev)(p1)"},
		{"stage.newLocalCompanion", "sts.Partial", "Prev", "p1.Prev"},
		{"stage.upgradeCompanion", "sts.Partial", "Prev", "p0.Prev"},
		{"stage.toLegacyCompanion", "stage.oldCompanion", "Prev", "p0.Prev"},
		{"payload.(*Bin).EncodeHeader", "payload.fileMeta", "Prev", "«(call|invoke)»(§.GetPrev)(p0.parts[§]§)"},
		{"http.(*Server).routeData", "sts.Partial", "Prev", "invoke(sts.Binned.GetPrev)(§)"},
		{"client.(*Broker).startRetry", "client.recoverFile", "prev", "invoke(sts.Polled.GetPrev)(§)"},
		{"client.(*Broker).startTrack", "client.progressFile", "prev", "invoke(sts.Binned.GetPrev)(§)"},
	} {
		fn := needFn(e, r, "R04.6", h.fn)
		if fn == nil {
			continue
		}
		vals := e.fieldStoreVals(fn, h.typ, h.field)
		okAll := len(vals) > 0
		re := pat(h.want)
		for _, v := range vals {
			if !re.MatchString(v) {
				okAll = false
			}
		}
		r.Check(okAll, "R04.6", h.fn+": "+h.typ+"."+h.field+" ← "+h.want, e.Pos(fn.Pos()),
			"the predecessor is not carried over (stores found: "+strings.Join(vals, " | ")+")", len(vals)+1, vals...)
	}
	// newLocalCompanion must set Prev on both branches (reused companion and fresh one)
	if fn := e.Fn("stage.newLocalCompanion"); fn != nil {
		vals := e.fieldStoreVals(fn, "sts.Partial", "Prev")
		r.Check(len(vals) >= 2, "R04.6", "stage.newLocalCompanion: Prev set on the reused and on the fresh companion", e.Pos(fn.Pos()),
			"one branch of the companion constructor loses the announced predecessor", len(vals), vals...)
	}
	e.checkRecoverKeepsPrev(r, "R04.6")
	if fn := needFn(e, r, "R04.6", "client.(*binnable).GetPrev"); fn != nil {
		ok := false
		Instrs(fn, func(in ssa.Instruction) {
			if rt, ok2 := in.(*ssa.Return); ok2 && len(rt.Results) == 1 {
				if strings.Contains(e.Canon(rt.Results[0]), "invoke(sts.Sendable.GetPrev)(p0.Sendable)") {
					ok = true
				}
			}
		})
		r.Check(ok, "R04.6", "client.(*binnable).GetPrev returns the wrapped sendable's predecessor", e.Pos(fn.Pos()), "binnable.GetPrev no longer forwards the predecessor", 1)
	}
	// ---------------------------------------------------------------- R04.7
	e.shareRule(r, "C10", "R10.3", "R04.7", "the predecessor the sender announces for a re-queued file is the one it announced before: a resumed / re-queued file (sts.Recovered) answers with its OWN stored predecessor - the type test comes first and wins over the live queue neighbour (which may be a later file of the group that transitively waits for this one: a cycle the receiver can only break by giving up the order)")
	// ---------------------------------------------------------------- R04.8
	e.shareRule(r, "C10", "R10.6", "R04.8", "after a sender restart the chain of announced predecessors continues through the files the receiver already holds: skipping such a placeholder in Pop unlinks the node BEFORE it, never the placeholder itself, so the first real file behind it still announces it")
	// ---------------------------------------------------------------- R04.9
	r.Rule("R04.9", "the predecessor a re-sent file announces is the one its current version was emitted with: in the tracker every iteration over a transmitted part that gives the progress entry a version (stores its hash - a new entry, or an entry re-based on a rewritten file) also stores the part's predecessor into it; the entry is what finish() hands to the retry stage, which re-sends `with the prev intact`")
	if fn := needFn(e, r, "R04.9", "client.(*Broker).startTrack"); fn != nil {
		hs := e.findInstrs(fn, "store(§.hash = invoke(sts.Binned.GetFileHash)(§))", false)
		r.Min("R04.9", "stores of a version's hash into a progress entry", len(hs), 2)
		if len(hs) > 0 {
			var backs []ssa.Instruction
			for _, h := range hs {
				_, bs := innermostLoop(h)
				backs = append(backs, bs...)
			}
			cls := labeler(
				I("store(§.hash = invoke(sts.Binned.GetFileHash)(§))", "versioned"),
				I("store(§.prev = invoke(sts.Binned.GetPrev)(§))", "prevSet"),
			)
			res := e.Flow(fn, FlowOpts{Classify: cls, Target: anyOf(backs)})
			e.judge(r, "R04.9", "client.(*Broker).startTrack: an entry that takes a version's hash takes its predecessor too", fn, res,
				func(l LabelSet) bool { return !l.Has("versioned") || l.Has("prevSet") }, "store of <entry>.prev = part.GetPrev() in the same iteration")
		}
	}
	// ---------------------------------------------------------------- R04.10
	r.Rule("R04.10", "recovery parks everything before it releases anything: in Recover no parked file is entered into the cache as validated after the first one was handed to the finalize chain - a predecessor that was logged but not yet moved when the receiver went down is `logged` in the refilled cache, which isFileReady takes for delivered, until Recover has re-entered it as validated")
	if fn := needFn(e, r, "R04.10", "stage.(*Stage).Recover"); fn != nil {
		starts := e.findInstrs(fn, "go call(stage.(*Stage).finalizeQueue)(p0, §)", false)
		var gos []ssa.Instruction
		Instrs(fn, func(in ssa.Instruction) {
			if g, ok := in.(*ssa.Go); ok && e.CalleeKey(g.Common()) == "stage.(*Stage).finalizeQueue" {
				gos = append(gos, in)
			}
		})
		_ = starts
		r.Min("R04.10", "hand-overs to the finalize chain in Recover", len(gos), 1)
		for i, g := range gos {
			res := e.Flow(fn, FlowOpts{StartAfter: g, Target: e.instrMatch("call(stage.(*Stage).toCache)(p0, §, " + sc.validated + ")")})
			n := 0
			for _, ws := range res.At {
				n += len(ws)
			}
			r.Check(n == 0 && !res.Undecided, "R04.10", fmt.Sprintf("stage.(*Stage).Recover: no toCache(validated) after hand-over #%d", i+1), e.InstrPos(g),
				"a parked file is entered as validated after another one was already handed to the finalize chain: the one handed over may find its predecessor still `logged` (taken for delivered) and overtake it", res.Evals)
		}
	}
	// ---------------------------------------------------------------- R04.11
	r.Rule("R04.11", "the order is given up for the cycle only: the file whose predecessor the cleaner clears is the cache entry of the very path the loop was detected for (by R04.5 that path lies on a cycle) - not whatever waits on it: a file that merely follows a member of a cycle keeps its place and is released when that member is delivered")
	if fn := needFn(e, r, "R04.11", "stage.(*Stage).cleanWaiting"); fn != nil {
		var starts []string
		for _, s := range e.SitesOf(pat("stage.(*Stage).detectWaitLoop"), []*ssa.Function{fn}) {
			starts = append(starts, e.Canon(s.Instr.Common().Args[1]))
		}
		n := 0
		Instrs(fn, func(in ssa.Instruction) {
			st, ok := in.(*ssa.Store)
			if !ok {
				return
			}
			fa, ok := st.Addr.(*ssa.FieldAddr)
			if !ok {
				return
			}
			f := fieldVar(fa.X, fa.Field)
			if f == nil || f.Name() != "prev" || !strings.HasSuffix(fa.X.Type().String(), "finalFile") {
				return
			}
			n++
			obj := e.Canon(fa.X)
			ok = false
			for _, p := range starts {
				if obj == "call(stage.(*Stage).fromCache)(p0, "+p+")" {
					ok = true
				}
			}
			r.Check(ok, "R04.11", "stage.(*Stage).cleanWaiting: the entry released is the one the loop was detected for", e.InstrPos(in),
				"the cleaner clears the predecessor of `"+shorten(obj)+"`, which is not the cache entry of the path given to detectWaitLoop: files that only wait on a cycle member lose their place with it", 1, "loop detected for: "+strings.Join(starts, ", "))
		})
		r.Min("R04.11", "predecessors cleared by the cleaner", n, 1)
	}
	// ---------------------------------------------------------------- R04.12
	e.shareRule(r, "C05", "R05.6", "R04.12", "a held file stays held: a record of the log replaces only cache entries that themselves came from the log - a validated file waiting for its predecessor must not turn into `logged`, which its successors take for delivered")
	// ---------------------------------------------------------------- R04.13
	r.Rule("R04.13", "... nor before everything still to be validated is known as such: Recover itself enters the files of its validate list as `received` (the validators do it again as they get to them), and no such entry follows the first hand-over to the finalize chain - a new version of a predecessor that was received completely before the receiver went down is `logged`, the earlier version's record, until then")
	if fn := needFn(e, r, "R04.13", "stage.(*Stage).Recover"); fn != nil {
		entries := e.findInstrs(fn, "call(stage.(*Stage).toCache)(p0, §, "+sc.received+")", false)
		r.Min("R04.13", "entries of files to be validated in Recover itself", len(entries), 1)
		i := 0
		Instrs(fn, func(in ssa.Instruction) {
			g, ok := in.(*ssa.Go)
			if !ok || e.CalleeKey(g.Common()) != "stage.(*Stage).finalizeQueue" {
				return
			}
			i++
			res := e.Flow(fn, FlowOpts{StartAfter: in, Target: e.instrMatch("call(stage.(*Stage).toCache)(p0, §, " + sc.received + ")")})
			n := 0
			for _, ws := range res.At {
				n += len(ws)
			}
			r.Check(n == 0 && !res.Undecided, "R04.13", fmt.Sprintf("stage.(*Stage).Recover: no toCache(received) after hand-over #%d", i), e.InstrPos(in),
				"a file still to be validated is entered after a parked file was already handed to the finalize chain: the parked file may find its predecessor's new version still under the old version's `logged` record", res.Evals)
		})
	}
}

// allocsOf returns the composite-literal allocations of type *T in fn.
func (e *Engine) allocsOf(fn *ssa.Function, typ string) []*ssa.Alloc {
	var out []*ssa.Alloc
	Instrs(fn, func(in ssa.Instruction) {
		if a, ok := in.(*ssa.Alloc); ok {
			if strings.HasSuffix(a.Type().(*types.Pointer).Elem().String(), typ) {
				out = append(out, a)
			}
		}
	})
	return out
}

// storesToAllocField lists canonical values stored to field `name` of alloc a.
func (e *Engine) storesToAllocField(a *ssa.Alloc, name string) []string {
	var out []string
	if a.Referrers() == nil {
		return nil
	}
	for _, ref := range *a.Referrers() {
		fa, ok := ref.(*ssa.FieldAddr)
		if !ok {
			continue
		}
		f := fieldVar(fa.X, fa.Field)
		if f == nil || f.Name() != name || fa.Referrers() == nil {
			continue
		}
		for _, rr := range *fa.Referrers() {
			if st, ok := rr.(*ssa.Store); ok && st.Addr == fa {
				out = append(out, e.Canon(st.Val))
			}
		}
	}
	return out
}

// checkRecoverKeepsPrev: files resumed after a sender restart keep the
// predecessor they had announced (it is on the receiver's partial record, not
// in the sender's cache).  Shared by R04.6 and R10.8.
func (e *Engine) checkRecoverKeepsPrev(r *Report, rule string) {
	// recover(): every recoverFile with a `left` list takes prev from the receiver's partial
	if fn := needFn(e, r, rule, "client.(*Broker).recover"); fn != nil {
		n := 0
		for _, cf := range WithClosures(fn) {
			for _, a := range e.allocsOf(cf, "client.recoverFile") {
				left := e.storesToAllocField(a, "left")
				prev := e.storesToAllocField(a, "prev")
				if len(left) == 0 {
					continue
				}
				n++
				ok := len(prev) == 1 && pat("§.Prev").MatchString(prev[0])
				r.Check(ok, rule, fmt.Sprintf("%s: recoverFile{left: …} #%d carries prev of the receiver's partial", e.ShortName(cf), n), e.InstrPos(a),
					"a resumed file loses the predecessor it had announced", 1, append([]string{"left=" + strings.Join(left, ",")}, prev...)...)
			}
		}
		r.Min(rule, "recoverFile literals with a left list in recover()", n, 2)
	}
}
