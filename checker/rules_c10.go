package main

import (
	"fmt"
	"go/types"
	"sort"
	"strings"

	"golang.org/x/tools/go/ssa"
)

func init() { register("C10", rulesC10); register("C12", rulesC12) }

// queueLockDiscipline: every function of package queue that touches Tagged's
// state either takes q.mux first (deferred unlock) or is called only from
// functions that do.
func (e *Engine) queueLockDiscipline(r *Report, rule string) {
	stateFields := map[string]bool{"byFile": true, "byGroup": true, "list": true, "headFile": true, "headGroup": true}
	touches := func(fn *ssa.Function) bool {
		t := false
		Instrs(fn, func(in ssa.Instruction) {
			if fa, ok := in.(*ssa.FieldAddr); ok {
				if f := fieldVar(fa.X, fa.Field); f != nil && stateFields[f.Name()] && strings.HasSuffix(e.typeShort(fa.X.Type()), "queue.Tagged") {
					t = true
				}
			}
		})
		return t
	}
	locked := map[*ssa.Function]bool{}
	var state []*ssa.Function
	for _, fn := range e.FuncsIn("queue") {
		if fn.Signature.Recv() == nil || !strings.HasSuffix(e.typeShort(fn.Signature.Recv().Type()), "queue.Tagged") {
			continue
		}
		if !touches(fn) {
			continue
		}
		state = append(state, fn)
		// takes the lock first?
		first, def := "", ""
		if len(fn.Blocks) > 0 {
			for _, in := range fn.Blocks[0].Instrs {
				if c, ok := in.(*ssa.Call); ok && first == "" {
					first = e.InstrStr(c)
				}
				if d, ok := in.(*ssa.Defer); ok && def == "" {
					def = e.InstrStr(d)
				}
			}
		}
		if first == "call(sync.(*Mutex).Lock)(&p0.mux)" && def == "defer call(sync.(*Mutex).Unlock)(&p0.mux)" {
			locked[fn] = true
			// ... and nothing of the queue's state is read before it: a head pointer fetched ahead of the lock is stale
			// by the time the function owns the queue
			var lockIn ssa.Instruction
			for _, in := range fn.Blocks[0].Instrs {
				if c, ok := in.(*ssa.Call); ok && lockIn == nil {
					lockIn = c
				}
			}
			early := ""
			for _, in := range fn.Blocks[0].Instrs {
				if in == lockIn {
					break
				}
				if fa, ok := in.(*ssa.FieldAddr); ok {
					if f := fieldVar(fa.X, fa.Field); f != nil && stateFields[f.Name()] {
						early = f.Name()
					}
				}
			}
			r.Check(early == "", rule, e.ShortName(fn)+": no queue state is touched before the lock is held", e.Pos(fn.Pos()),
				"q."+early+" is read before q.mux is taken: with two overlapping calls the second works from a stale value (a group is served twice in a row, or a lower-priority file is handed out while a higher-priority group is ready)", 1)
		}
	}
	// fix-point: private functions called only from locked functions
	changed := true
	for changed {
		changed = false
		for _, fn := range state {
			if locked[fn] {
				continue
			}
			callers := e.SitesOf(pat(e.ShortName(fn)), nil)
			if len(callers) == 0 {
				continue
			}
			all := true
			for _, c := range callers {
				if !locked[c.Fn] {
					all = false
				}
			}
			if all && !ast_IsExported(fn.Name()) {
				locked[fn] = true
				changed = true
			}
		}
	}
	for _, fn := range state {
		why := "takes q.mux first and defers the unlock"
		if len(fn.Blocks) > 0 {
			if c := e.findInstrs(fn, "call(sync.(*Mutex).Lock)(&p0.mux)", false); len(c) == 0 {
				why = "unexported and called only from functions that hold q.mux"
			}
		}
		r.Check(locked[fn], rule, e.ShortName(fn)+": queue state accessed under q.mux", e.Pos(fn.Pos()),
			"the queue's maps/lists/heads are accessed without the mutex held (neither taken here first nor by every caller)", 1, why)
	}
	r.Min(rule, "functions touching the queue state", len(state), 6)
	// constructor exempt: NewTagged
}

// checkLinkHelpers: the doubly linked list surgery shared by the file chain and
// the group list (shared by C10 and C12).
func (e *Engine) checkLinkHelpers(r *Report, rule string) {
	gp, gn := "invoke(queue.link.getPrev)(p0)", "invoke(queue.link.getNext)(p0)"
	nonNil := func(x string) string { return "!call(reflect.(Value).IsNil)(call(reflect.ValueOf)(" + x + "))" }
	type step struct{ what, instr, guard string }
	specs := map[string][]step{
		"queue.unlink": {
			{"prev.next ← next", "invoke(queue.link.setNext)(" + gp + ", " + gn + ")", nonNil(gp)},
			{"node.prev ← nil", "invoke(queue.link.setPrev)(p0, nil)", nonNil(gp)},
			{"next.prev ← prev", "invoke(queue.link.setPrev)(" + gn + ", " + gp + ")", nonNil(gn)},
			{"node.next ← nil", "invoke(queue.link.setNext)(p0, nil)", nonNil(gn)},
		},
		"queue.addAfter": {
			{"node.next ← prev.next", "invoke(queue.link.setNext)(p0, invoke(queue.link.getNext)(p1))", ""},
			{"node.prev ← prev", "invoke(queue.link.setPrev)(p0, p1)", ""},
			{"prev.next ← node", "invoke(queue.link.setNext)(p1, p0)", ""},
			{"old next.prev ← node", "invoke(queue.link.setPrev)(invoke(queue.link.getNext)(p1), p0)", nonNil("invoke(queue.link.getNext)(p1)")},
		},
		"queue.addBefore": {
			{"node.next ← next", "invoke(queue.link.setNext)(p0, p1)", ""},
			{"node.prev ← next.prev", "invoke(queue.link.setPrev)(p0, invoke(queue.link.getPrev)(p1))", ""},
			{"next.prev ← node", "invoke(queue.link.setPrev)(p1, p0)", ""},
			{"old prev.next ← node", "invoke(queue.link.setNext)(invoke(queue.link.getPrev)(p1), p0)", nonNil("invoke(queue.link.getPrev)(p1)")},
		},
	}
	for _, name := range []string{"queue.unlink", "queue.addAfter", "queue.addBefore"} {
		fn := needFn(e, r, rule, name)
		if fn == nil {
			continue
		}
		all := e.findInstrs(fn, "invoke(queue.link.«(setNext|setPrev)»)(§)", false)
		r.Check(len(all) == len(specs[name]), rule, name+": exactly the four pointer updates", e.Pos(fn.Pos()), fmt.Sprintf("%d pointer updates found", len(all)), len(all))
		for _, st := range specs[name] {
			got := e.findInstrs(fn, st.instr, false)
			ok := len(got) == 1
			if ok && st.guard != "" {
				ok = hasStr(e.domConds(got[0].Block()), st.guard)
			}
			r.Check(ok, rule, name+": "+st.what, e.Pos(fn.Pos()), "the link surgery lost or changed this pointer update (or its nil guard): the chain/list is left inconsistent", 1, st.instr)
		}
		// the neighbours are read once, before anything is rewired: a read repeated after a setter sees the NEW pointer
		// (canonical strings cannot tell the two reads apart - the instructions can)
		if name == "queue.unlink" {
			reads := e.findInstrs(fn, "invoke(queue.link.«(getNext|getPrev)»)(p0)", false)
			okReads := len(reads) == 2
			for _, rd := range reads {
				for _, wr := range all {
					if !precedes(rd, wr) {
						okReads = false
					}
				}
			}
			r.Check(okReads, rule, name+": both neighbours are read once, before the first pointer is rewritten", e.Pos(fn.Pos()),
				"a neighbour of the node is read (again) after one of its pointers was already cleared: the value is nil, and the other neighbour loses its link", len(reads))
		}
		// old neighbour read before it is overwritten
		if name != "queue.unlink" {
			rd := "invoke(queue.link.getNext)(p1)"
			wr := "invoke(queue.link.setNext)(p1, p0)"
			if name == "queue.addBefore" {
				rd, wr = "invoke(queue.link.getPrev)(p1)", "invoke(queue.link.setPrev)(p1, p0)"
			}
			a, b := e.findInstrs(fn, rd, false), e.findInstrs(fn, wr, false)
			r.Check(len(a) == 1 && len(b) == 1 && precedes(a[0], b[0]), rule, name+": the old neighbour is read before the anchor's pointer is overwritten", e.Pos(fn.Pos()), "the neighbour is read after it was overwritten (the node would point at itself)", 1)
		}
	}
	for name, want := range map[string][2]string{"queue.insertAfter": {"call(queue.unlink)(p0)", "call(queue.addAfter)(p0, p1)"}, "queue.insertBefore": {"call(queue.unlink)(p0)", "call(queue.addBefore)(p0, p1)"}} {
		if fn := needFn(e, r, rule, name); fn != nil {
			a, b := e.findInstrs(fn, want[0], false), e.findInstrs(fn, want[1], false)
			r.Check(len(a) == 1 && len(b) == 1 && precedes(a[0], b[0]), rule, name+": unlink, then add", e.Pos(fn.Pos()), "a node is inserted without first being taken out of its old place", 1)
		}
	}
	for _, t := range []string{"sortedFile", "sortedGroup"} {
		for _, m := range [][2]string{{"setNext", "next"}, {"setPrev", "prev"}, {"getNext", "next"}, {"getPrev", "prev"}} {
			fn := needFn(e, r, rule, "queue.(*"+t+")."+m[0])
			if fn == nil {
				continue
			}
			if strings.HasPrefix(m[0], "set") {
				vals := e.fieldStoreVals(fn, "queue."+t, m[1])
				ok := len(vals) == 2
				for _, v := range vals {
					if v != "nil" && v != "assert(*queue."+t+")(p1)#0" {
						ok = false
					}
				}
				r.Check(ok, rule, "queue.(*"+t+")."+m[0]+" stores its argument (or nil) into "+m[1], e.Pos(fn.Pos()), "the setter writes "+strings.Join(vals, " | "), 1)
			} else {
				ok := false
				Instrs(fn, func(in ssa.Instruction) {
					if rt, ok2 := in.(*ssa.Return); ok2 && len(rt.Results) == 1 && e.Canon(rt.Results[0]) == "p0."+m[1] {
						ok = true
					}
				})
				r.Check(ok, rule, "queue.(*"+t+")."+m[0]+" returns "+m[1], e.Pos(fn.Pos()), "the getter returns another field", 1)
			}
		}
	}
	if fn := needFn(e, r, rule, "queue.(*Tagged).removeFile"); fn != nil {
		hd := e.findInstrs(fn, "mapupdate(p0.headFile[p1.group.name] = p1.next)", false)
		ok := len(hd) == 1 && hasStr(e.domConds(hd[0].Block()), "(p0.headFile[p1.group.name] == p1)")
		dl := e.findInstrs(fn, "builtin(delete)(p0.byFile, invoke(sts.Hashed.GetName)(p1.orig))", false)
		r.Check(ok && len(dl) == 1, rule, "queue.(*Tagged).removeFile: head moves to the successor only when the head is removed; the file leaves the index", e.Pos(fn.Pos()), "removing a file no longer keeps head and index consistent", 2)
	}
	// the typed wrappers delegate to the helper of the SAME name with (receiver, argument)
	nw := 0
	for _, fn := range e.FuncsIn("queue") {
		recv := fn.Signature.Recv()
		if recv == nil || fn.Parent() != nil {
			continue
		}
		tn := e.typeShort(recv.Type())
		if tn != "*queue.sortedGroup" && tn != "*queue.sortedFile" {
			continue
		}
		helper := ""
		for _, h := range []string{"addAfter", "addBefore", "insertAfter", "insertBefore", "unlink"} {
			if fn.Name() == h {
				helper = h
			}
		}
		if helper == "" {
			continue
		}
		nw++
		args := "p0, p1"
		if helper == "unlink" {
			args = "p0"
		}
		calls := e.findInstrs(fn, "call(queue.«[A-Za-z]+»)(§)", false)
		ok := len(calls) == 1 && e.InstrStr(calls[0]) == "call(queue."+helper+")("+args+")"
		var got []string
		for _, c := range calls {
			got = append(got, e.InstrStr(c))
		}
		r.Check(ok, rule, e.ShortName(fn)+" delegates to "+helper+"("+args+")", e.Pos(fn.Pos()),
			"the typed wrapper calls another helper than its name says (e.g. an insert that does not unlink first leaves the old neighbours pointing at the moved node): "+strings.Join(got, "; "), 1, got...)
	}
	r.Min(rule, "typed wrappers of the link helpers", nw, 4)
}

func ast_IsExported(name string) bool { return name != "" && name[0] >= 'A' && name[0] <= 'Z' }

func rulesC10(e *Engine, r *Report) {
	// ---------------------------------------------------------------- R10.1
	r.Rule("R10.1", "every access to the queue's maps, lists and heads happens with q.mux held: Push and Pop take it first with a deferred unlock, the unexported helpers are called only from functions that hold it")
	e.queueLockDiscipline(r, "R10.1")

	// ---------------------------------------------------------------- R10.2
	r.Rule("R10.2", "order constants are all handled: every sts.Order* constant other than OrderNone is compared against in the insertion routine (an arm of its switch), OrderNone (and an unknown order) falls through to arrival order; the sender maps an empty order to FIFO before the queue tags are built")
	if fn := needFn(e, r, "R10.2", "queue.(*Tagged).addFile"); fn != nil {
		root := e.pkgByShort("sts")
		var names []string
		for _, n := range root.Types.Scope().Names() {
			if c, ok := root.Types.Scope().Lookup(n).(*types.Const); ok && strings.HasPrefix(n, "Order") {
				_ = c
				names = append(names, n)
			}
		}
		sort.Strings(names)
		r.Min("R10.2", "sts.Order* constants", len(names), 4)
		var conds []string
		for _, cf := range WithClosures(fn) {
			for _, b := range cf.Blocks {
				if len(b.Instrs) == 0 {
					continue
				}
				if t, ok := b.Instrs[len(b.Instrs)-1].(*ssa.If); ok {
					conds = append(conds, e.CondStr(t.Cond, true), e.CondStr(t.Cond, false))
				}
			}
		}
		for _, n := range names {
			v, _ := e.ConstVal("sts", n)
			if n == "OrderNone" {
				r.Ok("R10.2", "sts."+n+" = "+v+": arrival order (no matcher)", e.Pos(fn.Pos()), 1, "documented default")
				continue
			}
			found := false
			for _, c := range conds {
				if strings.HasSuffix(c, " == "+v+")") {
					found = true
				}
			}
			r.Check(found, "R10.2", "sts."+n+" = "+v+" is an arm of the insertion switch", e.Pos(fn.Pos()),
				"files of a tag configured with order "+v+" are queued in arrival order: the constant is never compared against in addFile", 1)
		}
		srch := e.findInstrs(fn, "call(sort.Search)(builtin(len)(§), §)", false)
		r.Check(len(srch) == 1, "R10.2", "queue.(*Tagged).addFile: position found by sort.Search over the group's list", e.Pos(fn.Pos()), "the insertion position is no longer computed by a binary search with the order's matcher", 1)
	}
	{
		fifo, _ := e.ConstVal("sts", "OrderFIFO")
		n := 0
		for _, fn := range e.FuncsIn("main") {
			for _, in := range e.findInstrs(fn, "store(§.Order = "+fifo+")", false) {
				n++
				conds := e.domConds(in.Block())
				r.Check(hasStr(conds, `(§.Order == "")`), "R10.2", e.ShortName(fn)+": empty order → FIFO", e.InstrPos(in), "the FIFO default is applied to tags that have an order", 1, conds...)
				// before the queue tag is built from it
				cls := labeler(I("store(§.Order = "+fifo+")", "defaulted"), C(`(§.Order != "")`, "hasOrder"))
				e.Guarded(r, "R10.2", e.ShortName(fn)+": queue.Tag.Order is read after the default was applied", fn,
					e.instrMatch("store(&new(queue.Tag).Order = §.Order)"), cls,
					func(l LabelSet) bool { return l.HasAny("defaulted", "hasOrder") }, "order non-empty or defaulted to FIFO")
			}
		}
		r.Min("R10.2", "FIFO defaults in main", n, 1)
	}

	// ---------------------------------------------------------------- R10.3
	r.Rule("R10.3", "the predecessor announced: Pop reads the chain only when the tag's order is not `none`; a resumed file (sts.Recovered) returns its own announced predecessor - the type test comes first and wins over the chain -, otherwise the previous chain node's name, otherwise none; a self reference is cleared before the chunk is returned")
	if fn := needFn(e, r, "R10.3", "queue.(*sortedFile).getPrevName"); fn != nil {
		cls := labeler(
			C("assert(sts.Recovered)(p0.orig)#1", "resumed"),
			C("!assert(sts.Recovered)(p0.orig)#1", "notResumed"),
			C("(p0.prev != nil)", "hasChainPrev"),
			C("(p0.prev == nil)", "noChainPrev"),
		)
		n := 0
		for _, rw := range e.returnWorlds(r, "R10.3", fn, cls) {
			n++
			rt := rw.In.(*ssa.Return)
			v := e.Canon(rt.Results[0])
			ok := false
			switch {
			case rw.W.Has("resumed"):
				ok = v == "invoke(sts.Recovered.GetPrev)(assert(sts.Recovered)(p0.orig)#0)"
			case rw.W.HasAll("notResumed", "hasChainPrev"):
				ok = v == "invoke(sts.Hashed.GetName)(p0.prev.orig)"
			case rw.W.HasAll("notResumed", "noChainPrev"):
				ok = v == `""`
			}
			r.Check(ok, "R10.3", fmt.Sprintf("queue.(*sortedFile).getPrevName: return b%d %s", rt.Block().Index, rw.W.String()), e.InstrPos(rt),
				"the predecessor announced for this case is "+v+": a resumed file must announce the predecessor it announced before (its own), any other file the previous chain node", 1, v)
		}
		r.Min("R10.3", "return path classes of getPrevName", n, 3)
	}
	if fn := needFn(e, r, "R10.3", "queue.(*Tagged).Pop"); fn != nil {
		none, _ := e.ConstVal("sts", "OrderNone")
		cls := labeler(C("(§.group.conf.Order != "+none+")", "ordered"))
		n := e.Guarded(r, "R10.3", "queue.(*Tagged).Pop: chain read only for ordered tags", fn, e.instrMatch("call(queue.(*sortedFile).getPrevName)(§)"), cls,
			func(l LabelSet) bool { return l.Has("ordered") }, "tag order != none")
		r.Min("R10.3", "reads of the chain in Pop", n, 1)
		// the chunk's prev: "" or getPrevName(next) of the file served
		var pv []string
		for _, st := range e.fieldStoresIn(fn, "queue.sendable", "prev") {
			pv = append(pv, st.val)
		}
		okp := len(pv) == 2
		for _, v := range pv {
			if !(v == `""` || pat(`phi(""|call(queue.(*sortedFile).getPrevName)(§))`).MatchString(v)) {
				okp = false
			}
		}
		r.Check(okp, "R10.3", "queue.(*Tagged).Pop: chunk.prev ← \"\" | getPrevName(file served)", e.Pos(fn.Pos()), "the announced predecessor comes from elsewhere: "+strings.Join(pv, " | "), len(pv), pv...)
		// self reference cleared: at return, not (prev == own name)
		cls2 := labeler(
			C(`(&new(queue.sendable).prev == invoke(sts.Hashed.GetName)(&new(queue.sendable).Hashed))`, "selfRef"),
			I(`store(&new(queue.sendable).prev = "")`, "cleared"),
		)
		nr := 0
		for _, rw := range e.returnWorlds(r, "R10.3", fn, cls2) {
			rt := rw.In.(*ssa.Return)
			if e.Canon(rt.Results[0]) == "nil" {
				continue
			}
			nr++
			r.Check(!rw.W.Has("selfRef") || rw.W.Has("cleared"), "R10.3", fmt.Sprintf("queue.(*Tagged).Pop: a self reference is cleared b%d %s", rt.Block().Index, rw.W.String()), e.InstrPos(rt),
				"a chunk can be returned naming its own file as predecessor (the receiver would hold it for ever)", 1)
		}
		r.Min("R10.3", "chunk-returning path classes", nr, 2)
		selfTest := e.ifEdges(fn, `(&new(queue.sendable).prev == invoke(sts.Hashed.GetName)(&new(queue.sendable).Hashed))`)
		r.Min("R10.3", "self-reference tests in Pop", len(selfTest), 1)
		// the file served is the one allocated from
		al := e.findInstrs(fn, "call(queue.(*sortedFile).allocate)(§, §.conf.ChunkSize)", false)
		r.Check(len(al) == 1, "R10.3", "queue.(*Tagged).Pop: one allocation per Pop, with the group's chunk size", e.Pos(fn.Pos()), "Pop does not allocate exactly one chunk of the tag's chunk size", 1)
	}

	// ---------------------------------------------------------------- R10.4
	r.Rule("R10.4", "the binner drops the predecessor only for tags without order: binnable.GetPrev returns \"\" only under noPrev and otherwise forwards the sendable's predecessor; noPrev is set from the tag (no tag, or !InOrder)")
	if fn := needFn(e, r, "R10.4", "client.(*binnable).GetPrev"); fn != nil {
		cls := labeler(C("p0.noPrev", "noPrev"), C("!p0.noPrev", "keepPrev"))
		n := 0
		for _, rw := range e.returnWorlds(r, "R10.4", fn, cls) {
			n++
			rt := rw.In.(*ssa.Return)
			v := e.Canon(rt.Results[0])
			ok := (rw.W.Has("noPrev") && v == `""`) || (rw.W.Has("keepPrev") && v == "invoke(sts.Sendable.GetPrev)(p0.Sendable)")
			r.Check(ok, "R10.4", fmt.Sprintf("client.(*binnable).GetPrev: return b%d %s", rt.Block().Index, rw.W.String()), e.InstrPos(rt), "the predecessor is dropped (or invented) for the wrong case: "+v, 1, v)
		}
		r.Min("R10.4", "return path classes of binnable.GetPrev", n, 2)
	}
	if fn := needFn(e, r, "R10.4", "client.(*Broker).startBin"); fn != nil {
		vals := e.fieldStoreVals(fn, "client.binnable", "noPrev")
		ok := len(vals) == 1 && pat("phi(!p0.tagMap[dyn(p0.Conf.Tagger)(§)].InOrder|true)").MatchString(vals[0])
		r.Check(ok, "R10.4", "client.(*Broker).startBin: noPrev ← (tag == nil || !tag.InOrder)", e.Pos(fn.Pos()), "noPrev is not derived from the tag's InOrder flag: "+strings.Join(vals, " | "), 1, vals...)
	}

	// ---------------------------------------------------------------- R10.5
	r.Rule("R10.5", "chain maintenance on completion: when the file served becomes fully allocated it leaves the index (removeFile) and the group list, everything before it in the chain is unlinked, and if the group has no other file it stays as head (placeholder) so that the next arrival chains after it")
	if fn := needFn(e, r, "R10.5", "queue.(*Tagged).Pop"); fn != nil {
		served := "phi(phi(nil|§"
		cls := labeler(
			C("call(queue.(*sortedFile).isAllocated)("+served+")", "done"),
			I("call(queue.(*Tagged).removeFile)(p0, "+served+")", "deindexed"),
			I("mapupdate(p0.list[§.group.name] = p0.list[§.group.name][1:])", "delisted"),
			C("("+served+".prev == nil)", "predecessorsUnlinked"),
			C("(p0.headFile[§.group.name] == nil)", "groupEmpty"),
			C("(p0.headFile[§.group.name] != nil)", "groupHasMore"),
			I("mapupdate(p0.headFile[§.group.name] = "+served+")", "keptAsHead"),
		)
		n := 0
		for _, rw := range e.returnWorlds(r, "R10.5", fn, cls) {
			if !rw.W.Has("done") {
				continue
			}
			n++
			ok := rw.W.HasAll("deindexed", "delisted", "predecessorsUnlinked") && (rw.W.Has("groupHasMore") || rw.W.HasAll("groupEmpty", "keptAsHead"))
			r.Check(ok, "R10.5", fmt.Sprintf("queue.(*Tagged).Pop: completion bookkeeping b%d %s", rw.In.Block().Index, rw.W.String()), e.InstrPos(rw.In),
				"a fully allocated file is returned without leaving index and list, with predecessors still linked, or without staying as chain head of an otherwise empty group", 1, rw.W.String())
		}
		r.Min("R10.5", "completion path classes", n, 2)
	}
	// ---------------------------------------------------------------- R10.6
	r.Rule("R10.6", "skipping already-handled placeholders keeps the chain: in Pop's skip loop the node that is unlinked is the predecessor of the placeholder being skipped, read from that placeholder BEFORE the scan moves on (so the last placeholder stays in the chain as predecessor of the first real file); the placeholder leaves the index, the group list is cut by the number skipped, and the head file of a group is never skipped")
	if fn := needFn(e, r, "R10.6", "queue.(*Tagged).Pop"); fn != nil {
		var cur string
		n := 0
		for _, in := range e.findInstrs(fn, "call(queue.(*Tagged).removeFile)(p0, phi(p0.headFile[§]|phi#.next))", false) {
			n++
			cur = e.Canon(in.(ssa.CallInstruction).Common().Args[1])
			hdr, _ := innermostLoop(in)
			ul := e.findInstrs(fn, "call(queue.(*sortedFile).unlink)(§)", false)
			found := false
			for _, u := range ul {
				h2, _ := innermostLoop(u)
				if h2 != hdr || hdr == nil {
					continue
				}
				found = true
				arg := e.Canon(u.(ssa.CallInstruction).Common().Args[0])
				r.Check(arg == cur+".prev", "R10.6", "queue.(*Tagged).Pop: the skip loop unlinks the skipped placeholder's predecessor", e.InstrPos(u),
					"the skip loop unlinks "+arg+" instead of the predecessor of the placeholder it is skipping ("+cur+".prev): the placeholder itself drops out of the chain and the next real file announces no (or an older) predecessor", 1, arg)
				r.Check(hasStr(e.domConds(u.Block()), "("+cur+".prev != nil)"), "R10.6", "queue.(*Tagged).Pop: unlink only an existing predecessor", e.InstrPos(u), "unlink is called without the nil test", 1)
			}
			r.Check(found, "R10.6", "queue.(*Tagged).Pop: the skip loop trims the chain behind the placeholder", e.InstrPos(in), "nothing is unlinked while placeholders are skipped (the chain grows without bound) or the unlink left the loop", 1)
			conds := e.domConds(in.Block())
			r.Check(hasStr(conds, "call(queue.(*sortedFile).isAllocated)("+cur+")") && hasStr(conds, "("+cur+".next != nil)"), "R10.6", "queue.(*Tagged).Pop: only a fully allocated file that has a successor is skipped", e.InstrPos(in),
				"a file is dropped from the index although it is not fully allocated, or although it is the head that must stay", 1, conds...)
		}
		r.Min("R10.6", "placeholder removals in the skip loop", n, 1)
		cut := e.findInstrs(fn, "mapupdate(p0.list[§.name] = p0.list[§.name][phi((phi# + 1)|0):])", false)
		r.Check(len(cut) == 1, "R10.6", "queue.(*Tagged).Pop: the group list is cut by the number of placeholders skipped", e.Pos(fn.Pos()), "the sorted list and the chain get out of step after skipping placeholders", 1)
	}
	r.Rule("R10.7", "chain surgery: unlink/addAfter/addBefore perform exactly their four pointer updates under the right nil guards (the old neighbour is read before it is overwritten), insert = unlink then add, the setters/getters touch the like-named pointer, removeFile keeps head and index consistent")
	e.checkLinkHelpers(r, "R10.7")
	// ---------------------------------------------------------------- R10.8
	r.Rule("R10.8", "files resumed after a restart keep the predecessor they had announced: every recoverFile that recover() builds with a list of missing ranges takes its predecessor from the receiver's partial record (the sender's cache does not store it, and a polled object built from the cache has none) - shared with R04.6")
	e.checkRecoverKeepsPrev(r, "R10.8")
	// ---------------------------------------------------------------- R10.9
	e.shareRule(r, "C19", "R19.5", "R10.9", "a group is ordered by its own tag: the tagger main hands to the queue answers a group name - which the grouper makes the tag's own name when group-by yields nothing - with that tag, not with the default tag whose order and predecessor policy differ")
	// ---------------------------------------------------------------- R10.10
	r.Rule("R10.10", "the place holder survives both ways a head can go: (a) removeFile moves the head exactly to the successor (nil when there is none) - Pop relies on that nil to install the file it has just completed as the new place holder, the one the next file announces; (b) when Push takes out an earlier instance of a name that was the only file left of its group, the completed file before it - read before the instance is unlinked - goes back to the head, so that the new instance still announces it")
	if fn := needFn(e, r, "R10.10", "queue.(*Tagged).removeFile"); fn != nil {
		n := 0
		Instrs(fn, func(in ssa.Instruction) {
			mu, ok := in.(*ssa.MapUpdate)
			if !ok || !strings.HasPrefix(e.Canon(mu.Map), "p0.headFile") {
				return
			}
			n++
			v := e.Canon(mu.Value)
			r.Check(v == "p1.next", "R10.10", "queue.(*Tagged).removeFile: the head moves to the successor, nil when there is none", e.InstrPos(in),
				"removeFile replaces the head by `"+v+"`: Pop takes a nil head after it as the sign to install the file just completed as the place holder - with anything else there the next file announces an older predecessor", 1, v)
		})
		r.Min("R10.10", "head replacements in removeFile", n, 1)
	}
	if fn := needFn(e, r, "R10.10", "queue.(*Tagged).Push"); fn != nil {
		rms := e.findInstrs(fn, "call(queue.(*Tagged).removeFile)(p0, §)", false)
		r.Min("R10.10", "removals of an earlier instance in Push", len(rms), 1)
		for _, rm := range rms {
			orig := e.Canon(rm.(*ssa.Call).Call.Args[1])
			cls := labeler(
				I("mapupdate(p0.headFile[§] = "+orig+".prev)", "restored"),
				C("(p0.headFile[§] != nil)", "hasHead"),
			)
			unl := e.instrMatch("call(queue.(*sortedFile).unlink)(" + orig + ")")
			res := e.Flow(fn, FlowOpts{Classify: cls, StartAfter: rm, Target: unl, StopAtTarget: true})
			nn := e.judge(r, "R10.10", "queue.(*Tagged).Push: between removing the earlier instance and unlinking it the head is kept or handed back to the node before", fn, res,
				func(l LabelSet) bool { return l.HasAny("restored", "hasHead") }, "headFile[group] != nil, or headFile[group] = orig.prev")
			r.Min("R10.10", "paths from removeFile to unlink in Push", nn, 1)
			// the node before is read while the instance is still linked
			okOrder := false
			Instrs(fn, func(in ssa.Instruction) {
				if mu, ok := in.(*ssa.MapUpdate); ok && e.Canon(mu.Value) == orig+".prev" {
					if ld, ok := mu.Value.(*ssa.UnOp); ok {
						if ld.Block() == rm.Block() && indexIn(ld.Block(), ld) < indexIn(rm.Block(), rm) || (ld.Block() != rm.Block() && ld.Block().Dominates(rm.Block())) {
							okOrder = true
						}
					}
				}
			})
			r.Check(okOrder, "R10.10", "queue.(*Tagged).Push: the node before is read before the instance is taken out", e.InstrPos(rm),
				"orig.prev is read after removeFile/unlink: by then it is nil", 1)
		}
	}
	// ---------------------------------------------------------------- R10.11
	r.Rule("R10.11", "the time order is the order of the times: in the comparator addFile searches with for oldest-first / newest-first tags the name decides only between files whose modification times are equal as times (time.Time.Equal of the two GetTime() values) - not equal to the second, which would let the name overrule up to a second of real difference")
	if top := needFn(e, r, "R10.11", "queue.(*Tagged).addFile"); top != nil {
		n := 0
		for _, fn := range WithClosures(top) {
			if fn == top {
				continue
			}
			names := e.findInstrs(fn, "invoke(sts.Hashed.GetName)(§)", false)
			if len(names) == 0 || len(e.findInstrs(fn, "invoke(sts.Hashed.GetTime)(§)", false)) == 0 {
				continue
			}
			n++
			cls := labeler(C("call(time.(Time).Equal)(invoke(sts.Hashed.GetTime)(§), invoke(sts.Hashed.GetTime)(§))", "sameTime"))
			e.Guarded(r, "R10.11", e.ShortName(fn)+": the names are compared only for equal times", fn, only(names[0]), cls,
				func(l LabelSet) bool { return l.Has("sameTime") }, "t0.Equal(t1) of the two files' GetTime()")
		}
		r.Min("R10.11", "time comparators in addFile", n, 1)
	}
}

func rulesC12(e *Engine, r *Report) {
	// ---------------------------------------------------------------- R12.1 / R12.2
	r.Rule("R12.1", "every path of Pop that returns a chunk has rotated the group it serves (delayGroup(g) for the very g whose file is allocated), and the scan starts at the head group and only moves to g.next")
	r.Rule("R12.2", "rotation happens only for the group that is served: delayGroup(g) is reached only when g has an unallocated file that is not withheld by the last-file delay; after the rotation the scan stops (no further group is examined); the last-file-delay arm moves on to the next group without rotating and without returning")
	if fn := needFn(e, r, "R12.1", "queue.(*Tagged).Pop"); fn != nil {
		g := "phi(p0.headGroup|phi#.next)"
		cls := labeler(
			I("call(queue.(*Tagged).delayGroup)(p0, "+g+")", "rotated"),
			C("!call(queue.(*sortedFile).isAllocated)(§)", "hasFile"),
			C("("+g+".conf.LastDelay <= 0)", "noLastDelay"),
			C("(phi(nil|§).next != nil)", "notLast"),
			C("("+g+".conf.LastDelay <= call(time.Since)(§))", "oldEnough"),
			C("(call(time.Since)(§) < "+g+".conf.LastDelay)", "withheld"),
		)
		nr := 0
		res := e.Flow(fn, FlowOpts{Classify: cls, Target: isReturn, Sticky: []string{"rotated"}})
		for in, ws := range res.At {
			rt := in.(*ssa.Return)
			if in.Block().Comment == "recover" || e.Canon(rt.Results[0]) == "nil" {
				continue
			}
			for _, w := range ws {
				nr++
				r.Check(w.Has("rotated"), "R12.1", fmt.Sprintf("queue.(*Tagged).Pop: chunk returned after rotating its group b%d %s", in.Block().Index, w.String()), e.InstrPos(in),
					"a chunk is emitted without moving its group behind the other groups of the same priority: that group is served again next time (starvation of its peers)", 1, w.String())
			}
		}
		r.Min("R12.1", "chunk-returning path classes", nr, 1)
		// allocation from the group that was rotated
		al := e.findInstrs(fn, "call(queue.(*sortedFile).allocate)(§, "+g+".conf.ChunkSize)", false)
		r.Check(len(al) == 1, "R12.1", "queue.(*Tagged).Pop: the chunk is cut with the served group's chunk size", e.Pos(fn.Pos()), "allocation does not use the group the scan stopped at", 1)
		// scan starts at head, moves by .next only: the group phi has exactly these leaves
		var gphi *ssa.Phi
		Instrs(fn, func(in ssa.Instruction) {
			if ph, ok := in.(*ssa.Phi); ok && e.Canon(ph) == g {
				gphi = ph
			}
		})
		r.Check(gphi != nil, "R12.1", "queue.(*Tagged).Pop: scan position = head group, then .next", e.Pos(fn.Pos()), "the group scan no longer starts at q.headGroup and advances by .next only", 1, g)

		n := e.Guarded(r, "R12.2", "queue.(*Tagged).Pop: delayGroup(g) only for the group being served", fn, e.instrMatch("call(queue.(*Tagged).delayGroup)(§)"), cls,
			func(l LabelSet) bool {
				return l.Has("hasFile") && !l.Has("withheld") && l.HasAny("noLastDelay", "notLast", "oldEnough")
			}, "g has an unallocated file and it is not withheld (no last-delay | not the last file | old enough)")
		r.Min("R12.2", "rotations in Pop", n, 1)
		for _, in := range e.findInstrs(fn, "call(queue.(*Tagged).delayGroup)(§)", false) {
			_, backs := innermostLoop(in)
			if len(backs) == 0 {
				// the call sits after the loop's break: fine
				r.Ok("R12.2", "queue.(*Tagged).Pop: the scan stops after the rotation", e.InstrPos(in), 1, "rotation is followed by the exit of the group loop")
				continue
			}
			res := e.Flow(fn, FlowOpts{StartAfter: in, Target: anyOf(backs), StopAtTarget: true})
			cnt := 0
			for _, ws := range res.At {
				cnt += len(ws)
			}
			r.Check(cnt == 0, "R12.2", "queue.(*Tagged).Pop: the scan stops after the rotation", e.InstrPos(in),
				"after rotating a group the scan goes on to the next group: the rotated group was not served, and groups standing behind it are skipped", res.Evals)
		}
		// the withheld arm never returns a chunk of that group and never returns nil directly
		for _, ed := range e.ifEdges(fn, "(call(time.Since)(§) < "+g+".conf.LastDelay)") {
			res := e.Flow(fn, FlowOpts{Classify: cls, StartEdge: ed.B, StartSucc: ed.Succ, Target: func(in ssa.Instruction) bool {
				_, isRet := in.(*ssa.Return)
				if isRet {
					return true
				}
				return e.instrMatch("call(queue.(*Tagged).delayGroup)(§)")(in) || (in.Block() != ed.B && len(in.Block().Instrs) > 0 && in == in.Block().Instrs[0] && in.Block() == gphiBlock(gphi))
			}, StopAtTarget: true})
			okArm := true
			for in := range res.At {
				if _, isRet := in.(*ssa.Return); isRet {
					okArm = false
				}
				if _, isCall := in.(*ssa.Call); isCall {
					okArm = false
				}
			}
			r.Check(okArm && len(res.At) > 0, "R12.2", "queue.(*Tagged).Pop: a withheld last file passes the turn to the next group", e.Pos(fn.Pos()),
				"the last-file-delay arm returns or rotates instead of continuing the scan with the next group (a waiting group would block or skip the others)", res.Evals)
		}
	}

	// ---------------------------------------------------------------- R12.3
	r.Rule("R12.3", "priority order of the group list: a new group is inserted before the first group of strictly lower priority (else appended after the last); the head pointer follows an insertion in front of the head; rotation moves a group behind the last group of the SAME priority and never across a priority boundary")
	if fn := needFn(e, r, "R12.3", "queue.(*Tagged).addGroup"); fn != nil {
		g := "phi(p0.headGroup|phi#.next)"
		cls := labeler(
			C("("+g+".conf.Priority < p1.conf.Priority)", "lowerFound"),
			C("("+g+".next == nil)", "atEnd"),
			C("(p1.conf.Priority <= "+g+".conf.Priority)", "notLower"),
		)
		n := e.Guarded(r, "R12.3", "queue.(*Tagged).addGroup: addBefore(g)", fn, e.instrMatch("call(queue.(*sortedGroup).addBefore)(p1, "+g+")"), cls,
			func(l LabelSet) bool { return l.Has("lowerFound") }, "g has strictly lower priority than the new group")
		n += e.Guarded(r, "R12.3", "queue.(*Tagged).addGroup: addAfter(g)", fn, e.instrMatch("call(queue.(*sortedGroup).addAfter)(p1, "+g+")"), cls,
			func(l LabelSet) bool { return l.HasAll("notLower", "atEnd") }, "g is the last group and not of lower priority")
		r.Min("R12.3", "insertions in addGroup", n, 2)
		hd := e.findInstrs(fn, "store(p0.headGroup = p1)", false)
		r.Min("R12.3", "head updates in addGroup", len(hd), 2)
		for i, in := range hd {
			conds := e.domConds(in.Block())
			ok := hasStr(conds, "(p0.headGroup == nil)") || hasStr(conds, "("+g+" == p0.headGroup)") || hasStr(conds, "(p0.headGroup == "+g+")")
			r.Check(ok, "R12.3", fmt.Sprintf("queue.(*Tagged).addGroup: head update #%d", i+1), e.InstrPos(in), "the head pointer is moved although the new group was not inserted in front of the head", 1, conds...)
		}
	}
	if fn := needFn(e, r, "R12.3", "queue.(*Tagged).delayGroup"); fn != nil {
		// the walk continues only while the next group has the same priority
		n := 0
		for _, b := range fn.Blocks {
			for _, s := range b.Succs {
				if s.Dominates(b) && s != b {
					n++
					conds := e.domConds(b)
					if t, ok := b.Instrs[len(b.Instrs)-1].(*ssa.If); ok {
						conds = append(conds, e.CondStr(t.Cond, b.Succs[0] == s))
					}
					r.Check(hasStr(conds, "(§.next.conf.Priority == p1.conf.Priority)") || hasStr(conds, "(p1.conf.Priority == §.next.conf.Priority)"), "R12.3",
						fmt.Sprintf("queue.(*Tagged).delayGroup: walk continues only within the same priority (b%d)", b.Index), e.Pos(fn.Pos()),
						"the rotation target can lie beyond a priority boundary: a group would be moved behind lower-priority groups", 1, conds...)
				}
			}
		}
		r.Min("R12.3", "walk back edges in delayGroup", n, 1)
		ins := e.findInstrs(fn, "call(queue.(*sortedGroup).insertAfter)(p1, phi(§))", false)
		r.Check(len(ins) == 1, "R12.3", "queue.(*Tagged).delayGroup: the group is re-inserted after the group the walk stopped at", e.Pos(fn.Pos()), "the rotated group is not inserted behind the last group of its priority", 1)
		hd := e.findInstrs(fn, "store(p0.headGroup = p1.next)", false)
		okh := len(hd) == 1 && hasStr(e.domConds(hd[0].Block()), "(p0.headGroup == p1)")
		r.Check(okh, "R12.3", "queue.(*Tagged).delayGroup: head follows when the head group is rotated", e.Pos(fn.Pos()), "rotating the head group does not hand the head to its successor", 1)
	}
	e.queueLockDiscipline(r, "R12.4")
	r.Rule("R12.5", "list surgery: unlink/addAfter/addBefore perform exactly their four pointer updates under the right nil guards (the old neighbour is read before it is overwritten), insert = unlink then add, the setters/getters touch the like-named pointer, removeFile keeps head and index consistent (the group list and the file chain share these helpers)")
	e.checkLinkHelpers(r, "R12.5")
	r.Rule("R12.4", "lock discipline as R10.1 (the group list is only touched under q.mux)")
	// ---------------------------------------------------------------- R12.6
	e.shareRule(r, "C19", "R19.5", "R12.6", "a group gets its own tag's priority: the tagger main hands to the queue answers a group named after a tag with that tag")
}

func gphiBlock(p *ssa.Phi) *ssa.BasicBlock {
	if p == nil {
		return nil
	}
	return p.Block()
}
