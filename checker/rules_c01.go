package main

import (
	"fmt"
	"regexp"
	"sort"
	"strings"

	"golang.org/x/tools/go/ssa"
)

// state constants of package stage, looked up from their declarations
type stageConsts struct {
	unknown, received, validated, failed, finalized, logged string
	ok                                                      bool
}

func (e *Engine) stageConsts(r *Report, rule string) stageConsts {
	var c stageConsts
	c.ok = true
	get := func(n string) string {
		v, ok := e.ConstVal("stage", n)
		if !ok {
			r.Unresolved(rule, "stage."+n)
			c.ok = false
		}
		return v
	}
	c.unknown, c.received, c.validated = get("stateUnknown"), get("stateReceived"), get("stateValidated")
	c.failed, c.finalized, c.logged = get("stateFailed"), get("stateFinalized"), get("stateLogged")
	return c
}

var fsWriteRe = regexp.MustCompile(`^(os\.(Create|OpenFile|WriteFile|Rename|Remove|RemoveAll|Mkdir|MkdirAll|Truncate|Link|Symlink|Chmod|Chtimes|Chown)|fileutil\.(Move|Copy|WriteJSON|WriteHumanJSON|writeJSON)|ioutil\.WriteFile)$`)

// stateSetterSites returns the calls of the stage state setter (toCache) with a constant state.
func (e *Engine) stateSetterSites(state string) []Site {
	var out []Site
	for _, s := range e.SitesOf(pat("stage.(*Stage).toCache"), nil) {
		args := s.Instr.Common().Args
		if len(args) == 3 && e.Canon(args[2]) == state {
			out = append(out, s)
		}
	}
	return out
}

func init() { register("C01", rulesC01) }

func rulesC01(e *Engine, r *Report) {
	sc := e.stageConsts(r, "R01")
	if !sc.ok {
		return
	}
	// ---------------------------------------------------------------- R01.1
	r.Rule("R01.1", "sole deliverer: the only file-system write effects whose path derives from Stage.targetDir are the frozen table {putFileAway: MkdirAll, fileutil.Move; fileutil.Move/Copy internals; finalize: Remove after export; pruneTree: Remove of empty directories}; positive control: the Move is found")
	t := NewTaint(e)
	t.Source = func(v ssa.Value) bool {
		u, ok := v.(*ssa.UnOp)
		if !ok {
			return false
		}
		fa, ok := u.X.(*ssa.FieldAddr)
		if !ok {
			return false
		}
		f := fieldVar(fa.X, fa.Field)
		return f != nil && f.Name() == "targetDir" && strings.HasSuffix(fa.X.Type().String(), "stage.Stage")
	}
	t.Run()
	allowed := map[string]string{
		"stage.(*Stage).putFileAway|os.MkdirAll|0":   "creates the parent directory of the delivered file",
		"stage.(*Stage).putFileAway|fileutil.Move|1": "THE deliverer",
		"fileutil.Move|os.Rename|1":                  "move into <dst>.lck, then <dst>.lck -> <dst>",
		"fileutil.Move|os.Rename|0":                  "<dst>.lck -> <dst>",
		"fileutil.Move|fileutil.Copy|1":              "cross-device fallback copies into <dst>.lck",
		"fileutil.Copy|os.Create|0":                  "cross-device fallback",
		"stage.(*Stage).finalize|os.Remove|0":        "delivered file removed after a successful export upload",
		"stage.(*Stage).pruneTree|os.Remove|0":       "removal of empty, old directories",
	}
	foundMove := false
	nSinks := 0
	for _, s := range e.AllSites() {
		cc := s.Instr.Common()
		key := e.CalleeKey(cc)
		if !fsWriteRe.MatchString(key) {
			continue
		}
		for i, a := range cc.Args {
			if !t.Is(a) {
				continue
			}
			nSinks++
			k := fmt.Sprintf("%s|%s|%d", e.ShortName(s.Fn), key, i)
			construct := fmt.Sprintf("%s: %s(arg %d derives from targetDir)", e.ShortName(s.Fn), key, i)
			if why, ok := allowed[k]; ok {
				r.Ok("R01.1", construct, e.InstrPos(s.Instr), 1, "allowed: "+why, "flow: "+strings.Join(t.Trace(a), " <- "))
				if k == "stage.(*Stage).putFileAway|fileutil.Move|1" {
					foundMove = true
				}
			} else {
				r.Bad("R01.1", construct, e.InstrPos(s.Instr),
					"a second writer into the final directory bypasses hash validation: "+e.InstrStr(s.Instr), 1, t.Trace(a)...)
			}
		}
	}
	r.Check(foundMove, "R01.1", "positive control: fileutil.Move in the deliverer", "", "the deliverer's Move into targetDir was not found by the query", nSinks)

	// ---------------------------------------------------------------- R01.2 / R01.3
	r.Rule("R01.2", "the deliverer moves a file of kind Wait (<base>.wait)")
	r.Rule("R01.3", "every os.Rename minting a .wait file has source <same base>.full and is guarded on every path by FileMD5(<same base>.full) == <same file>.hash (true edge) and err == nil of that FileMD5")
	stageFns := e.FuncsIn("stage")
	moves := e.SitesOf(pat("fileutil.Move"), stageFns)
	for _, m := range moves {
		src := e.Canon(m.Instr.Common().Args[0])
		r.Check(strings.HasSuffix(src, ` + ".wait")`), "R01.2", e.ShortName(m.Fn)+": fileutil.Move source kind", e.InstrPos(m.Instr),
			"the deliverer moves something that is not a validated .wait file: "+src, 1, "source "+src)
	}
	r.Min("R01.2", "fileutil.Move in package stage", len(moves), 1)
	nWait := 0
	waitRe := regexp.MustCompile(`^\((.*) \+ "\.wait"\)$`)
	for _, s := range e.SitesOf(pat("os.Rename"), stageFns) {
		args := s.Instr.Common().Args
		dst := e.Canon(args[1])
		m := waitRe.FindStringSubmatch(dst)
		if m == nil {
			continue
		}
		nWait++
		base := m[1]
		construct := e.ShortName(s.Fn) + ": os.Rename[Full→Wait]"
		src := e.Canon(args[0])
		if !r.Check(src == "("+base+` + ".full")`, "R01.3", construct+" source kind", e.InstrPos(s.Instr),
			"a .wait file is minted from "+src+" instead of "+base+".full", 1, "src "+src, "dst "+dst) {
			continue
		}
		if !strings.HasSuffix(base, ".path") {
			r.Bad("R01.3", construct+" base", e.InstrPos(s.Instr), "base path is not <file>.path: "+base, 1)
			continue
		}
		file := strings.TrimSuffix(base, ".path")
		md5 := `call(fileutil.FileMD5)((` + base + ` + ".full"))`
		h := file + ".hash"
		cls := func(ev *Event) (add, kill []string) {
			if ev.Kind != EvCond {
				return
			}
			switch ev.Str {
			case "(" + md5 + "#0 == " + h + ")", "(" + h + " == " + md5 + "#0)":
				add = append(add, "hashEq")
			case "(" + md5 + "#1 == nil)":
				add = append(add, "md5ok")
			}
			return
		}
		target := s.Instr
		e.Guarded(r, "R01.3", construct, s.Fn, func(in ssa.Instruction) bool { return in == target.(ssa.Instruction) }, cls,
			func(l LabelSet) bool { return l.HasAll("hashEq", "md5ok") },
			"FileMD5("+base+".full)#0 == "+h+" and its err == nil")
		// R01.10: what was hashed is what is renamed - the per-path lock is held
		// from before the hash to the rename, without a release in between
		lock := "call(stage.(*Stage).getPathLock)(p0, " + base + ")"
		lcls := labeler(
			I("call(sync.(*RWMutex).Lock)("+lock+")", "locked"),
			IK("call(sync.(*RWMutex).Unlock)("+lock+")", "locked"),
			IK("call(sync.(*RWMutex).Unlock)("+lock+")", "hashed"),
			I(md5, "hashed"),
		)
		r.Rule("R01.10", "the file that was hashed is the file that is renamed: the per-path lock is taken before FileMD5(<base>.full) and not released until <base>.full has become <base>.wait (a completed newer version cannot be swapped in between)")
		e.Guarded(r, "R01.10", e.ShortName(s.Fn)+": rename under the lock held since the hash", s.Fn, only(target.(ssa.Instruction)), lcls,
			func(l LabelSet) bool { return l.HasAll("locked", "hashed") }, "getPathLock("+base+") held, no Unlock since FileMD5")
		nh := e.Guarded(r, "R01.10", e.ShortName(s.Fn)+": FileMD5 under the path lock", s.Fn, e.instrMatch(md5), lcls,
			func(l LabelSet) bool { return l.Has("locked") }, "getPathLock("+base+") held")
		r.Min("R01.10", "FileMD5 calls in the validator", nh, 1)
	}
	r.Min("R01.3", "renames minting .wait", nWait, 1)

	// ---------------------------------------------------------------- R01.4
	r.Rule("R01.4", "state `validated` is set only (a) after the validated rename succeeded (err == nil edge) or (b) in Recover for entries of a list whose every append is guarded by `<base>.wait exists`")
	vs := e.stateSetterSites(sc.validated)
	for _, s := range vs {
		top := EnclosingTop(s.Fn)
		file := e.Canon(s.Instr.Common().Args[1])
		construct := e.ShortName(s.Fn) + ": toCache(" + file + ", validated)"
		switch {
		case strings.Contains(file, "var("):
			// list element: find the variable and check its appends
			m := regexp.MustCompile(`var\((\w+)\)\[`).FindStringSubmatch(file)
			if m == nil {
				r.Bad("R01.4", construct, e.InstrPos(s.Instr), "cannot identify the list the validated entry comes from", 1)
				continue
			}
			v := m[1]
			n := 0
			for _, cf := range WithClosures(top) {
				stores := e.findInstrs(cf, "store(«\\^?&?»var("+v+") = §", false)
				for _, st := range stores {
					if strings.Contains(e.InstrStr(st), "= nil") {
						continue
					}
					n++
					st := st
					cls := labeler(
						C(`!call(os.IsNotExist)(call(os.Stat)((§ + ".wait"))#1)`, "waitExists"),
					)
					e.Guarded(r, "R01.4", e.ShortName(cf)+": append to list `"+v+"` (promoted to validated on restart)", cf,
						func(in ssa.Instruction) bool { return in == st }, cls,
						func(l LabelSet) bool { return l.Has("waitExists") }, "Stat(<base>.wait) found")
				}
			}
			r.Min("R01.4", "appends to recovery list "+v, n, 1)
		default:
			// must be dominated by the validated rename's success
			base := file + ".path"
			ren := `call(os.Rename)((` + base + ` + ".full"), (` + base + ` + ".wait"))`
			cls := labeler(C("("+ren+" == nil)", "renameOk"))
			target := s.Instr
			e.Guarded(r, "R01.4", construct, s.Fn, func(in ssa.Instruction) bool { return in == target.(ssa.Instruction) }, cls,
				func(l LabelSet) bool { return l.Has("renameOk") }, "success edge of Rename("+base+".full → .wait)")
		}
	}
	r.Min("R01.4", "sites setting state validated", len(vs), 2)

	// ---------------------------------------------------------------- R01.5
	r.Rule("R01.5", "the deliverer is called only from `finalize`, on paths guarded by getFileState(path) == validated with the file's path lock held; finalize is called only by the finalize handler")
	deliverers := map[*ssa.Function]bool{}
	for _, m := range moves {
		deliverers[m.Fn] = true
	}
	for d := range deliverers {
		callers := e.SitesOf(pat(e.ShortName(d)), nil)
		for _, c := range callers {
			fileArg := e.Canon(c.Instr.Common().Args[1])
			base := fileArg + ".path"
			lock := "call(stage.(*Stage).getPathLock)(p0, " + base + ")"
			cls := labeler(
				C("(call(stage.(*Stage).getFileState)(p0, "+base+") == "+sc.validated+")", "stateValidated"),
				I("call(sync.(*RWMutex).Lock)("+lock+")", "locked"),
				IK("call(sync.(*RWMutex).Unlock)("+lock+")", "locked"),
			)
			target := c.Instr
			e.Guarded(r, "R01.5", e.ShortName(c.Fn)+": call of deliverer "+e.ShortName(d), c.Fn,
				func(in ssa.Instruction) bool { return in == target.(ssa.Instruction) }, cls,
				func(l LabelSet) bool { return l.HasAll("stateValidated", "locked") },
				"getFileState("+base+") == validated, under getPathLock("+base+")")
			// callers of the finalizer
			fcallers := e.SitesOf(pat(e.ShortName(c.Fn)), nil)
			var names []string
			okc := true
			for _, fc := range fcallers {
				names = append(names, e.ShortName(fc.Fn))
				if e.ShortName(fc.Fn) != "stage.(*Stage).finalizeHandler" {
					okc = false
				}
			}
			sort.Strings(names)
			r.Check(okc && len(fcallers) >= 1, "R01.5", "callers of "+e.ShortName(c.Fn), "",
				"finalize is reachable from somewhere other than the finalize handler: "+strings.Join(names, ", "), len(fcallers), "callers: "+strings.Join(names, ", "))
		}
		r.Min("R01.5", "callers of the deliverer", len(callers), 1)
	}

	// ---------------------------------------------------------------- R01.6
	r.Rule("R01.6", "mismatch ⇒ failed: from the false edge of the hash comparison, and from each error edge of FileMD5 / the validated rename, every path to return passes toCache(file, failed)")
	if fn := needFn(e, r, "R01.6", "stage.(*Stage).process"); fn != nil {
		cls := labeler(I("call(stage.(*Stage).toCache)(p0, p1, "+sc.failed+")", "setFailed"))
		n := 0
		for _, p := range []string{
			`(call(fileutil.FileMD5)(§)#0 != §.hash)`, `(§.hash != call(fileutil.FileMD5)(§)#0)`,
			`(call(fileutil.FileMD5)(§)#1 != nil)`,
			`(call(os.Rename)(§ + ".full"), § + ".wait")) != nil)`,
		} {
			for _, ed := range e.ifEdges(fn, p) {
				n++
				ed := ed
				e.GuardedFrom(r, "R01.6", "stage.(*Stage).process: exits after "+shorten(ed.Str), fn,
					FlowOpts{Classify: cls, Target: isReturn, StartEdge: ed.B, StartSucc: ed.Succ},
					func(l LabelSet) bool { return l.Has("setFailed") }, "toCache(file, failed) before returning")
			}
		}
		r.Min("R01.6", "failure edges in the validator", n, 3)
	}

	// ---------------------------------------------------------------- R01.7
	r.Rule("R01.7", "the companion constructor returns a companion read from disk only under cmp.Hash == file.Hash")
	if fn := needFn(e, r, "R01.7", "stage.newLocalCompanion"); fn != nil {
		rd := "call(stage.readLocalCompanion)((p0 + \".cmp\"), p1.Name)#0"
		cls := labeler(
			C("("+rd+".Hash == p1.Hash)", "sameHash"),
			C("(p1.Hash == "+rd+".Hash)", "sameHash"),
			C("("+rd+" == nil)", "noneOnDisk"),
			C("(call(stage.readLocalCompanion)((p0 + \".cmp\"), p1.Name)#1 != nil)", "readErr"),
		)
		res := e.Flow(fn, FlowOpts{Classify: cls, Target: isReturn})
		n := 0
		for in, worlds := range res.At {
			ret := in.(*ssa.Return)
			if len(ret.Results) < 1 {
				continue
			}
			rv := e.Canon(ret.Results[0])
			if !strings.Contains(rv, rd) {
				continue
			}
			n++
			ok := true
			var facts []string
			for _, w := range worlds {
				facts = append(facts, "path class "+w.String())
				// a path on which the on-disk companion itself is returned must carry sameHash
				// (phi results: the disk companion may be one alternative; error / nil paths return nil companion)
				if !(w.Has("sameHash") || w.Has("readErr") || w.Has("noneOnDisk")) {
					ok = false
				}
			}
			r.Check(ok, "R01.7", "stage.newLocalCompanion: return of the on-disk companion", e.InstrPos(in),
				"the companion of another file version (different hash) is reused, its ranges counted for the new version", len(worlds), facts...)
		}
		r.Min("R01.7", "returns of the on-disk companion", n, 1)
	}

	// ---------------------------------------------------------------- R01.8
	r.Rule("R01.8", "recovery hashes before anything else: entries of a list fed by `.full`/complete `.part` states reach only the validator (process); the deliverer/finalize queue is not called with them")
	if fn := needFn(e, r, "R01.8", "stage.(*Stage).Recover"); fn != nil {
		n := 0
		for _, cf := range WithClosures(fn) {
			for _, s := range e.SitesIn(cf) {
				key := e.CalleeKey(s.Instr.Common())
				str := e.InstrStr(s.Instr)
				if key == "stage.(*Stage).finalizeQueue" || key == "stage.(*Stage).finalize" || key == "stage.(*Stage).putFileAway" {
					n++
					// argument must come from the wait-guarded list (checked by R01.4): it must be the same value that was set validated
					arg := e.Canon(s.Instr.Common().Args[1])
					setV := false
					for _, v := range vs {
						val := e.Canon(v.Instr.Common().Args[1])
						if v.Fn != cf {
							continue
						}
						if val == arg {
							setV = true
						}
						// ... or an element of a local list to which nothing but that value is appended
						// (all parked files are entered first, then handed over)
						if strings.HasPrefix(arg, "phi(builtin(append)(phi#, ["+val+"])|make(") && strings.Count(arg, "builtin(append)") == 1 {
							setV = true
						}
					}
					r.Check(setV, "R01.8", e.ShortName(cf)+": "+key+" during recovery", e.InstrPos(s.Instr),
						"recovery queues for delivery a file that was not taken from the `.wait` list: "+str, 1, "argument "+arg)
				}
			}
		}
		// the validate list goes to process
		procs := 0
		for _, cf := range WithClosures(fn) {
			procs += len(e.SitesOf(pat("stage.(*Stage).process"), []*ssa.Function{cf}))
		}
		r.Min("R01.8", "recovery hands files to the validator", procs, 1)
		r.Min("R01.8", "recovery delivery sites", n, 1)
	}

	// ---------------------------------------------------------------- R01.9
	r.Rule("R01.9", "the whole file is hashed: FileMD5 opens its path argument and passes that handle to ReadableMD5; ReadableMD5 copies the handle, unlimited and unseeked, into the md5 object whose digest it returns")
	if fn := needFn(e, r, "R01.9", "fileutil.FileMD5"); fn != nil {
		calls := e.findInstrs(fn, "call(fileutil.ReadableMD5)(call(os.Open)(p0)#0)", false)
		opens := e.findInstrs(fn, "call(os.Open)(p0)", false)
		seeks := e.findInstrs(fn, "call(os.(*File).Seek)§", false)
		r.Check(len(calls) >= 1 && len(opens) >= 1 && len(seeks) == 0, "R01.9", "fileutil.FileMD5: hashes the handle opened from its argument", e.Pos(fn.Pos()),
			"FileMD5 does not hash exactly the file named by its argument from offset 0", len(calls)+len(opens), "ReadableMD5(os.Open(p0)#0)")
		var rets []string
		okr := true
		Instrs(fn, func(in ssa.Instruction) {
			if rt, ok := in.(*ssa.Return); ok && len(rt.Results) == 2 {
				s := e.Canon(rt.Results[0])
				rets = append(rets, s)
				if !(strings.Contains(s, "call(fileutil.ReadableMD5)") || s == `""` || strings.HasPrefix(s, "zero(")) {
					okr = false
				}
			}
		})
		r.Check(okr && len(rets) > 0, "R01.9", "fileutil.FileMD5: returns ReadableMD5's digest", e.Pos(fn.Pos()), "FileMD5 returns something else than the digest: "+strings.Join(rets, " | "), len(rets), rets...)
	}
	if fn := needFn(e, r, "R01.9", "fileutil.ReadableMD5"); fn != nil {
		cp := e.findInstrs(fn, "call(io.Copy)(call(md5.New)(), p0)", false)
		lim := e.findInstrs(fn, "call(io.«(CopyN|LimitReader|NewSectionReader)»)§", false)
		sk := e.findInstrs(fn, "invoke(§.Seek)§", false)
		r.Check(len(cp) == 1 && len(lim) == 0 && len(sk) == 0, "R01.9", "fileutil.ReadableMD5: io.Copy(md5, handle) unlimited", e.Pos(fn.Pos()),
			"ReadableMD5 does not feed the entire handle into the hash", 3, "io.Copy(md5.New(), p0)")
		okr := false
		Instrs(fn, func(in ssa.Instruction) {
			if rt, ok := in.(*ssa.Return); ok && len(rt.Results) == 2 {
				s := e.Canon(rt.Results[0])
				if strings.Contains(s, "call(fileutil.HashHex)(call(md5.New)())") {
					okr = true
				}
			}
		})
		r.Check(okr, "R01.9", "fileutil.ReadableMD5: returns the digest of that hash object", e.Pos(fn.Pos()), "ReadableMD5 does not return HashHex of the md5 it filled", 1)
	}
	// ---------------------------------------------------------------- R01.11
	r.Rule("R01.11", "the announced hash is the hash of the file that is streamed: on the sending side hashFile.hash is written only with the first result of fileutil.ReadableMD5 applied to the handle the store's opener returned for that very file (scan-time hashing and the retrier's re-hash); hashFile.GetHash returns that field; the payload part and the header take the hash from the part's own file")
	{
		n := 0
		for _, fn := range e.FuncsIn("client") {
			for _, st := range e.fieldStoresIn(fn, "client.hashFile", "hash") {
				n++
				// value: ReadableMD5(<opener>(F)#0)#0 where the object stored into is F
				var file string
				ok := false
				for _, opener := range []string{"p1", "invoke(sts.FileSource.GetOpener)(p0.Conf.Store)"} {
					pre, suf := "call(fileutil.ReadableMD5)(dyn("+opener+")(", ")#0)#0"
					if strings.HasPrefix(st.val, pre) && strings.HasSuffix(st.val, suf) {
						file = st.val[len(pre) : len(st.val)-len(suf)]
						ok = true
					}
				}
				// the store target must be that file
				tgtOK := false
				Instrs(fn, func(in ssa.Instruction) {
					if s2, ok2 := in.(*ssa.Store); ok2 && e.InstrPos(s2) == st.pos {
						t := e.Canon(s2.Addr)
						t = strings.TrimSuffix(strings.TrimPrefix(t, "&"), ".hash")
						if t == file || t == "assert(*client.hashFile)("+file+")" || "&"+t == file {
							tgtOK = true
						}
					}
				})
				r.Check(ok && tgtOK, "R01.11", fmt.Sprintf("%s: hashFile.hash ← ReadableMD5(opener(same file))", e.ShortName(fn)), st.pos,
					"the hash announced for a file is not computed from the handle opened on that very file: "+shorten(st.val), 1, st.val)
			}
		}
		r.Min("R01.11", "writes of hashFile.hash", n, 2)
		if fn := needFn(e, r, "R01.11", "client.(*hashFile).GetHash"); fn != nil {
			ok := false
			Instrs(fn, func(in ssa.Instruction) {
				if rt, ok2 := in.(*ssa.Return); ok2 && len(rt.Results) == 1 && e.Canon(rt.Results[0]) == "p0.hash" {
					ok = true
				}
			})
			r.Check(ok, "R01.11", "client.(*hashFile).GetHash returns the computed hash", e.Pos(fn.Pos()), "GetHash no longer returns the field the hashing writes", 1)
		}
		if fn := needFn(e, r, "R01.11", "payload.(*part).GetFileHash"); fn != nil {
			ok := false
			Instrs(fn, func(in ssa.Instruction) {
				if rt, ok2 := in.(*ssa.Return); ok2 && len(rt.Results) == 1 && e.Canon(rt.Results[0]) == "invoke(sts.Binnable.GetHash)(p0.Binnable)" {
					ok = true
				}
			})
			r.Check(ok, "R01.11", "payload.(*part).GetFileHash forwards the file's hash", e.Pos(fn.Pos()), "a part announces another hash than its file's", 1)
		}
		if fn := needFn(e, r, "R01.11", "payload.(*Encoder).startNextPart"); fn != nil {
			op := e.findInstrs(fn, "dyn(p0.bin.opener)(p0.binPart.Binnable)", false)
			r.Check(len(op) == 1, "R01.11", "payload.(*Encoder).startNextPart: the bytes streamed come from the opener applied to the part's own file", e.Pos(fn.Pos()), "the encoder opens something else than the part's file", 1)
		}
		// both the hasher and the encoder get the opener from the same store
		var builds []string
		for _, fn := range e.FuncsIn("client") {
			for _, in := range e.findInstrs(fn, "dyn(p0.Conf.BuildPayload)(§, invoke(sts.FileSource.GetOpener)(p0.Conf.Store), §)", false) {
				builds = append(builds, e.ShortName(fn))
				_ = in
			}
		}
		r.Check(len(builds) >= 1, "R01.11", "client: payloads are built with the opener of the store that is hashed", "", "the payload builder is not given Conf.Store's opener", 1, builds...)
		if fn := needFn(e, r, "R01.11", "client.(*Broker).hash"); fn != nil {
			hs := e.findInstrs(fn, "go call(client.(*Broker).hashFiles)(p0, invoke(sts.FileSource.GetOpener)(p0.Conf.Store), §)", false)
			r.Check(len(hs) == 1, "R01.11", "client.(*Broker).hash: hash workers use Conf.Store's opener", e.Pos(fn.Pos()), "the hash workers open files through another opener than the one payloads are streamed with", 1)
		}
	}
	// ---------------------------------------------------------------- R01.12
	r.Rule("R01.12", "a failed verdict is not papered over by the log: the cache refill from the receive log inserts a record only when the cache holds nothing under the very key it inserts at (<stage root>/<name>) - a live entry (failed, received, validated) of a newer version of that name is never replaced by the `logged` record of an older delivery (else the sender is told `passed` for content that failed validation) - shared with R05.6")
	e.checkRefillKeepsLive(r, "R01.12")
	// ---------------------------------------------------------------- R01.13
	e.shareRule(r, "C06", "R06.3", "R01.13", "a delivered file is on record with its hash: the deliverer writes the receive-log record BEFORE it moves the validated file into the final directory (a crash after the move and before the record would leave a delivered file the receiver knows nothing about: the sender is told `not received` and the file is delivered a second time), and the move itself never parks the file under an intermediate name")
	// ---------------------------------------------------------------- R01.14
	e.shareRule(r, "C06", "R06.14", "R01.14", "what is delivered after a restart is what its log record says: Recover enters a parked (.wait) file as validated under the companion's name, hash and size only when the companion can only be that file's (no newer version in progress) or the parked file's MD5 equals the companion's hash")
	// ---------------------------------------------------------------- R01.15
	e.shareRule(r, "C05", "R05.14", "R01.15", "what was validated is what stays delivered: no write into a staged file is made outside the file's lock, where it could go on - through its handle - after the file was validated and moved to the final directory")
	// ---------------------------------------------------------------- R01.16
	r.Rule("R01.16", "every staged file has its own record: the helpers that read and write companions append the companion extension only to a path that does not end in it already - so every call in package stage hands them either a path built with the extension (`<base> + \".cmp\"`) or a path that was tested to carry it (a directory entry met by a walk); a bare base path would make the file called `x.cmp` share - and overwrite - the companion of the file `x`")
	checkCompanionPathsExplicit(e, r, "R01.16")
	// ---------------------------------------------------------------- R01.17
	e.shareRule(r, "C20", "R20.3", "R01.17", "a body and its record go together: the frozen table of removals in package stage - the validator removes the companion of a staged file it cannot read together with that file, so that after a restart no companion of one version is found next to the parked bytes of another (R01.14 trusts a companion when nothing else is there)")
}

func shorten(s string) string {
	if len(s) > 90 {
		return s[:40] + "…" + s[len(s)-45:]
	}
	return s
}

// checkCompanionPathsExplicit: shared by R01.16 and R09.13.
func checkCompanionPathsExplicit(e *Engine, r *Report, rule string) {
	n := 0
	for _, fn := range e.FuncsIn("stage") {
		name := e.ShortName(fn)
		for _, s := range e.SitesIn(fn) {
			key := e.CalleeKey(s.Instr.Common())
			if key != "stage.readLocalCompanion" && key != "stage.writeCompanion" {
				continue
			}
			arg := e.Canon(s.Instr.Common().Args[0])
			if name == "stage.readLocalCompanion" && strings.HasPrefix(arg, "phi((p0 + \".cmp\")|p0)") {
				continue // the helper's own rewrite of a legacy companion, after it has normalised the path
			}
			n++
			construct := fmt.Sprintf("%s: %s is given a path that carries the companion extension", name, strings.TrimPrefix(key, "stage."))
			if strings.Contains(arg, "+ \".cmp\")") {
				r.Ok(rule, construct, e.InstrPos(s.Instr), 1, "built with the extension: "+shorten(arg))
				continue
			}
			cls := labeler(C("(call(filepath.Ext)("+arg+") == \".cmp\")", "hasExt"), C("(\".cmp\" == call(filepath.Ext)("+arg+"))", "hasExt"))
			e.Guarded(r, rule, construct, fn, only(s.Instr.(ssa.Instruction)), cls,
				func(l LabelSet) bool { return l.Has("hasExt") }, "filepath.Ext(path) == \".cmp\", or a path built as <base> + \".cmp\"")
		}
	}
	r.Min(rule, "calls of the companion helpers in package stage", n, 6)
}
