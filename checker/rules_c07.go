package main

import (
	"fmt"
	"go/types"
	"sort"
	"strings"

	"golang.org/x/tools/go/ssa"
)

func init() { register("C07", rulesC07) }

func rulesC07(e *Engine, r *Report) {
	// ---------------------------------------------------------------- R07.1
	r.Rule("R07.1", "the queue cache is persisted at the promised points: every non-stop return of scan() that follows a cache mutation (Add/Remove/an Iterate pass that may remove) has passed Cache.Persist after the last mutation; in the validator loop and in the recovery poll loop every iteration that called finish() passes Persist before the next iteration")
	if fn := needFn(e, r, "R07.1", "client.(*Broker).scan"); fn != nil {
		cache := "p0.Conf.Cache"
		cls := labeler(
			I("invoke(sts.FileCache.Add)("+cache+", §)", "dirty"),
			I("invoke(sts.FileCache.Remove)("+cache+", §)", "dirty"),
			I("invoke(sts.FileCache.Iterate)("+cache+", §)", "dirty"),
			IK("invoke(sts.FileCache.Add)("+cache+", §)", "persisted"),
			IK("invoke(sts.FileCache.Remove)("+cache+", §)", "persisted"),
			IK("invoke(sts.FileCache.Iterate)("+cache+", §)", "persisted"),
			I("invoke(sts.FileCache.Persist)("+cache+")", "persisted"),
			C("call(client.(*Broker).shouldStopNow)(p0)", "stopNow"),
			C("(invoke(sts.FileSource.Scan)(§)#2 != nil)", "scanFailed"),
		)
		res := e.Flow(fn, FlowOpts{Classify: cls, Target: isReturn, Sticky: []string{"dirty", "persisted", "stopNow"}})
		n := 0
		for in, ws := range res.At {
			if in.Block().Comment == "recover" {
				continue
			}
			for _, w := range ws {
				n++
				ok := !w.Has("dirty") || w.Has("persisted") || w.Has("stopNow") || w.Has("scanFailed")
				r.Check(ok, "R07.1", fmt.Sprintf("client.(*Broker).scan: return b%d %s", in.Block().Index, w.String()), e.InstrPos(in),
					"scan() can return after changing the cache without persisting it: a crash before the next scan forgets what was found", 1, w.String())
			}
		}
		r.Check(!res.Undecided, "R07.1", "client.(*Broker).scan: decided", e.Pos(fn.Pos()), "undecided (path-world cap)", res.Evals)
		r.Min("R07.1", "return path classes of scan", n, 3)
		// what scan returns as `ready` was added to the cache first (never send a file the cache does not know)
		adds := e.findInstrs(fn, "invoke(sts.FileCache.Add)("+cache+", §)", false)
		r.Min("R07.1", "Cache.Add calls in scan", len(adds), 1)
	}
	for _, spec := range []struct{ fn, finishPat string }{
		{"client.(*Broker).startValidate", "call(client.(*Broker).finish)(p0, §)"},
		{"client.(*Broker).recover", "call(client.(*Broker).finish)(p0, §)"},
	} {
		fn := needFn(e, r, "R07.1", spec.fn)
		if fn == nil {
			continue
		}
		fins := e.findInstrs(fn, spec.finishPat, false)
		r.Min("R07.1", "finish() calls in "+spec.fn, len(fins), 1)
		cls := labeler(
			I(spec.finishPat, "finished"),
			IK(spec.finishPat, "persisted"),
			I("invoke(sts.FileCache.Persist)(p0.Conf.Cache)", "persisted"),
		)
		// outermost loop containing the first finish call: its back edges
		var hdr *ssa.BasicBlock
		var backs []ssa.Instruction
		for _, f := range fins {
			// walk outwards to the outermost loop
			h, bs := outermostLoop(f)
			if h != nil {
				hdr, backs = h, append(backs, bs...)
			}
		}
		if hdr == nil {
			r.Bad("R07.1", spec.fn+": finish() is not inside a loop", e.Pos(fn.Pos()), "cannot identify the batch loop", 1)
			continue
		}
		res := e.Flow(fn, FlowOpts{Classify: cls, Target: anyOf(backs), Sticky: []string{"finished", "persisted"}})
		// sticky labels survive inner back edges; they are dropped below for the outer header by re-running per iteration start
		n := e.judge(r, "R07.1", spec.fn+": end of a poll batch", fn, res,
			func(l LabelSet) bool { return !l.Has("finished") || l.Has("persisted") }, "Cache.Persist after the last finish() of the batch")
		r.Min("R07.1", "batch-loop back edges in "+spec.fn, n, 1)
	}

	// ---------------------------------------------------------------- R07.2
	r.Rule("R07.2", "the cache's dirty flag is honest: every mutator of cache.JSON (add, Done, Reset, Remove) sets dirty on each path that changes an entry; Persist writes whenever dirty is set; write() clears dirty only after fileutil.WriteJSON succeeded (the writer itself is atomic, R06.2)")
	for _, name := range []string{"cache.(*JSON).add", "cache.(*JSON).Done", "cache.(*JSON).Reset", "cache.(*JSON).Remove"} {
		fn := needFn(e, r, "R07.2", name)
		if fn == nil {
			continue
		}
		cls := labeler(
			I("store(§.Done = §)", "mutated"), I("store(§.Hash = §)", "mutated"), I("store(§.Size = §)", "mutated"), I("store(§.Time = §)", "mutated"),
			I("mapupdate(p0.Files[§] = §)", "mutated"), I("builtin(delete)(p0.Files, §)", "mutated"),
			I("store(p0.dirty = true)", "dirtySet"),
		)
		n := 0
		for _, rw := range e.returnWorlds(r, "R07.2", fn, cls) {
			n++
			r.Check(!rw.W.Has("mutated") || rw.W.Has("dirtySet"), "R07.2", fmt.Sprintf("%s: return b%d %s", name, rw.In.Block().Index, rw.W.String()), e.InstrPos(rw.In),
				"the cache is changed in memory without being marked dirty: Persist() will skip the write and a restart loses the change", 1, rw.W.String())
		}
		r.Min("R07.2", "return path classes of "+name, n, 1)
	}
	if fn := needFn(e, r, "R07.2", "cache.(*JSON).Persist"); fn != nil {
		cls := labeler(C("!p0.dirty", "clean"), I("call(cache.(*JSON).write)(p0)", "written"))
		for _, rw := range e.returnWorlds(r, "R07.2", fn, cls) {
			r.Check(rw.W.HasAny("clean", "written"), "R07.2", fmt.Sprintf("cache.(*JSON).Persist: return b%d %s", rw.In.Block().Index, rw.W.String()), e.InstrPos(rw.In),
				"Persist returns without writing although the cache is dirty", 1, rw.W.String())
		}
	}
	if fn := needFn(e, r, "R07.2", "cache.(*JSON).write"); fn != nil {
		cls := labeler(C("(call(fileutil.WriteJSON)(p0.path, p0) == nil)", "writeOK"))
		n := e.Guarded(r, "R07.2", "cache.(*JSON).write: dirty cleared only after a successful write", fn, e.instrMatch("store(p0.dirty = false)"), cls,
			func(l LabelSet) bool { return l.Has("writeOK") }, "fileutil.WriteJSON(path, cache) == nil")
		r.Min("R07.2", "stores clearing dirty", n, 1)
	}

	// ---------------------------------------------------------------- R07.3
	r.Rule("R07.3", "nothing is forgotten unconfirmed: FileCache.Remove is called only (a) for a file the store now ignores, (b) for a file that no longer exists (IsNotExist of the Sync or Open error; since F55 also at start-up and in the retry stage, where such a file used to be marked done), (c) for a done file after Store.Remove succeeded under canDelete; the sites are frozen")
	{
		sites := e.InvokeSites("sts", "FileCache", "Remove")
		var mod []Site
		for _, s := range sites {
			if strings.HasPrefix(e.ShortName(s.Fn), "client.") {
				mod = append(mod, s)
			}
		}
		for i, s := range mod {
			cls := labeler(
				C("invoke(sts.FileSource.ShouldIgnore)(§)", "ignored"),
				C("invoke(sts.FileSource.IsNotExist)(§, §)", "gone"),
				C("(invoke(sts.FileSource.Remove)(§) == nil)", "deleted"),
				C("invoke(sts.Cached.IsDone)(§)", "done"),
				C("call(client.(*Broker).canDelete)(§)", "mayDelete"),
			)
			e.Guarded(r, "R07.3", fmt.Sprintf("%s: FileCache.Remove #%d", e.ShortName(EnclosingTop(s.Fn)), i+1), s.Fn, only(s.Instr.(ssa.Instruction)), cls,
				func(l LabelSet) bool {
					return l.Has("ignored") || l.Has("gone") || l.HasAll("deleted", "done", "mayDelete")
				},
				"store ignores the file | file no longer exists | done, deletable and deleted")
		}
		r.Min("R07.3", "FileCache.Remove sites in package client", len(mod), 6)
		r.Check(len(mod) <= 6, "R07.3", "FileCache.Remove sites are the six confirmed ones", "", fmt.Sprintf("%d sites found; a new site must be confirmed by reading: %s", len(mod), strings.Join(siteKeys(e, mod), ", ")), len(mod), siteKeys(e, mod)...)
	}

	// ---------------------------------------------------------------- R07.4
	r.Rule("R07.4", "resumed files keep what they announced, placeholders only for handled files: every recoverFile built with a `left` list carries prev from the receiver's partial (start-up) or from the polled file (retry) and its Cached is the cache entry of the same name; a recoverFile without `left` (fully allocated placeholder that is never sent) is built only for a name the cache does not know, a cache entry that IsDone, or a file the receiver confirmed (Waiting/Received)")
	for _, name := range []string{"client.(*Broker).recover", "client.(*Broker).startRetry"} {
		top := needFn(e, r, "R07.4", name)
		if top == nil {
			continue
		}
		nl, np := 0, 0
		for _, cf := range WithClosures(top) {
			for _, a := range e.allocsOf(cf, "client.recoverFile") {
				left := e.storesToAllocField(a, "left")
				prev := e.storesToAllocField(a, "prev")
				if len(left) > 0 {
					nl++
					ok := len(prev) == 1 && (pat("§.Prev").MatchString(prev[0]) || pat("invoke(sts.Polled.GetPrev)(§)").MatchString(prev[0]))
					r.Check(ok, "R07.4", fmt.Sprintf("%s: resumed file #%d keeps its announced predecessor", e.ShortName(cf), nl), e.InstrPos(a),
						"a resumed file is queued without the predecessor it had announced", 1, append(left, prev...)...)
					continue
				}
				np++
				// placeholder: find the append/store that publishes it and check its guards
				var pub ssa.Instruction
				Instrs(cf, func(in ssa.Instruction) {
					if c, ok := in.(*ssa.Call); ok && strings.HasPrefix(e.InstrStr(c), "builtin(append)(") && strings.Contains(e.InstrStr(c), "[&new(client.recoverFile)]") && c.Block() == a.Block() {
						pub = c
					}
				})
				if pub == nil {
					r.Bad("R07.4", fmt.Sprintf("%s: placeholder #%d", e.ShortName(cf), np), e.InstrPos(a), "cannot find where the placeholder is queued", 1)
					continue
				}
				cls := labeler(
					C("(invoke(sts.FileCache.Get)(§) == nil)", "unknownToCache"),
					C("invoke(sts.Cached.IsDone)(§)", "done"),
					C("invoke(sts.Polled.Waiting)(§)", "confirmed"),
					C("invoke(sts.Polled.Received)(§)", "confirmed"),
				)
				e.Guarded(r, "R07.4", fmt.Sprintf("%s: placeholder #%d only for a handled file", e.ShortName(cf), np), cf, only(pub), cls,
					func(l LabelSet) bool { return l.HasAny("unknownToCache", "done", "confirmed") }, "cache does not know the name | entry IsDone | receiver confirmed it")
			}
		}
		if name == "client.(*Broker).recover" {
			r.Min("R07.4", "resumed-file literals in recover()", nl, 2)
			r.Min("R07.4", "placeholder literals in recover()", np, 3)
		} else {
			r.Min("R07.4", "resumed-file literals in the retrier", nl, 1)
		}
	}

	// ---------------------------------------------------------------- R07.5 / R07.6
	r.Rule("R07.5", "a positive answer at start-up counts only for a version that is on record as sent: in recover() finish() is reached only under Waiting/Received AND WasSent(name, hash, …) of the same polled file (the receiver answers for the name; the sent log is written when every byte of a version was acknowledged, before its first poll - without a record the answer is about an earlier version); a Sent record is not written after the fact")
	r.Rule("R07.6", "in recover() the verdict decides: finish() only under Waiting/Received; under NotFound, under Failed, and under a positive answer for a version not on record as sent, the file is appended to the send list; every arm of the verdict switch appends or finishes")
	if fn := needFn(e, r, "R07.5", "client.(*Broker).recover"); fn != nil {
		wasSent := "invoke(sts.SendLogger.WasSent)(p0.Conf.Logger, invoke(sts.Polled.GetName)(§), invoke(sts.Polled.GetHash)(§), §)"
		cls := labeler(
			C("!"+wasSent, "notYetLogged"),
			C(wasSent, "onRecord"),
			C("invoke(sts.Polled.Waiting)(§)", "confirmed"),
			C("invoke(sts.Polled.Received)(§)", "confirmed"),
			C("invoke(sts.Polled.NotFound)(§)", "notFound"),
			C("invoke(sts.Polled.Failed)(§)", "failed"),
			I("store(var(send) = builtin(append)(var(send), §))", "queued"),
			I("call(client.(*Broker).finish)(p0, §)", "finished"),
		)
		n := e.Guarded(r, "R07.5", "client.(*Broker).recover: finish(f) only for a version on record as sent", fn, e.instrMatch("call(client.(*Broker).finish)(p0, §)"), cls,
			func(l LabelSet) bool { return l.HasAll("onRecord", "confirmed") && !l.Has("notYetLogged") }, "WasSent(name, hash, …) and the receiver confirmed the file")
		r.Min("R07.5", "finish() calls in recover()", n, 1)
		sents := e.findInstrs(fn, "invoke(sts.SendLogger.Sent)(p0.Conf.Logger, §)", false)
		r.Check(len(sents) == 0, "R07.5", "client.(*Broker).recover: no Sent record is written after the fact", e.Pos(fn.Pos()),
			"recovery writes a sent-log record for a file on the strength of the receiver's answer about its name", 1)
		n = e.Guarded(r, "R07.6", "client.(*Broker).recover: finish(f)", fn, e.instrMatch("call(client.(*Broker).finish)(p0, §)"), cls,
			func(l LabelSet) bool { return l.Has("confirmed") && !l.HasAny("notFound", "failed") }, "Waiting() or Received() of the polled file")
		r.Min("R07.6", "finish() calls in recover()", n, 1)
		// every verdict arm queues: at the back edge of the loop over polled, paths with notFound/failed carry `queued`
		var vloopBacks []ssa.Instruction
		for _, in := range e.findInstrs(fn, "invoke(sts.Polled.NotFound)(§)", false) {
			_, bs := innermostLoop(in)
			vloopBacks = append(vloopBacks, bs...)
		}
		res := e.Flow(fn, FlowOpts{Classify: cls, Target: anyOf(vloopBacks)})
		nb := e.judge(r, "R07.6", "client.(*Broker).recover: end of a verdict iteration", fn, res,
			func(l LabelSet) bool {
				if l.HasAny("notFound", "failed") {
					return l.Has("queued") && !l.Has("finished")
				}
				if l.Has("confirmed") && l.Has("notYetLogged") {
					return l.Has("queued") && !l.Has("finished")
				}
				if l.Has("confirmed") {
					return l.HasAll("queued", "finished")
				}
				return true
			}, "NotFound/Failed/positive-but-not-on-record → appended to the send list (not finished); Waiting/Received of a version on record → placeholder appended and finished")
		r.Min("R07.6", "back edges of the verdict loop", nb, 1)
	}

	// ---------------------------------------------------------------- R07.7
	r.Rule("R07.7", "the gap scan over the receiver's part list moves past every part it examines: the position that becomes the Beg of each missing range is, on every loop-carried path, the End of the part just examined (never left where it was); the parts are sorted before the scan; a missing range ends at the Beg of the part that follows the gap, the tail ends at the file size")
	e.checkGapScan(r, "R07.7")
	// ---------------------------------------------------------------- R07.8
	r.Rule("R07.8", "a resumed file allocates exactly its missing ranges: recoverFile.Allocate returns range.Beg + used (values before the call), advances used by the desired length inside a range, and at a range's end returns End-offset, moves to the next range and leaves used at 0 as the last write (as R11.1); it is done when all ranges were handed out; its send size is the sum of the missing ranges")
	e.checkRecoverAllocate(r, "R07.8")
	if fn := needFn(e, r, "R07.8", "client.(*recoverFile).IsAllocated"); fn != nil {
		ok := false
		Instrs(fn, func(in ssa.Instruction) {
			if rt, ok2 := in.(*ssa.Return); ok2 && len(rt.Results) == 1 && e.CondStr(rt.Results[0], true) == "(builtin(len)(p0.left) == p0.part)" {
				ok = true
			}
		})
		r.Check(ok, "R07.8", "client.(*recoverFile).IsAllocated: done ⇔ every missing range was handed out", e.Pos(fn.Pos()), "the completion test is no longer part == len(left)", 1)
	}
	if fn := needFn(e, r, "R07.8", "client.(*recoverFile).GetSendSize"); fn != nil {
		acc := e.findInstrs(fn, "§", false)
		_ = acc
		ok := false
		Instrs(fn, func(in ssa.Instruction) {
			if ph, ok2 := in.(*ssa.Phi); ok2 && strings.Contains(e.Canon(ph), "+ (p0.left[") && strings.Contains(e.Canon(ph), "].End - p0.left[") {
				ok = true
			}
		})
		r.Check(ok, "R07.8", "client.(*recoverFile).GetSendSize: Σ(End-Beg) over the missing ranges", e.Pos(fn.Pos()), "the number of bytes a resumed file still has to send is not the sum of its missing ranges (the tracker would log it as sent too early or never)", 1)
	}
	// ---------------------------------------------------------------- R07.9
	r.Rule("R07.9", "what the restarted sender and receiver learn from their logs is complete: `was this already logged as sent?` (WasSent, asked before the recovery writes a Sent record) and the receiver's cache refill both go through the day-file loop, which visits every calendar day of the range including the closing one - else today's records are missed, a file is logged as sent twice or a delivered file is taken for missing and sent again in full - shared with R18.5")
	e.checkDayLoop(r, "R07.9")
	// ---------------------------------------------------------------- R07.10
	e.shareRule(r, "C10", "R10.6", "R07.10", "the chain continues from the files handled before the crash: the placeholders recovery queues for confirmed or receiver-only files stay linked as predecessors when Pop skips them - the loop unlinks what lies before a placeholder, never the placeholder itself")
	// ---------------------------------------------------------------- R07.11
	r.Rule("R07.11", "only the version the receiver holds is resumed: in the start-up recovery a cache entry is queued with a list of missing ranges (recoverFile.left computed from the receiver's partial) only on paths where the partial's hash equals the cache entry's hash - ranges held of another version of the name say nothing about which bytes of this one are missing")
	checkResumeSameVersion(e, r, "R07.11")
}

// outermostLoop returns the header and back-edge terminators of the outermost
// natural loop containing in.
func outermostLoop(in ssa.Instruction) (*ssa.BasicBlock, []ssa.Instruction) {
	blk := in.Block()
	fn := blk.Parent()
	var best *ssa.BasicBlock
	var backs []ssa.Instruction
	for _, h := range fn.Blocks {
		if !h.Dominates(blk) {
			continue
		}
		var bs []ssa.Instruction
		for _, p := range h.Preds {
			if h.Dominates(p) && reaches(blk, p, h) {
				bs = append(bs, p.Instrs[len(p.Instrs)-1])
			}
		}
		if len(bs) == 0 {
			continue
		}
		if best == nil || h.Dominates(best) {
			best, backs = h, bs
		}
	}
	return best, backs
}

func reaches(from, to, avoid *ssa.BasicBlock) bool {
	if from == to {
		return true
	}
	seen := map[*ssa.BasicBlock]bool{}
	st := []*ssa.BasicBlock{from}
	for len(st) > 0 {
		x := st[len(st)-1]
		st = st[:len(st)-1]
		if x == to {
			return true
		}
		if seen[x] || (x == avoid && x != from) {
			continue
		}
		seen[x] = true
		st = append(st, x.Succs...)
	}
	return false
}

// checkGapScan: recover() derives the missing byte ranges of a partly
// received file from the receiver's part list (shared by R07.7 and R11.6: the
// ranges it produces are what the resumed file is tiled from).
func (e *Engine) checkGapScan(r *Report, rule string) {
	if top := needFn(e, r, rule, "client.(*Broker).recover"); top != nil {
		found := 0
		for _, cf := range WithClosures(top) {
			var loopHdr *ssa.BasicBlock
			Instrs(cf, func(in ssa.Instruction) {
				st, ok := in.(*ssa.Store)
				if !ok {
					return
				}
				fa, ok := st.Addr.(*ssa.FieldAddr)
				if !ok {
					return
				}
				f := fieldVar(fa.X, fa.Field)
				if f == nil || f.Name() != "Beg" || !strings.HasSuffix(e.typeShort(fa.X.Type()), "sts.ByteRange") {
					return
				}
				ph, ok := st.Val.(*ssa.Phi)
				if !ok {
					return
				}
				hb := ph.Block()
				if !e.fnInfo(cf).cyclic[hb] {
					return
				}
				found++
				loopHdr = hb
				var facts []string
				okAll := true
				for i, ed := range ph.Edges {
					pred := hb.Preds[i]
					cv := e.Canon(ed)
					if hb.Dominates(pred) { // loop-carried
						if _, isPhi := ed.(*ssa.Phi); !isPhi && pat("§[§].End").MatchString(cv) {
							// the position only grows: recorded ranges may overlap or nest
							conds := e.domConds(pred)
							if t, ok := pred.Instrs[len(pred.Instrs)-1].(*ssa.If); ok && pred.Succs[0] != pred.Succs[1] {
								conds = append(conds, e.CondStr(t.Cond, pred.Succs[0] == hb))
							}
							if hasStr(conds, "(phi(§) < §[§].End)") || hasStr(conds, "(§[§].End > phi(§))") {
								facts = append(facts, "carried: "+cv+" (only when beyond the position)")
							} else {
								okAll = false
								facts = append(facts, "CARRIED BACKWARDS POSSIBLE: "+cv+" is stored without comparing it with the position")
							}
						} else if ed == ssa.Value(ph) {
							// the position is kept: allowed only on the edge where the part ends at or before it
							conds := e.domConds(pred)
							if t, ok := pred.Instrs[len(pred.Instrs)-1].(*ssa.If); ok && pred.Succs[0] != pred.Succs[1] {
								conds = append(conds, e.CondStr(t.Cond, pred.Succs[0] == hb))
							}
							if hasStr(conds, "(§[§].End <= phi(§))") || hasStr(conds, "(phi(§) >= §[§].End)") {
								facts = append(facts, "kept (the part ends at or before the position)")
							} else {
								okAll = false
								facts = append(facts, "CARRIED UNCHANGED: "+strings.Join(conds, " & "))
							}
						} else if ip, isPhi := ed.(*ssa.Phi); isPhi && ip != ph {
							// `if part.End > pos { pos = part.End }`: the position may stay only when the part ends at or before it
							for k, iv := range ip.Edges {
								ipred := ip.Block().Preds[k]
								conds := e.domConds(ipred)
								if t, ok := ipred.Instrs[len(ipred.Instrs)-1].(*ssa.If); ok && ipred.Succs[0] != ipred.Succs[1] {
									conds = append(conds, e.CondStr(t.Cond, ipred.Succs[0] == ip.Block()))
								}
								if _, inner := iv.(*ssa.Phi); !inner && pat("§[§].End").MatchString(e.Canon(iv)) && (hasStr(conds, "(phi(§) < §[§].End)") || hasStr(conds, "(§[§].End > phi(§))")) {
									facts = append(facts, "carried: "+e.Canon(iv)+" (only when beyond the position)")
									continue
								}
								if iv == ssa.Value(ph) && (hasStr(conds, "(§[§].End <= phi(§))") || hasStr(conds, "(phi(§) >= §[§].End)")) {
									facts = append(facts, "kept (the part ends at or before the position)")
									continue
								}
								okAll = false
								facts = append(facts, "CARRIED UNCHANGED OR FOREIGN: "+e.Canon(iv))
							}
						} else {
							okAll = false
							facts = append(facts, "CARRIED UNCHANGED OR FOREIGN: "+cv)
						}
					} else {
						facts = append(facts, "initial: "+cv)
						if cv != "0" {
							okAll = false
						}
					}
				}
				r.Check(okAll, rule, fmt.Sprintf("%s: scan position feeding ByteRange.Beg #%d", e.ShortName(cf), found), e.InstrPos(st),
					"the gap scan can leave its position behind a part it has seen: later gaps and the tail then include bytes the receiver holds (they are sent again)", len(ph.Edges), facts...)
				// a gap exists only where the next part begins BEYOND the position (recorded ranges may overlap: a part
				// that begins before the position must not produce an inverted range)
				if hb.Dominates(st.Block()) && st.Block() != hb && reaches(st.Block(), hb, nil) {
					conds := e.domConds(st.Block())
					okGap := hasStr(conds, "(phi(§) < §[§].Beg)") || hasStr(conds, "(§[§].Beg > phi(§))")
					r.Check(okGap, rule, fmt.Sprintf("%s: a missing range inside the file is emitted only when position < next part's Beg #%d", e.ShortName(cf), found), e.InstrPos(st),
						"a `missing` range is produced whenever the next part does not begin exactly at the position: for overlapping recorded ranges (part.Beg < position) it is inverted - negative length, send size too small", 1, conds...)
				}
			})
			// sorted before scanned
			if loopHdr != nil {
				srt := e.findInstrs(cf, "call(sort.Sort)(§)", false)
				okS := len(srt) == 1 && srt[0].Block().Dominates(loopHdr) && srt[0].Block() != loopHdr
				if okS {
					// the list sorted is the list scanned
					lst := e.Canon(srt[0].(ssa.CallInstruction).Common().Args[0])
					okS = len(e.ifEdges(cf, "(§ < builtin(len)("+lst+"))")) > 0
				}
				r.Check(okS, rule, e.ShortName(cf)+": the list scanned was sorted (sort.Sort) before the loop", e.Pos(cf.Pos()),
					"gaps are computed over an unsorted part list (parts are recorded in arrival order): ranges the receiver holds would be sent again", 1)
				// ... and sorted by where the parts begin (the scan walks upwards through the file)
				if len(srt) == 1 {
					arg := srt[0].(ssa.CallInstruction).Common().Args[0]
					if mi, ok := arg.(*ssa.MakeInterface); ok {
						T := mi.X.Type()
						var pkg *types.Package
						if nt, ok := T.(*types.Named); ok {
							pkg = nt.Obj().Pkg()
						}
						less := e.Prog.LookupMethod(T, pkg, "Less")
						swap := e.Prog.LookupMethod(T, pkg, "Swap")
						okL := false
						var lv string
						if less != nil {
							Instrs(less, func(in ssa.Instruction) {
								if rt, ok := in.(*ssa.Return); ok && len(rt.Results) == 1 {
									lv = e.Canon(rt.Results[0])
									okL = lv == "((p0[p1].Beg - p0[p2].Beg) < 0)" || lv == "(p0[p1].Beg < p0[p2].Beg)" || lv == "(p0[p2].Beg > p0[p1].Beg)"
								}
							})
						}
						r.Check(okL, rule, e.ShortName(cf)+": the part list is ordered by Beg (ascending)", e.InstrPos(srt[0]),
							"the comparator the gap scan relies on does not order parts by their first byte: touching or overlapping parts listed out of order stay out of order and held ranges are sent again / reversed ranges are produced ("+lv+")", 1, lv)
						okW := swap != nil && len(e.findInstrs(swap, "store(p0[p1] = p0[p2])", false)) == 1 && len(e.findInstrs(swap, "store(p0[p2] = p0[p1])", false)) == 1
						r.Check(okW, rule, e.ShortName(cf)+": Swap exchanges the two elements", e.InstrPos(srt[0]), "the sort's Swap does not exchange elements i and j", 1)
					} else {
						r.Unresolved(rule, "type of the list handed to sort.Sort in "+e.ShortName(cf))
					}
				}
				ends := e.fieldStoreVals(cf, "sts.ByteRange", "End")
				sort.Strings(ends)
				okE := len(ends) == 2
				for _, v := range ends {
					if !(pat("§[§].Beg").MatchString(v) || pat("invoke(sts.Cached.GetSize)(p0)").MatchString(v)) {
						okE = false
					}
				}
				r.Check(okE, rule, e.ShortName(cf)+": a gap ends at the next part's Beg, the tail at the file size", e.Pos(cf.Pos()),
					"the end of a missing range is not the start of the part after the gap / the file size: "+strings.Join(ends, " | "), len(ends), ends...)
				copyIn := e.findInstrs(cf, "builtin(copy)(§, §.Parts)", false)
				r.Check(len(copyIn) == 1, rule, e.ShortName(cf)+": the receiver's list is copied and sorted before the scan", e.Pos(cf.Pos()), "the part list is not sorted before gaps are computed", 1)
			}
		}
		r.Min(rule, "gap-scan positions found", found, 2)
	}
}

// checkResumeSameVersion: shared by R07.11, R08.9 and R11.9.
func checkResumeSameVersion(e *Engine, r *Report, rule string) {
	top := needFn(e, r, rule, "client.(*Broker).recover")
	if top == nil {
		return
	}
	n := 0
	for _, fn := range WithClosures(top) {
		if fn == top {
			continue
		}
		for _, in := range e.findInstrs(fn, "store(&new(client.recoverFile).left = §)", false) {
			n++
			cls := labeler(
				C("(§.Hash == invoke(sts.Cached.GetHash)(p0))", "sameVersion"),
				C("(invoke(sts.Cached.GetHash)(p0) == §.Hash)", "sameVersion"),
			)
			e.Guarded(r, rule, fmt.Sprintf("%s: missing ranges are taken from a partial of the same hash #%d", e.ShortName(fn), n), fn, only(in), cls,
				func(l LabelSet) bool { return l.Has("sameVersion") }, "partial.Hash == cached.GetHash()")
		}
	}
	r.Min(rule, "resumption sites in recover's cache walk", n, 1)
}
