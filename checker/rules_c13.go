package main

import (
	"fmt"
	"go/types"
	"os"
	"reflect"
	"sort"
	"strconv"
	"strings"

	"golang.org/x/tools/go/ssa"
)

func init() { register("C13", rulesC13) }

func structOf(t types.Type) *types.Struct {
	if p, ok := t.Underlying().(*types.Pointer); ok {
		t = p.Elem()
	}
	s, _ := t.Underlying().(*types.Struct)
	return s
}

func rulesC13(e *Engine, r *Report) {
	// ---------------------------------------------------------------- R13.1
	r.Rule("R13.1", "one schema: the element type marshalled by EncodeHeader and the element type NewDecoder unmarshals into are the same named struct; its exported fields carry non-empty, pairwise distinct JSON tags")
	{
		var encT, decT string
		if fn := needFn(e, r, "R13.1", "payload.(*Bin).EncodeHeader"); fn != nil {
			for _, in := range e.findInstrs(fn, "call(json.Marshal)(§)", false) {
				encT = e.typeShort(in.(ssa.CallInstruction).Common().Args[0].(*ssa.MakeInterface).X.Type())
			}
		}
		if fn := needFn(e, r, "R13.1", "payload.NewDecoder"); fn != nil {
			for _, in := range e.findInstrs(fn, "call(json.(*Decoder).Decode)(§)", false) {
				if mi, ok := in.(ssa.CallInstruction).Common().Args[1].(*ssa.MakeInterface); ok {
					decT = strings.TrimPrefix(e.typeShort(mi.X.Type()), "*")
				}
			}
		}
		r.Check(encT != "" && encT == decT, "R13.1", "payload: encoder and decoder agree on the header element type", "", "EncodeHeader marshals "+encT+" but NewDecoder decodes into "+decT, 2, encT, decT)
		if t := e.Type("payload", "fileMeta"); t != nil {
			st := structOf(t)
			seen := map[string]string{}
			ok := true
			var facts []string
			for i := 0; i < st.NumFields(); i++ {
				f := st.Field(i)
				if !f.Exported() {
					continue
				}
				tag := reflect.StructTag(st.Tag(i)).Get("json")
				name := strings.Split(tag, ",")[0]
				facts = append(facts, f.Name()+":"+name)
				if name == "" || name == "-" {
					ok = false
				}
				if prev, dup := seen[name]; dup {
					ok = false
					facts = append(facts, "DUPLICATE tag "+name+" on "+prev+" and "+f.Name())
				}
				seen[name] = f.Name()
			}
			r.Check(ok && len(seen) >= 8, "R13.1", "payload.fileMeta: JSON tags non-empty and distinct", e.Pos(t.(*types.Named).Obj().Pos()), "two descriptor fields share a JSON key or one has none: "+strings.Join(facts, " "), len(facts), facts...)
		} else {
			r.Unresolved("R13.1", "payload.fileMeta")
		}
	}

	// ---------------------------------------------------------------- R13.2
	r.Rule("R13.2", "every descriptor field is filled from the like-named getter of the same part: EncodeHeader writes Name, Renamed, Prev, Hash, Time, Size and the part's own beg/end for element i from parts[i]; the decoded descriptor's getters return the like-named fields; the data route builds sts.Partial (Name, Renamed, Prev, Size, Time, Hash, Source, byte range) from parts[index] and hands Receive the reader obtained in the same iteration")
	if fn := needFn(e, r, "R13.2", "payload.(*Bin).EncodeHeader"); fn != nil {
		p := "p0.parts[phi((phi# + 1)|0)]"
		want := map[string]string{
			"Name": "invoke(sts.Binnable.GetName)(" + p + ".Binnable)", "Renamed": "call(payload.(*part).GetRenamed)(" + p + ")",
			"Prev": "invoke(sts.Binnable.GetPrev)(" + p + ".Binnable)", "Hash": "call(payload.(*part).GetFileHash)(" + p + ")",
			"Size": "call(payload.(*part).GetFileSize)(" + p + ")", "Beg": p + ".beg", "End": p + ".end",
			"send": "invoke(sts.Binnable.GetSendSize)(" + p + ".Binnable)",
		}
		var keys []string
		for k := range want {
			keys = append(keys, k)
		}
		sort.Strings(keys)
		for _, k := range keys {
			vals := e.fieldStoreVals(fn, "payload.fileMeta", k)
			r.Check(len(vals) == 1 && vals[0] == want[k], "R13.2", "payload.(*Bin).EncodeHeader: fileMeta."+k+" ← "+strings.ReplaceAll(want[k], p, "part"), e.Pos(fn.Pos()),
				"the header field is filled from something else: "+strings.Join(vals, " | "), 1, vals...)
		}
		tv := e.fieldStoreVals(fn, "marshal.NanoTime", "Time")
		r.Check(len(tv) == 1 && tv[0] == "call(payload.(*part).GetFileTime)("+p+")", "R13.2", "payload.(*Bin).EncodeHeader: fileMeta.Time ← part.GetFileTime()", e.Pos(fn.Pos()), "the header time is "+strings.Join(tv, " | "), 1)
		st := e.findInstrs(fn, "store(make([]*payload.fileMeta)[phi((phi# + 1)|0)] = &new(payload.fileMeta))", false)
		r.Check(len(st) == 1, "R13.2", "payload.(*Bin).EncodeHeader: descriptor i describes part i", e.Pos(fn.Pos()), "descriptor and part index differ", 1)
		// every exported field of the schema is written
		if t := e.Type("payload", "fileMeta"); t != nil {
			s := structOf(t)
			for i := 0; i < s.NumFields(); i++ {
				f := s.Field(i)
				if f.Exported() {
					vals := e.fieldStoreVals(fn, "payload.fileMeta", f.Name())
					r.Check(len(vals) == 1, "R13.2", "payload.(*Bin).EncodeHeader: schema field "+f.Name()+" is written", e.Pos(fn.Pos()), "a field of the wire schema is never filled by the encoder", 1)
				}
			}
		}
	}
	for getter, field := range map[string]string{"GetName": "p0.Name", "GetRenamed": "p0.Renamed", "GetPrev": "p0.Prev", "GetFileHash": "p0.Hash", "GetFileSize": "p0.Size", "GetFileTime": "p0.Time.Time"} {
		if fn := needFn(e, r, "R13.2", "payload.(*fileMeta)."+getter); fn != nil {
			ok := false
			Instrs(fn, func(in ssa.Instruction) {
				if rt, ok2 := in.(*ssa.Return); ok2 && len(rt.Results) == 1 && strings.TrimPrefix(e.Canon(rt.Results[0]), "&") == field {
					ok = true
				}
			})
			r.Check(ok, "R13.2", "payload.(*fileMeta)."+getter+" returns "+strings.TrimPrefix(field, "p0."), e.Pos(fn.Pos()), "a decoded descriptor answers "+getter+" from another field", 1)
		}
	}
	if fn := needFn(e, r, "R13.2", "http.(*Server).routeData"); fn != nil {
		part := "invoke(sts.PayloadDecoder.GetParts)(§)[phi((phi# + 1)|0)]"
		want := map[string]string{"Name": "GetName", "Renamed": "GetRenamed", "Prev": "GetPrev", "Size": "GetFileSize", "Hash": "GetFileHash"}
		var keys []string
		for k := range want {
			keys = append(keys, k)
		}
		sort.Strings(keys)
		for _, k := range keys {
			vals := e.fieldStoreVals(fn, "sts.Partial", k)
			r.Check(len(vals) == 1 && pat("invoke(sts.Binned."+want[k]+")("+part+")").MatchString(vals[0]), "R13.2", "http.(*Server).routeData: Partial."+k+" ← parts[index]."+want[k]+"()", e.Pos(fn.Pos()),
				"the descriptor handed to the gatekeeper takes "+k+" from elsewhere: "+strings.Join(vals, " | "), 1)
		}
		src := e.fieldStoreVals(fn, "sts.Partial", "Source")
		r.Check(len(src) == 1 && src[0] == "call(http.getSourceName)(p2)", "R13.2", "http.(*Server).routeData: Partial.Source ← the request's source name", e.Pos(fn.Pos()), "Source is "+strings.Join(src, " | "), 1)
		tv := e.fieldStoreVals(fn, "marshal.NanoTime", "Time")
		r.Check(len(tv) == 1 && pat("invoke(sts.Binned.GetFileTime)("+part+")").MatchString(tv[0]), "R13.2", "http.(*Server).routeData: Partial.Time ← parts[index].GetFileTime()", e.Pos(fn.Pos()), "time is "+strings.Join(tv, " | "), 1)
		rc := e.findInstrs(fn, "invoke(sts.GateKeeper.Receive)(§, &new(sts.Partial), invoke(sts.PayloadDecoder.Next)(§)#0)", false)
		r.Check(len(rc) == 1, "R13.2", "http.(*Server).routeData: Receive(descriptor built in this iteration, reader from decoder.Next() of this iteration)", e.Pos(fn.Pos()), "descriptor and reader are not paired per iteration", 1)
		// index bound
		if len(rc) == 1 {
			conds := e.domConds(rc[0].Block())
			r.Check(hasStr(conds, "(phi((phi# + 1)|0) < builtin(len)(invoke(sts.PayloadDecoder.GetParts)(§)))") && hasStr(conds, "!invoke(sts.PayloadDecoder.Next)(§)#1"), "R13.2",
				"http.(*Server).routeData: Receive only with an in-range index and a reader", e.InstrPos(rc[0]), "Receive can be reached with index >= len(parts) or after the decoder reported the end", 1, conds...)
		}
	}

	// ---------------------------------------------------------------- R13.3
	r.Rule("R13.3", "slice convention per implementation: the sender-side implementations of Binned.GetSlice (payload.part, queue.sendable) return (begin, LENGTH), the decoded descriptor (payload.fileMeta) returns (begin, END); every call site is classified (frozen table): sender-side sites use the second result as a length, receiver-side sites (data route, `part received?`) use it as an end offset")
	{
		type siteRule struct{ side, why string }
		table := map[string]siteRule{
			"client.(*Broker).startSend":       {"sender", "log only: beg+len"},
			"client.(*Broker).handleSendError": {"sender", "log only: beg+len"},
			"client.(*Broker).startTrack":      {"sender", "sent += n; n == file size"},
			"client.(*binnable).GetNextAlloc":  {"sender", "b + n"},
			"client.(*binnable).IsAllocated":   {"sender", "allocated == n"},
			"http.(*Server).routeData":         {"receiver", "ByteRange{Beg, End}"},
			"http.validateParts":               {"receiver", "0 <= beg <= end <= file size (F52)"},
			"stage.(*Stage).partReceived":      {"receiver", "companionPartExists(cmp, beg, end)"},
		}
		n := 0
		for _, fn := range e.Funcs {
			if fn.Synthetic != "" {
				continue // promoted-method wrappers
			}
			for _, s := range e.SitesIn(fn) {
				cc := s.Instr.Common()
				if !cc.IsInvoke() || cc.Method.Name() != "GetSlice" {
					continue
				}
				n++
				name := e.ShortName(fn)
				rule, ok := table[name]
				if !ok {
					r.Bad("R13.3", name+": unclassified GetSlice site", e.InstrPos(s.Instr), "a new caller of Binned.GetSlice: decide which convention (length or end) its operand has and add it to the table", 1)
					continue
				}
				v := e.Canon(s.Instr.Value())
				// uses of #1
				var uses []string
				for _, f2 := range []*ssa.Function{fn} {
					Instrs(f2, func(in ssa.Instruction) {
						if !hasEffect(in) && !isReturn(in) {
							if _, isIf := in.(*ssa.If); !isIf {
								return
							}
						}
						str := ""
						switch x := in.(type) {
						case *ssa.If:
							str = e.CondStr(x.Cond, true)
						default:
							str = e.InstrStr(in)
						}
						if strings.Contains(str, v+"#1") && !strings.HasPrefix(str, "call(log.") && !strings.HasPrefix(str, "store(&new([") && !strings.Contains(str, ").log") && !strings.HasPrefix(str, "call(fmt.") {
							uses = append(uses, str)
						}
					})
				}
				okU := true
				for _, u := range uses {
					if strings.HasPrefix(u, "return(call(fmt.Errorf)") {
						continue // the message of a refusal
					}
					asEnd := strings.Contains(u, ".End = "+v+"#1") || pat("call(stage.companionPartExists)(§, "+v+"#0, "+v+"#1)").MatchString(u) ||
						// compared as an end: not before the beginning, not beyond the file's size
						strings.Contains(u, v+"#1 < "+v+"#0)") || strings.Contains(u, v+"#0 <= "+v+"#1)") ||
						pat("(invoke(sts.Binned.GetFileSize)(§) < "+v+"#1)").MatchString(u) || pat("("+v+"#1 <= invoke(sts.Binned.GetFileSize)(§))").MatchString(u)
					if rule.side == "receiver" && !asEnd {
						okU = false
					}
					if rule.side == "sender" && asEnd {
						okU = false
					}
				}
				r.Check(okU, "R13.3", fmt.Sprintf("%s: GetSlice()#1 used as %s", name, map[string]string{"sender": "a length", "receiver": "an end offset"}[rule.side]), e.InstrPos(s.Instr),
					"the second result of GetSlice is used with the other side's convention: "+strings.Join(uses, " ; "), len(uses)+1, append([]string{rule.why}, uses...)...)
			}
		}
		r.Min("R13.3", "GetSlice call sites", n, 7)
		for _, impl := range []struct {
			fn   string
			want [2]string
			side string
		}{
			{"payload.(*fileMeta).GetSlice", [2]string{"p0.Beg", "p0.End"}, "decoded side: (begin, END)"},
			{"payload.(*part).GetSlice", [2]string{"p0.beg", "(p0.end - p0.beg)"}, "sending side: (begin, LENGTH)"},
			{"queue.(*sendable).GetSlice", [2]string{"p0.offset", "p0.length"}, "sending side: (begin, LENGTH)"},
		} {
			if fn := needFn(e, r, "R13.3", impl.fn); fn != nil {
				ok := false
				var got []string
				Instrs(fn, func(in ssa.Instruction) {
					if rt, ok2 := in.(*ssa.Return); ok2 && len(rt.Results) == 2 {
						got = []string{e.Canon(rt.Results[0]), e.Canon(rt.Results[1])}
						ok = got[0] == impl.want[0] && got[1] == impl.want[1]
					}
				})
				r.Check(ok, "R13.3", impl.fn+" - "+impl.side, e.Pos(fn.Pos()), "the implementation returns "+strings.Join(got, ", ")+": its callers are written for the other convention", 1, got...)
			}
		}
		// what reaches the receiver side are decoded descriptors only
		for _, name := range []string{"http.(*Server).routeData", "http.(*Server).routeDataRecovery"} {
			if fn := needFn(e, r, "R13.3", name); fn != nil {
				gp := e.findInstrs(fn, "invoke(sts.PayloadDecoder.GetParts)(dyn(p0.DecoderFactory)(§)#0)", false)
				r.Check(len(gp) == 1, "R13.3", name+": parts come from the decoder factory's decoder", e.Pos(fn.Pos()), "the parts handed to the gatekeeper are not the decoder's", 1)
			}
		}
	}

	// ---------------------------------------------------------------- R13.4
	r.Rule("R13.4", "time codec: NanoTime is written as \"<Unix>+<Nanosecond>\" and read back by splitting on the same separator into exactly two integers passed to time.Unix(first, second)")
	if fn := needFn(e, r, "R13.4", "marshal.(NanoTime).MarshalJSON"); fn != nil {
		got := e.findInstrs(fn, `call(fmt.Sprintf)("%d+%d", [call(time.(Time).Unix)(p0.Time), call(time.(Time).Nanosecond)(p0.Time)])`, false)
		r.Check(len(got) == 1, "R13.4", "marshal.(NanoTime).MarshalJSON: \"%d+%d\" of (Unix, Nanosecond)", e.Pos(fn.Pos()), "the time is not written as seconds+nanoseconds in that order", 1)
	}
	if fn := needFn(e, r, "R13.4", "marshal.(*NanoTime).UnmarshalJSON"); fn != nil {
		sp := `call(strings.Split)(assert(string)(var(raw))#0, "+")`
		pi := func(i int) string { return fmt.Sprintf("call(strconv.ParseInt)(%s[%d], 10, 64)", sp, i) }
		got := e.findInstrs(fn, "store(p0.Time = call(time.Unix)("+pi(0)+"#0, "+pi(1)+"#0))", false)
		r.Check(len(got) == 1, "R13.4", "marshal.(*NanoTime).UnmarshalJSON: time.Unix(parts[0], parts[1]) after splitting on \"+\"", e.Pos(fn.Pos()), "seconds and nanoseconds are not read back in the order they were written", 1)
		if len(got) == 1 {
			cls := labeler(C("(builtin(len)("+sp+") == 2)", "twoParts"), C("("+pi(0)+"#1 == nil)", "secOK"), C("("+pi(1)+"#1 == nil)", "nanoOK"))
			e.Guarded(r, "R13.4", "marshal.(*NanoTime).UnmarshalJSON: only well-formed values are accepted", fn, only(got[0]), cls,
				func(l LabelSet) bool { return l.HasAll("twoParts", "secOK", "nanoOK") }, "exactly two parts, both parsed")
		}
	}

	// ---------------------------------------------------------------- R13.5
	r.Rule("R13.5", "header length: Transmit announces X-STS-MetaLen = len(meta) of the very byte slice EncodeHeader returned and streams that slice before the part bytes; the data route parses the same header into the decoder factory's first argument; NewDecoder copies exactly that many bytes into the JSON decoder before part readers are handed out on the same stream")
	if fn := needFn(e, r, "R13.5", "http.(*Client).Transmit"); fn != nil {
		meta := "invoke(sts.Payload.EncodeHeader)(p1)#0"
		h := e.constOr("http", "HeaderMetaLen")
		got := e.findInstrs(fn, "call(http.(Header).Add)(§.Header, "+h+", call(strconv.Itoa)(builtin(len)("+meta+")))", false)
		r.Check(len(got) == 1, "R13.5", "http.(*Client).Transmit: X-STS-MetaLen = len(EncodeHeader()#0)", e.Pos(fn.Pos()), "the announced header length is not the length of the encoded header", 1)
		rd := e.findInstrs(fn, "call(bytes.NewReader)("+meta+")", false)
		r.Check(len(rd) == 1, "R13.5", "http.(*Client).Transmit: the header bytes streamed are EncodeHeader()#0", e.Pos(fn.Pos()), "another slice is streamed as header", 1)
		// order inside the body goroutine: header reader copied before the part encoder, in both branches
		for _, cf := range fn.AnonFuncs {
			copies := e.findInstrs(cf, "call(io.Copy)(§)", false)
			if len(copies) == 0 {
				continue
			}
			byBlock := map[*ssa.BasicBlock][]string{}
			for _, c := range copies {
				byBlock[c.Block()] = append(byBlock[c.Block()], e.Canon(c.(ssa.CallInstruction).Common().Args[1]))
			}
			okO := len(byBlock) >= 1
			var facts []string
			for b, srcs := range byBlock {
				facts = append(facts, fmt.Sprintf("b%d: %s", b.Index, strings.Join(srcs, " then ")))
				if len(srcs) != 2 || !strings.Contains(srcs[0], "bytes.NewReader") || !strings.Contains(srcs[1], "GetEncoder") {
					okO = false
				}
			}
			sort.Strings(facts)
			r.Check(okO, "R13.5", e.ShortName(cf)+": header first, then the part bytes (every branch)", e.Pos(cf.Pos()), "the body is not header followed by part bytes: "+strings.Join(facts, " | "), len(copies), facts...)
		}
	}
	if fn := needFn(e, r, "R13.5", "http.(*Server).routeData"); fn != nil {
		h := e.constOr("http", "HeaderMetaLen")
		got := e.findInstrs(fn, "dyn(p0.DecoderFactory)(call(strconv.Atoi)(call(http.(Header).Get)(p2.Header, "+h+"))#0, call(http.(Header).Get)(p2.Header, "+e.constOr("http", "HeaderSep")+"), §)", false)
		r.Check(len(got) == 1, "R13.5", "http.(*Server).routeData: DecoderFactory(Atoi(X-STS-MetaLen), X-STS-Sep, body)", e.Pos(fn.Pos()), "the decoder is not given the announced header length and separator", 1)
		cls := labeler(C("(call(strconv.Atoi)(§)#1 == nil)", "lenParsed"))
		if len(got) == 1 {
			e.Guarded(r, "R13.5", "http.(*Server).routeData: a malformed header length is refused before decoding", fn, only(got[0]), cls,
				func(l LabelSet) bool { return l.Has("lenParsed") }, "Atoi(X-STS-MetaLen) succeeded")
		}
	}
	if fn := needFn(e, r, "R13.5", "payload.NewDecoder"); fn != nil {
		okCopy := false
		for _, cf := range fn.AnonFuncs {
			cn := e.findInstrs(cf, "call(io.CopyN)(^call(io.Pipe)()#1, ^p2, ^p0)", false)
			if len(cn) == 1 && hasStr(e.domConds(cn[0].Block()), "(0 < ^p0)") {
				okCopy = true
			}
		}
		r.Check(okCopy, "R13.5", "payload.NewDecoder: exactly n header bytes go to the JSON decoder (n > 0)", e.Pos(fn.Pos()), "the header is not cut off the stream at the announced length", 1)
		st := e.fieldStoreVals(fn, "payload.Decoder", "stream")
		r.Check(len(st) == 1 && st[0] == "p2", "R13.5", "payload.NewDecoder: part readers read the same stream, after the header", e.Pos(fn.Pos()), "part readers are given another stream: "+strings.Join(st, "|"), 1)
		dec := e.findInstrs(fn, "call(json.(*Decoder).Decode)(call(json.NewDecoder)(call(io.Pipe)()#0), §)", false)
		r.Check(len(dec) == 1, "R13.5", "payload.NewDecoder: the header is decoded from the length-limited pipe", e.Pos(fn.Pos()), "the JSON decoder reads the request stream directly (it would buffer part bytes)", 1)
		var rets []string
		Instrs(fn, func(in ssa.Instruction) {
			if rt, ok := in.(*ssa.Return); ok && len(rt.Results) == 2 {
				rets = append(rets, e.Canon(rt.Results[1]))
			}
		})
		r.Check(len(rets) >= 1 && strings.HasPrefix(rets[0], "call(json.(*Decoder).Decode)"), "R13.5", "payload.NewDecoder: a malformed header is reported", e.Pos(fn.Pos()), "the decode error is not returned: "+strings.Join(rets, "|"), 1)
	}

	// ---------------------------------------------------------------- R13.6
	r.Rule("R13.6", "header constants per route pair: every request header a handler (or the validating wrapper) reads is set by the matching client function, and every response header the client reads is set by the handler")
	{
		hdrs := func(fn *ssa.Function, method string, recvPat string) map[string]bool {
			out := map[string]bool{}
			if fn == nil {
				return out
			}
			for _, cf := range WithClosures(fn) {
				for _, in := range e.findInstrs(cf, "call(http.(Header)."+method+")("+recvPat+", §)", false) {
					a := in.(ssa.CallInstruction).Common().Args
					if len(a) >= 2 {
						out[e.Canon(a[1])] = true
					}
				}
			}
			return out
		}
		union := func(ms ...map[string]bool) map[string]bool {
			o := map[string]bool{}
			for _, m := range ms {
				for k := range m {
					o[k] = true
				}
			}
			return o
		}
		wrapper := e.Fn("http.(*Server).handleValidate")
		gsn, gk := e.Fn("http.getSourceName"), e.Fn("http.getKey")
		common := union(hdrs(wrapper, "Get", "§"), hdrs(gsn, "Get", "§"), hdrs(gk, "Get", "§"))
		pairs := []struct{ client, server string }{
			{"http.(*Client).Transmit", "http.(*Server).routeData"},
			{"http.(*Client).RecoverTransmission", "http.(*Server).routeDataRecovery"},
			{"http.(*Client).Validate", "http.(*Server).routeValidate"},
			{"http.(*Client).Recover", "http.(*Server).routePartials"},
		}
		reqReader := e.Fn("http.GetReqReader")
		for _, p := range pairs {
			cf, sf := needFn(e, r, "R13.6", p.client), needFn(e, r, "R13.6", p.server)
			if cf == nil || sf == nil {
				continue
			}
			set := union(hdrs(cf, "Add", "§"), hdrs(cf, "Set", "§"))
			read := union(hdrs(sf, "Get", "p2.Header"), common)
			if len(e.findInstrs(sf, "call(http.GetReqReader)(p2)", false)) > 0 {
				read = union(read, hdrs(reqReader, "Get", "§"))
			}
			var missing []string
			for h := range read {
				if !set[h] && h != `"Content-Length"` {
					missing = append(missing, h)
				}
			}
			sort.Strings(missing)
			var facts []string
			for h := range read {
				facts = append(facts, h)
			}
			sort.Strings(facts)
			r.Check(len(missing) == 0, "R13.6", p.client+" → "+p.server+": request headers read are sent", e.Pos(sf.Pos()),
				"the handler reads "+strings.Join(missing, ", ")+" which the client function never sets", len(read), facts...)
			// response direction
			rset := union(hdrs(sf, "Add", "invoke(http.ResponseWriter.Header)(p1)"), hdrs(sf, "Set", "invoke(http.ResponseWriter.Header)(p1)"))
			rread := hdrs(cf, "Get", "§.Header")
			var rmiss []string
			for h := range rread {
				if !rset[h] {
					rmiss = append(rmiss, h)
				}
			}
			sort.Strings(rmiss)
			r.Check(len(rmiss) == 0, "R13.6", p.server+" → "+p.client+": response headers read are sent", e.Pos(cf.Pos()),
				"the client reads "+strings.Join(rmiss, ", ")+" which the handler never sets", len(rread)+1)
		}
		r.Min("R13.6", "headers read by the validating wrapper", len(common), 2)
	}

	// ---------------------------------------------------------------- R13.7
	r.Rule("R13.7", "separator conversion of path-valued descriptor fields: when a separator is announced the decoder rewrites every part's Name and Prev from the sender's separator to the receiver's (split on the announced separator, joined with the native one); frozen list of converted fields = {Name, Prev} (Renamed is not converted today - recorded as an observation, not a finding: no failing input on this platform)")
	if fn := needFn(e, r, "R13.7", "payload.NewDecoder"); fn != nil {
		for _, fld := range []string{"Name", "Prev"} {
			m := "&new(payload.Decoder).meta[§]." + fld
			got := e.findInstrs(fn, "store("+m+" = call(filepath.Join)(call(strings.Split)("+m+", p1)))", false)
			ok := len(got) == 1
			if ok {
				ok = hasStr(e.domConds(got[0].Block()), `(p1 != "")`)
			}
			r.Check(ok, "R13.7", "payload.NewDecoder: part."+fld+" converted from the sender's separator", e.Pos(fn.Pos()),
				"a path-valued descriptor field is no longer converted to the receiver's separator: a peer with another separator announces names the receiver never sees as files (an in-order successor waits for ever on such a predecessor)", 1)
		}
	}
	for _, spec := range []struct{ fn, what, p string }{
		{"http.(*Server).routeValidate", "polled names are converted with the announced separator", "store(var(files)[§].Name = call(filepath.Join)(call(strings.Split)(var(files)[§].Name, call(http.(Header).Get)(p2.Header, " + e.constOr("http", "HeaderSep") + "))))"},
		{"http.(*Client).Validate", "answered names are converted back with the server's separator", "call(filepath.Join)(call(strings.Split)(§, call(http.(Header).Get)(§.Header, " + e.constOr("http", "HeaderSep") + ")))"},
	} {
		if fn := needFn(e, r, "R13.7", spec.fn); fn != nil {
			r.Check(len(e.findInstrs(fn, spec.p, false)) == 1, "R13.7", spec.fn+": "+spec.what, e.Pos(fn.Pos()), "the poll route no longer converts names between the peers' separators", 1)
		}
	}

	// ---------------------------------------------------------------- R13.8
	r.Rule("R13.8", "the encoder keeps the frame: for each part it seeks to the part's beg and every Read that goes on reports min(len(buffer), bytes left of the part) - a count derived only from the part's declared extent and the buffer, never from what the file happened to yield (that count is reported only together with the read error, other than the end of the file, that ends the transmission) -, advances the part's progress by that count and moves to the next part when the declared extent is used up; so a part always occupies exactly end-beg bytes on the wire")
	if fn := needFn(e, r, "R13.8", "payload.(*Encoder).Read"); fn != nil {
		left := "((p0.binPart.end - p0.binPart.beg) - p0.partProgress)"
		// the named result n: all stores
		var nAlloc *ssa.Alloc
		Instrs(fn, func(in ssa.Instruction) {
			if a, ok := in.(*ssa.Alloc); ok && a.Comment == "n" {
				nAlloc = a
			}
		})
		if nAlloc == nil {
			// not spilled: look at returns
			okR := true
			var vals []string
			Instrs(fn, func(in ssa.Instruction) {
				if rt, ok := in.(*ssa.Return); ok && len(rt.Results) == 2 && rt.Block().Comment != "recover" {
					for _, lv := range e.phiLeaves(rt.Results[0]) {
						s := e.Canon(lv)
						vals = append(vals, s)
						if !(s == "0" || s == "builtin(len)(p1)" || s == left || s == "conv(int)("+left+")") {
							okR = false
						}
					}
				}
			})
			r.Check(okR && len(vals) > 0, "R13.8", "payload.(*Encoder).Read: the count reported is 0 | len(buffer) | bytes left of the part", e.Pos(fn.Pos()),
				"the byte count reported to the HTTP body derives from what the file yielded: a short file shifts every following part: "+strings.Join(vals, " | "), len(vals), vals...)
		} else {
			var vals []string
			okR := true
			for _, ref := range *nAlloc.Referrers() {
				if st, ok := ref.(*ssa.Store); ok && st.Addr == nAlloc {
					s := e.Canon(st.Val)
					if s == "0" || s == "builtin(len)(p1)" || s == left || s == "conv(int)("+left+")" {
						vals = append(vals, s)
						continue
					}
					// what the file yielded may be reported only together with the read error
					// that ended it (not the end of the file): the transmission stops there (F54)
					conds := strings.Join(e.domConds(st.Block()), " ; ")
					withErr := strings.Contains(conds, "#1 != nil)") && (strings.Contains(conds, "(global(io.EOF) != ") || strings.Contains(conds, " != global(io.EOF))"))
					if withErr {
						if rt, isRet := st.Block().Instrs[len(st.Block().Instrs)-1].(*ssa.Return); !isRet || len(rt.Results) != 2 {
							withErr = false
						}
					}
					vals = append(vals, s)
					if !withErr {
						okR = false
					}
				}
			}
			sort.Strings(vals)
			r.Check(okR && len(vals) >= 2, "R13.8", "payload.(*Encoder).Read: the count reported is 0 | len(buffer) | bytes left of the part", e.Pos(fn.Pos()),
				"the byte count reported to the HTTP body derives from what the file yielded: a short file shifts every following part: "+strings.Join(vals, " | "), len(vals), vals...)
		}
		adv := e.findInstrs(fn, "store(p0.partProgress = (p0.partProgress + §))", false)
		okA := len(adv) == 1
		if okA {
			s := e.InstrStr(adv[0])
			okA = strings.HasSuffix(s, "+ var(n)))") || strings.HasSuffix(s, "+ conv(int64)(var(n))))") || strings.Contains(s, "+ phi(")
		}
		r.Check(okA, "R13.8", "payload.(*Encoder).Read: progress advances by the count reported", e.Pos(fn.Pos()), "the part's progress is not advanced by the reported count", 1)
		nx := e.ifEdges(fn, "(("+left+" - §) «(==|<=)» 0)")
		r.Check(len(nx) >= 1, "R13.8", "payload.(*Encoder).Read: next part when the declared extent is used up", e.Pos(fn.Pos()), "the switch to the next part no longer depends on the declared extent being used up", 1)
		cl := e.findInstrs(fn, "call(payload.(*Encoder).startNextPart)(p0)", false)
		r.Min("R13.8", "part switches in Read", len(cl), 2)
	}
	if fn := needFn(e, r, "R13.8", "payload.(*Encoder).startNextPart"); fn != nil {
		sk := e.findInstrs(fn, "invoke(sts.Readable.Seek)(p0.handle, p0.binPart.beg, 0)", false)
		op := e.findInstrs(fn, "dyn(p0.bin.opener)(p0.binPart.Binnable)", false)
		bp := e.findInstrs(fn, "store(p0.binPart = p0.bin.parts[p0.partIndex])", false)
		ix := e.findInstrs(fn, "store(p0.partIndex = (p0.partIndex + 1))", false)
		pz := e.findInstrs(fn, "store(p0.partProgress = 0)", false)
		r.Check(len(sk) == 1 && len(op) == 1 && len(bp) == 1 && len(ix) == 1 && len(pz) == 1, "R13.8", "payload.(*Encoder).startNextPart: open part i, seek to its beg, progress 0, index+1", e.Pos(fn.Pos()),
			"the encoder does not open the next part's file positioned at the part's beg with a fresh progress counter", 5)
		if len(bp) == 1 && len(ix) == 1 {
			r.Check(precedes(bp[0], ix[0]), "R13.8", "payload.(*Encoder).startNextPart: the part is taken before the index advances", e.Pos(fn.Pos()), "the index is advanced before the part is taken (a part would be skipped)", 1)
		}
		cls := labeler(C("(builtin(len)(p0.bin.parts) <= p0.partIndex)", "atEnd"), I("store(p0.eob = true)", "eob"))
		for _, rw := range e.returnWorlds(r, "R13.8", fn, cls) {
			if rw.W.Has("eob") {
				r.Check(rw.W.Has("atEnd"), "R13.8", "payload.(*Encoder).startNextPart: end of bin only after the last part", e.InstrPos(rw.In), "the encoder declares the bin finished before all parts were streamed", 1)
			}
		}
	}
	// ---------------------------------------------------------------- R13.9
	r.Rule("R13.9", "the two routes that decode a payload header decode it the same way: /data and /data-recovery both hand the decoder the separator the SENDER announced (the X-STS-Sep header of the request) - otherwise the same header yields different names on the two routes and `which of these parts do you hold?` is answered about names the data route never stored")
	for _, name := range []string{"http.(*Server).routeData", "http.(*Server).routeDataRecovery"} {
		if fn := needFn(e, r, "R13.9", name); fn != nil {
			sep := e.constOr("http", "HeaderSep")
			df := e.findInstrs(fn, "dyn(p0.DecoderFactory)(§, call(http.(Header).Get)(p2.Header, "+sep+"), §)", false)
			all := e.findInstrs(fn, "dyn(p0.DecoderFactory)(§)", false)
			r.Check(len(df) == 1 && len(all) == 1, "R13.9", name+": DecoderFactory(…, request's X-STS-Sep, body)", e.Pos(fn.Pos()),
				"the route does not decode with the separator announced by the sender", 1)
		}
	}
	// ---------------------------------------------------------------- R13.10
	r.Rule("R13.10", "a body that ends early is an error, not a wait: every io.Pipe() of the module has its writing end closed, on every path, by the goroutine that feeds it (the header decoder, the request bodies and the JSON reader all read from such pipes; three of the four feeders always closed, the one behind the payload header did not - a header longer than X-STS-MetaLen, or a connection cut inside the header, left the request handler waiting for ever)")
	e.checkPipeWritersClosed(r, "R13.10", 4)
	// ---------------------------------------------------------------- R13.11
	r.Rule("R13.11", "a part is left only when its announced length has gone out: in Encoder.Read the next part is started only when there is no current part yet or the bytes left of the current one - (end - beg) minus what was emitted - are zero; an early end of the file (it shrank after it was binned) or an empty read does not end the part, because the receiver finds the parts behind it by counting the bytes the header promised")
	if fn := needFn(e, r, "R13.11", "payload.(*Encoder).Read"); fn != nil {
		cls := labeler(
			C("(p0.binPart == nil)", "noPart"),
			C("(«\\(+»p0.binPart.end - p0.binPart.beg) - §) «(==|<=)» 0)", "partEmitted"),
			C("(0 «(==|>=)» «\\(+»p0.binPart.end - p0.binPart.beg) - §))", "partEmitted"),
		)
		n := e.Guarded(r, "R13.11", "payload.(*Encoder).Read: startNextPart only when the current part is emitted in full", fn, e.instrMatch("call(payload.(*Encoder).startNextPart)(p0)"), cls,
			func(l LabelSet) bool { return l.HasAny("noPart", "partEmitted") }, "binPart == nil, or bytes left of the part == 0")
		r.Min("R13.11", "part switches in Encoder.Read", n, 2)
	}
	// ---------------------------------------------------------------- R13.12
	r.Rule("R13.12", "the separator announced is the separator used: every request or answer that carries X-STS-Sep sets it to the path separator of the platform it is built for (string(os.PathSeparator)) - the peer splits every name and predecessor on the announced character and re-joins with its own, so any other character that can occur in a name (the list separator `:` of time stamps, say) turns into directory levels on arrival")
	{
		sepKey := e.constOr("http", "HeaderSep")
		want := strconv.Quote(string(os.PathSeparator))
		n := 0
		for _, fn := range e.FuncsIn("http") {
			for _, in := range e.findInstrs(fn, "call(http.(Header).«(Add|Set)»)(§, "+sepKey+", §)", false) {
				n++
				args := in.(ssa.CallInstruction).Common().Args
				v := e.Canon(args[len(args)-1])
				r.Check(v == want, "R13.12", e.ShortName(fn)+": X-STS-Sep = string(os.PathSeparator)", e.InstrPos(in),
					"the separator header is set to "+v+", not to the path separator "+want, 1, v)
			}
		}
		r.Min("R13.12", "places that set X-STS-Sep", n, 4)
	}
	// ---------------------------------------------------------------- R13.13
	r.Rule("R13.13", "a malformed range is refused with the names, before anything is prepared: validateParts returns nil only on paths where, for every part, beg >= 0, end >= beg and end <= the announced file size were tested (the part decoder slices with the range and the stage sizes, seeks and records with it)")
	if fn := needFn(e, r, "R13.13", "http.validateParts"); fn != nil {
		sl := "invoke(sts.Binned.GetSlice)(p0[§])"
		sz := "invoke(sts.Binned.GetFileSize)(p0[§])"
		cls := labeler(
			C("(0 <= "+sl+"#0)", "begOK"), C("("+sl+"#0 >= 0)", "begOK"),
			C("("+sl+"#0 <= "+sl+"#1)", "orderOK"), C("("+sl+"#1 >= "+sl+"#0)", "orderOK"),
			C("("+sl+"#1 <= "+sz+")", "endOK"), C("("+sz+" >= "+sl+"#1)", "endOK"),
		)
		// each of the three tests exists and its failing side leaves with an error
		n := 0
		for _, t := range []struct {
			what string
			pats []string
		}{
			{"beg >= 0", []string{"(" + sl + "#0 < 0)", "(0 > " + sl + "#0)"}},
			{"end >= beg", []string{"(" + sl + "#1 < " + sl + "#0)", "(" + sl + "#0 > " + sl + "#1)"}},
			{"end <= size", []string{"(" + sz + " < " + sl + "#1)", "(" + sl + "#1 > " + sz + ")"}},
		} {
			found := false
			for _, p := range t.pats {
				for _, ed := range e.ifEdges(fn, p) {
					succ := ed.B.Succs[ed.Succ]
					// the failing side reaches a return of a non-nil error without passing the loop header
					if rt, ok := succ.Instrs[len(succ.Instrs)-1].(*ssa.Return); ok && len(rt.Results) == 1 && e.Canon(rt.Results[0]) != "nil" {
						found = true
					}
				}
			}
			n++
			r.Check(found, "R13.13", "http.validateParts: refuses a part unless "+t.what, e.Pos(fn.Pos()),
				"no test `"+t.what+"` whose failing side returns an error", 1)
		}
		_ = cls
		r.Min("R13.13", "range tests in validateParts", n, 3)
		callers := 0
		for _, s := range e.AllSites() {
			if e.CalleeKey(s.Instr.Common()) == "http.validateParts" {
				callers++
			}
		}
		r.Min("R13.13", "routes that validate their parts", callers, 2)
	}
	// ---------------------------------------------------------------- R13.14
	r.Rule("R13.14", "what could not be read is not made up: in Encoder.Read a read that ended with an error goes on to account for the part and to start the next one only if that error is the end of the file (the short file is filled up, R13.11); any other error leaves the function before - it is not overwritten by the result of startNextPart while the unread tail of the buffer goes out as file content")
	if fn := needFn(e, r, "R13.14", "payload.(*Encoder).Read"); fn != nil {
		rd := "invoke(sts.Readable.Read)(p0.handle, §)#1"
		cls := labeler(
			C("("+rd+" != nil)", "readErr"),
			L{Kind: EvCond, Re: pat("(" + rd + " == nil)"), Kill: "readErr"}, // the same value seen nil: not an error path
			C("(global(io.EOF) == "+rd+")", "isEOF"), C("("+rd+" == global(io.EOF))", "isEOF"),
			C("call(errors.Is)("+rd+", global(io.EOF))", "isEOF"),
		)
		n := 0
		for _, pat := range []string{"store(p0.partProgress = §)", "call(payload.(*Encoder).startNextPart)(p0)"} {
			n += e.Guarded(r, "R13.14", "payload.(*Encoder).Read: `"+shorten(pat)+"` is not reached with a read error other than the end of the file", fn, e.instrMatch(pat), cls,
				func(l LabelSet) bool { return !l.Has("readErr") || l.Has("isEOF") }, "no read error, or the error is io.EOF")
		}
		r.Min("R13.14", "accounting steps in Encoder.Read", n, 2)
	}
	// ---------------------------------------------------------------- R13.15
	r.Rule("R13.15", "a body without a declared length is a body: hasRequestBody admits ContentLength != 0 (a streamed payload has -1 over HTTP/2 and HTTP/3, where there is no Transfer-Encoding to fall back on) - `> 0` refuses every payload that does not travel over HTTP/1.1")
	if fn := needFn(e, r, "R13.15", "http.hasRequestBody"); fn != nil {
		ok := len(e.ifEdges(fn, "(p0.ContentLength != 0)")) > 0 || len(e.ifEdges(fn, "(0 != p0.ContentLength)")) > 0
		bad := len(e.ifEdges(fn, "(p0.ContentLength > 0)"))+len(e.ifEdges(fn, "(0 < p0.ContentLength)")) > 0
		r.Check(ok && !bad, "R13.15", "http.hasRequestBody: any non-zero ContentLength counts (-1 = unknown)", e.Pos(fn.Pos()),
			"the body test no longer admits an unknown length (-1): streamed payloads over HTTP/2 and HTTP/3 are refused with 400", 1)
	}
}
