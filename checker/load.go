package main

import (
	"fmt"
	"go/token"
	"go/types"
	"os"
	"sort"
	"strings"

	"golang.org/x/tools/go/callgraph"
	"golang.org/x/tools/go/callgraph/cha"
	"golang.org/x/tools/go/callgraph/vta"
	"golang.org/x/tools/go/packages"
	"golang.org/x/tools/go/ssa"
	"golang.org/x/tools/go/ssa/ssautil"
)

const modPath = "github.com/arm-doe/sts"

// Engine holds the loaded, type-checked program and its SSA form.
type Engine struct {
	RepoDir    string
	Fset       *token.FileSet
	Pkgs       map[string]*packages.Package // by import path (module packages only)
	Prog       *ssa.Program
	SSAPkgs    map[string]*ssa.Package
	Funcs      []*ssa.Function          // every function of the module (methods, closures, instances), minus package mock
	byName     map[string]*ssa.Function // short name -> function
	parents    map[*ssa.Function]*ssa.MakeClosure
	vtaGraph   *callgraph.Graph
	chaGraph   *callgraph.Graph
	Excluded   []string
	canonMemo  map[ssa.Value]string
	fnInfos    map[*ssa.Function]*fnInfo
	sharing    map[string]bool
	sharedRuns map[string]*Report
}

// Load type-checks every package of the module in repoDir and builds SSA.
func Load(repoDir string, overlay map[string][]byte) (*Engine, error) {
	cfg := &packages.Config{
		Mode:    packages.LoadAllSyntax,
		Dir:     repoDir,
		Tests:   false,
		Env:     goEnv(),
		Overlay: overlay,
	}
	pkgs, err := packages.Load(cfg, "./...")
	if err != nil {
		return nil, fmt.Errorf("load: %v", err)
	}
	if len(pkgs) == 0 {
		return nil, fmt.Errorf("load: no packages found in %s", repoDir)
	}
	e := &Engine{
		RepoDir:   repoDir,
		Pkgs:      map[string]*packages.Package{},
		SSAPkgs:   map[string]*ssa.Package{},
		byName:    map[string]*ssa.Function{},
		parents:   map[*ssa.Function]*ssa.MakeClosure{},
		canonMemo: map[ssa.Value]string{},
		fnInfos:   map[*ssa.Function]*fnInfo{},
	}
	var errs []string
	packages.Visit(pkgs, nil, func(p *packages.Package) {
		if strings.HasPrefix(p.PkgPath, modPath) {
			for _, pe := range p.Errors {
				errs = append(errs, pe.Error())
			}
		}
	})
	if len(errs) > 0 {
		return nil, fmt.Errorf("type-check errors in module (%d): %s", len(errs), strings.Join(errs, "; "))
	}
	for _, p := range pkgs {
		e.Pkgs[p.PkgPath] = p
		e.Fset = p.Fset
	}
	if len(e.Pkgs) < 17 {
		return nil, fmt.Errorf("load: only %d module packages found, expected >= 17", len(e.Pkgs))
	}
	prog, spkgs := ssautil.AllPackages(pkgs, ssa.InstantiateGenerics)
	prog.Build()
	e.Prog = prog
	for i, sp := range spkgs {
		if sp == nil {
			return nil, fmt.Errorf("no SSA for package %s", pkgs[i].PkgPath)
		}
		e.SSAPkgs[pkgs[i].PkgPath] = sp
	}
	all := ssautil.AllFunctions(prog)
	for fn := range all {
		p := fnPkg(fn)
		if p == nil || !strings.HasPrefix(p.Path(), modPath) {
			continue
		}
		if p.Path() == modPath+"/mock" {
			continue
		}
		if fn.Blocks == nil {
			continue
		}
		e.Funcs = append(e.Funcs, fn)
	}
	e.Excluded = []string{modPath + "/mock (test scaffolding re-implementing cache; not shipped behaviour)"}
	sort.Slice(e.Funcs, func(i, j int) bool { return e.ShortName(e.Funcs[i]) < e.ShortName(e.Funcs[j]) })
	for _, fn := range e.Funcs {
		e.byName[e.ShortName(fn)] = fn
		for _, b := range fn.Blocks {
			for _, in := range b.Instrs {
				if mc, ok := in.(*ssa.MakeClosure); ok {
					if cf, ok := mc.Fn.(*ssa.Function); ok {
						e.parents[cf] = mc
					}
				}
			}
		}
	}
	return e, nil
}

func fnPkg(fn *ssa.Function) *types.Package {
	for f := fn; f != nil; f = f.Parent() {
		if f.Pkg != nil {
			return f.Pkg.Pkg
		}
		if o := f.Origin(); o != nil && o.Pkg != nil {
			return o.Pkg.Pkg
		}
		if f.Object() != nil && f.Object().Pkg() != nil {
			return f.Object().Pkg()
		}
	}
	return nil
}

// ShortName gives "pkg.Func", "pkg.(*T).Method", "pkg.(*T).Method$1".
func (e *Engine) ShortName(fn *ssa.Function) string {
	if fn == nil {
		return "<nil>"
	}
	p := fnPkg(fn)
	s := fn.RelString(p)
	if p != nil {
		name := p.Name()
		if p.Path() == modPath {
			name = "sts"
		} else if strings.HasPrefix(p.Path(), modPath+"/") {
			name = strings.TrimPrefix(p.Path(), modPath+"/")
		}
		return name + "." + s
	}
	return s
}

// Fn resolves a function by short name; nil if absent.
func (e *Engine) Fn(short string) *ssa.Function { return e.byName[short] }

// Pos renders a position relative to the repo.
func (e *Engine) Pos(p token.Pos) string {
	if !p.IsValid() {
		return "?"
	}
	pp := e.Fset.Position(p)
	f := strings.TrimPrefix(pp.Filename, e.RepoDir+"/")
	return fmt.Sprintf("%s:%d", f, pp.Line)
}

func (e *Engine) InstrPos(in ssa.Instruction) string {
	if in == nil {
		return "?"
	}
	if p := in.Pos(); p.IsValid() {
		return e.Pos(p)
	}
	// fall back to any operand/neighbour with a position
	if v, ok := in.(ssa.Value); ok {
		if refs := v.Referrers(); refs != nil {
			for _, r := range *refs {
				if r.Pos().IsValid() {
					return e.Pos(r.Pos())
				}
			}
		}
	}
	b := in.Block()
	if b != nil {
		for _, i2 := range b.Instrs {
			if i2.Pos().IsValid() {
				return e.Pos(i2.Pos()) + "~"
			}
		}
		return e.Pos(b.Parent().Pos()) + "~"
	}
	return "?"
}

// Type looks up a named type "pkg.T" (pkg = path under module, "sts" for root).
func (e *Engine) Type(pkg, name string) types.Type {
	p := e.pkgByShort(pkg)
	if p == nil {
		return nil
	}
	o := p.Types.Scope().Lookup(name)
	if o == nil {
		return nil
	}
	return o.Type()
}

func (e *Engine) pkgByShort(pkg string) *packages.Package {
	path := modPath + "/" + pkg
	if pkg == "sts" || pkg == "" {
		path = modPath
	}
	return e.Pkgs[path]
}

// ConstVal returns the value string of a package-level constant.
func (e *Engine) ConstVal(pkg, name string) (string, bool) {
	p := e.pkgByShort(pkg)
	if p == nil {
		return "", false
	}
	o, ok := p.Types.Scope().Lookup(name).(*types.Const)
	if !ok {
		return "", false
	}
	return o.Val().ExactString(), true
}

// VTA returns (building lazily) the VTA call graph.
func (e *Engine) VTA() *callgraph.Graph {
	if e.vtaGraph == nil {
		all := ssautil.AllFunctions(e.Prog)
		e.vtaGraph = vta.CallGraph(all, e.CHA())
	}
	return e.vtaGraph
}

func (e *Engine) CHA() *callgraph.Graph {
	if e.chaGraph == nil {
		e.chaGraph = cha.CallGraph(e.Prog)
	}
	return e.chaGraph
}

// Parent closure creation site of an anonymous function.
func (e *Engine) ClosureSite(fn *ssa.Function) *ssa.MakeClosure { return e.parents[fn] }

// FuncsIn returns all functions (incl. closures) of a module package.
func (e *Engine) FuncsIn(pkg string) []*ssa.Function {
	var out []*ssa.Function
	for _, fn := range e.Funcs {
		if strings.HasPrefix(e.ShortName(fn), pkg+".") {
			out = append(out, fn)
		}
	}
	return out
}

// WithClosures returns fn and all its (transitively) nested anonymous functions.
func WithClosures(fn *ssa.Function) []*ssa.Function {
	out := []*ssa.Function{fn}
	for _, a := range fn.AnonFuncs {
		out = append(out, WithClosures(a)...)
	}
	return out
}

// goEnv is the environment that works offline in this sandbox: the 1.26.8
// toolchain first on PATH, no toolchain switching, no network, no workspace.
func goEnv() []string {
	env := os.Environ()
	path := os.Getenv("PATH")
	if _, err := os.Stat("/opt/veriftools/go1.26.8/bin/go"); err == nil && !strings.HasPrefix(path, "/opt/veriftools/go1.26.8/bin") {
		path = "/opt/veriftools/go1.26.8/bin:" + path
		os.Setenv("PATH", path)
	}
	return append(env, "PATH="+path, "GOWORK=off", "GOFLAGS=-mod=mod", "GOPROXY=off", "GOSUMDB=off", "GOTOOLCHAIN=local")
}
