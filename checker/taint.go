package main

import (
	"go/types"
	"strings"

	"golang.org/x/tools/go/ssa"
)

// Taint is a field-based, flow-insensitive, interprocedural forward taint
// analysis over the module's SSA.  Values, struct fields (per field object,
// all instances), local variables, containers and function parameters /
// results carry taint.  Calls into the module propagate argument->parameter
// and result->call; interface calls are resolved to every module method with
// that name whose receiver implements the interface; calls outside the module
// propagate any tainted argument (or receiver) to the result unless the rule
// declares the callee a sanitizer or a stopper.
type Taint struct {
	e         *Engine
	Source    func(v ssa.Value) bool                       // seeds
	Sanitizer func(call *ssa.CallCommon, key string) bool  // result of this call is clean even if args are tainted
	NoEnter   func(fn *ssa.Function) bool                  // do not propagate into this module function (treated as external)
	CleanAt   func(v ssa.Value, user ssa.Instruction) bool // value is considered clean at this use (validated region)

	val           map[ssa.Value]bool
	field         map[*types.Var]bool
	why           map[ssa.Value]ssa.Value
	whyFld        map[*types.Var]ssa.Value
	methodsByName map[string][]*ssa.Function
	changed       bool
}

func NewTaint(e *Engine) *Taint {
	t := &Taint{e: e, val: map[ssa.Value]bool{}, field: map[*types.Var]bool{}, why: map[ssa.Value]ssa.Value{},
		whyFld: map[*types.Var]ssa.Value{}, methodsByName: map[string][]*ssa.Function{}}
	for _, fn := range e.Funcs {
		if fn.Signature.Recv() != nil {
			t.methodsByName[fn.Name()] = append(t.methodsByName[fn.Name()], fn)
		}
	}
	return t
}

func (t *Taint) Is(v ssa.Value) bool { return t.val[v] }

func (t *Taint) mark(v ssa.Value, from ssa.Value) {
	if v == nil || t.val[v] {
		return
	}
	t.val[v] = true
	t.why[v] = from
	t.changed = true
}

func (t *Taint) markField(f *types.Var, from ssa.Value) {
	if t.field[f] {
		return
	}
	t.field[f] = true
	t.whyFld[f] = from
	t.changed = true
}

func fieldVar(x ssa.Value, idx int) *types.Var {
	tp := x.Type().Underlying()
	if p, ok := tp.(*types.Pointer); ok {
		tp = p.Elem().Underlying()
	}
	st, ok := tp.(*types.Struct)
	if !ok || idx >= st.NumFields() {
		return nil
	}
	return st.Field(idx)
}

// Run iterates to a fixed point.
func (t *Taint) Run() {
	for round := 0; round < 200; round++ {
		t.changed = false
		for _, fn := range t.e.Funcs {
			t.stepFn(fn)
		}
		if !t.changed {
			return
		}
	}
}

func (t *Taint) stepFn(fn *ssa.Function) {
	for _, p := range fn.Params {
		if t.Source != nil && !t.val[p] && t.Source(p) {
			t.mark(p, nil)
		}
	}
	for _, b := range fn.Blocks {
		for _, in := range b.Instrs {
			if v, ok := in.(ssa.Value); ok && t.Source != nil && !t.val[v] && t.Source(v) {
				t.mark(v, nil)
			}
			t.stepInstr(fn, in)
		}
	}
}

func (t *Taint) tv(v ssa.Value, user ssa.Instruction) bool {
	if !t.val[v] {
		return false
	}
	if t.CleanAt != nil && t.CleanAt(v, user) {
		return false
	}
	return true
}

func (t *Taint) stepInstr(fn *ssa.Function, in ssa.Instruction) {
	switch x := in.(type) {
	case *ssa.BinOp:
		if t.tv(x.X, in) {
			t.mark(x, x.X)
		} else if t.tv(x.Y, in) {
			t.mark(x, x.Y)
		}
	case *ssa.Phi:
		for _, ed := range x.Edges {
			if t.tv(ed, in) {
				t.mark(x, ed)
			}
		}
	case *ssa.ChangeType:
		if t.tv(x.X, in) {
			t.mark(x, x.X)
		}
	case *ssa.Convert:
		if t.tv(x.X, in) {
			t.mark(x, x.X)
		}
	case *ssa.MakeInterface:
		if t.tv(x.X, in) {
			t.mark(x, x.X)
		}
	case *ssa.ChangeInterface:
		if t.tv(x.X, in) {
			t.mark(x, x.X)
		}
	case *ssa.TypeAssert:
		if t.tv(x.X, in) {
			t.mark(x, x.X)
		}
	case *ssa.Extract:
		if t.tv(x.Tuple, in) {
			t.mark(x, x.Tuple)
		}
	case *ssa.Slice:
		if t.tv(x.X, in) {
			t.mark(x, x.X)
		}
	case *ssa.Index:
		if t.tv(x.X, in) {
			t.mark(x, x.X)
		}
	case *ssa.Lookup:
		if t.tv(x.X, in) {
			t.mark(x, x.X)
		}
	case *ssa.IndexAddr:
		if t.tv(x.X, in) {
			t.mark(x, x.X)
		}
	case *ssa.Range:
		if t.tv(x.X, in) {
			t.mark(x, x.X)
		}
	case *ssa.Next:
		if t.tv(x.Iter, in) {
			t.mark(x, x.Iter)
		}
	case *ssa.Field:
		if f := fieldVar(x.X, x.Field); f != nil && t.field[f] {
			t.mark(x, nil)
		}
		if t.tv(x.X, in) {
			t.mark(x, x.X)
		}
	case *ssa.FieldAddr:
		if f := fieldVar(x.X, x.Field); f != nil && t.field[f] {
			t.mark(x, nil)
		}
	case *ssa.UnOp:
		if t.tv(x.X, in) {
			t.mark(x, x.X)
		}
	case *ssa.Store:
		if t.tv(x.Val, in) {
			t.storeTo(x.Addr, x.Val)
		}
	case *ssa.MapUpdate:
		if t.tv(x.Value, in) || t.tv(x.Key, in) {
			t.mark(x.Map, x.Value)
		}
	case *ssa.Send:
		if t.tv(x.X, in) {
			t.mark(x.Chan, x.X)
		}
	case *ssa.MakeClosure:
		if cf, ok := x.Fn.(*ssa.Function); ok {
			for i, b := range x.Bindings {
				if i < len(cf.FreeVars) && t.tv(b, in) {
					t.mark(cf.FreeVars[i], b)
				}
			}
		}
	case *ssa.Return:
		// handled from the caller side (callee results)
	case ssa.CallInstruction:
		t.stepCall(fn, x)
	}
}

func (t *Taint) storeTo(addr ssa.Value, val ssa.Value) {
	switch a := addr.(type) {
	case *ssa.FieldAddr:
		if f := fieldVar(a.X, a.Field); f != nil {
			t.markField(f, val)
		}
		t.mark(a, val)
	case *ssa.IndexAddr:
		t.mark(a.X, val)
		// slice of an array alloc: taint the alloc too
		if sl, ok := a.X.(*ssa.Slice); ok {
			t.mark(sl.X, val)
		}
		t.mark(a, val)
	case *ssa.Alloc:
		t.mark(a, val)
	case *ssa.FreeVar:
		t.mark(a, val)
		// propagate back to the captured variable in the parent
		if mc := t.e.parents[a.Parent()]; mc != nil {
			for i, fv := range a.Parent().FreeVars {
				if fv == a && i < len(mc.Bindings) {
					t.mark(mc.Bindings[i], val)
				}
			}
		}
	case *ssa.Global:
		t.mark(a, val)
	default:
		t.mark(addr, val)
	}
}

// Callees resolves the module functions a call may reach.
func (t *Taint) Callees(cc *ssa.CallCommon) []*ssa.Function {
	if cc.IsInvoke() {
		var out []*ssa.Function
		it, _ := cc.Value.Type().Underlying().(*types.Interface)
		for _, m := range t.methodsByName[cc.Method.Name()] {
			rt := m.Signature.Recv().Type()
			if it != nil && (types.Implements(rt, it)) {
				out = append(out, m)
			}
		}
		return out
	}
	switch f := cc.Value.(type) {
	case *ssa.Function:
		return []*ssa.Function{f}
	case *ssa.MakeClosure:
		if fn, ok := f.Fn.(*ssa.Function); ok {
			return []*ssa.Function{fn}
		}
	}
	return nil
}

func (t *Taint) inModule(fn *ssa.Function) bool {
	if fn.Blocks == nil {
		return false
	}
	p := fnPkg(fn)
	return p != nil && strings.HasPrefix(p.Path(), modPath) && p.Path() != modPath+"/mock"
}

func (t *Taint) stepCall(fn *ssa.Function, ci ssa.CallInstruction) {
	cc := ci.Common()
	key := t.e.CalleeKey(cc)
	var args []ssa.Value
	if cc.IsInvoke() {
		args = append(args, cc.Value)
	}
	args = append(args, cc.Args...)
	anyT := false
	for _, a := range args {
		if t.tv(a, ci) {
			anyT = true
		}
	}
	callees := t.Callees(cc)
	entered := false
	for _, cal := range callees {
		if !t.inModule(cal) || (t.NoEnter != nil && t.NoEnter(cal)) {
			continue
		}
		entered = true
		for i, a := range args {
			if i < len(cal.Params) && t.tv(a, ci) {
				t.mark(cal.Params[i], a)
			}
		}
		// variadic / mismatch tolerated
		if v := ci.Value(); v != nil {
			for _, b := range cal.Blocks {
				if len(b.Instrs) == 0 {
					continue
				}
				if ret, ok := b.Instrs[len(b.Instrs)-1].(*ssa.Return); ok {
					for _, r := range ret.Results {
						if t.tv(r, ret) {
							t.mark(v, r)
						}
					}
				}
			}
		}
	}
	// callbacks: a closure / function value passed to a call whose other arguments are tainted
	// (filepath.Walk(root, fn): fn's path parameter derives from root)
	if anyT {
		for _, a := range args {
			if cf := funcOf(a); cf != nil && t.inModule(cf) {
				if strings.HasSuffix(key, "filepath.Walk") || strings.HasSuffix(key, "fileutil.Walk") || strings.HasSuffix(key, "filepath.WalkDir") {
					if len(cf.Params) > 0 {
						t.mark(cf.Params[0], args[0])
					}
				}
			}
		}
	}
	if entered {
		return
	}
	if t.Sanitizer != nil && t.Sanitizer(cc, key) {
		return
	}
	// external or dynamic: result tainted if any argument is
	if v := ci.Value(); v != nil && anyT {
		for _, a := range args {
			if t.tv(a, ci) {
				t.mark(v, a)
				break
			}
		}
	}
	// dynamic call of a function value known in the module (func-typed field): propagate through VTA-free heuristic:
	// if the callee is a load of a func-typed struct field, any function stored to that field is a callee.
	if !cc.IsInvoke() && callees == nil {
		if fns := t.fieldFuncs(cc.Value); len(fns) > 0 {
			for _, cal := range fns {
				if !t.inModule(cal) {
					continue
				}
				off := 0
				if cal.Signature.Recv() != nil {
					off = 1 // bound method value: receiver is params[0]
				}
				for i, a := range cc.Args {
					if i+off < len(cal.Params) && t.tv(a, ci) {
						t.mark(cal.Params[i+off], a)
					}
				}
				if v := ci.Value(); v != nil {
					for _, b := range cal.Blocks {
						if len(b.Instrs) == 0 {
							continue
						}
						if ret, ok := b.Instrs[len(b.Instrs)-1].(*ssa.Return); ok {
							for _, r := range ret.Results {
								if t.tv(r, ret) {
									t.mark(v, r)
								}
							}
						}
					}
				}
			}
		}
	}
}

func funcOf(v ssa.Value) *ssa.Function {
	for {
		switch x := v.(type) {
		case *ssa.Function:
			return x
		case *ssa.MakeClosure:
			if f, ok := x.Fn.(*ssa.Function); ok {
				return f
			}
			return nil
		case *ssa.ChangeType:
			v = x.X
		case *ssa.MakeInterface:
			v = x.X
		default:
			return nil
		}
	}
}

// fieldFuncs: if v is a load of a func-typed struct field, return all module
// functions ever stored into that field (field-based).
func (t *Taint) fieldFuncs(v ssa.Value) []*ssa.Function {
	u, ok := v.(*ssa.UnOp)
	if !ok {
		return nil
	}
	fa, ok := u.X.(*ssa.FieldAddr)
	if !ok {
		return nil
	}
	f := fieldVar(fa.X, fa.Field)
	if f == nil {
		return nil
	}
	return t.e.FuncsStoredInField(f)
}

// FuncsStoredInField finds functions (incl. bound method values) stored into a struct field anywhere in the module.
func (e *Engine) FuncsStoredInField(f *types.Var) []*ssa.Function {
	var out []*ssa.Function
	for _, fn := range e.Funcs {
		Instrs(fn, func(in ssa.Instruction) {
			st, ok := in.(*ssa.Store)
			if !ok {
				return
			}
			fa, ok := st.Addr.(*ssa.FieldAddr)
			if !ok || fieldVar(fa.X, fa.Field) != f {
				return
			}
			if cf := funcOf(st.Val); cf != nil {
				// bound method closure: x.M$bound -> resolve to the method
				if cf.Synthetic != "" && strings.HasPrefix(cf.Synthetic, "bound method wrapper") {
					if obj, ok := cf.Object().(*types.Func); ok {
						if m := e.Prog.FuncValue(obj); m != nil {
							cf = m
						}
					}
				}
				out = append(out, cf)
			}
		})
	}
	return out
}

// Trace renders the chain of values through which v became tainted.
func (t *Taint) Trace(v ssa.Value) []string {
	var out []string
	seen := map[ssa.Value]bool{}
	for v != nil && !seen[v] && len(out) < 14 {
		seen[v] = true
		where := ""
		if in, ok := v.(ssa.Instruction); ok {
			where = t.e.ShortName(in.Parent()) + " @" + t.e.InstrPos(in)
		} else if p, ok := v.(*ssa.Parameter); ok {
			where = t.e.ShortName(p.Parent()) + " param " + p.Name()
		} else if fv, ok := v.(*ssa.FreeVar); ok {
			where = t.e.ShortName(fv.Parent()) + " captured " + fv.Name()
		}
		out = append(out, t.e.Canon(v)+"   ["+where+"]")
		v = t.why[v]
	}
	return out
}
