package main

import (
	"fmt"
	"go/types"
	"reflect"
	"sort"
	"strings"

	"golang.org/x/tools/go/ssa"
)

func init() { register("C19", rulesC19) }

func tagOf(st *types.Struct, i int, key string) string {
	return strings.Split(reflect.StructTag(st.Tag(i)).Get(key), ",")[0]
}

// storedFields lists the names of the fields of the object `obj` (canonical
// receiver, e.g. "p0" or "&new(sts.auxTagConf)") that fn stores to, including
// stores to sub-fields (aux.X.Duration = ...).
func (e *Engine) storedFields(fn *ssa.Function, obj string) map[string]bool {
	out := map[string]bool{}
	Instrs(fn, func(in ssa.Instruction) {
		st, ok := in.(*ssa.Store)
		if !ok {
			return
		}
		a := strings.TrimLeft(e.Canon(st.Addr), "&")
		o := strings.TrimLeft(obj, "&")
		if strings.HasPrefix(a, o+".") {
			f := strings.TrimPrefix(a, o+".")
			if i := strings.IndexAny(f, ".["); i >= 0 {
				f = f[:i]
			}
			out[f] = true
		}
	})
	return out
}

func rulesC19(e *Engine, r *Report) {
	root := e.pkgByShort("sts")
	if root == nil {
		r.Unresolved("R19.1", "package sts")
		return
	}
	lookup := func(n string) (*types.Struct, types.Object) {
		o := root.Types.Scope().Lookup(n)
		if o == nil {
			return nil, nil
		}
		s, _ := o.Type().Underlying().(*types.Struct)
		return s, o
	}
	pairs := []struct{ T, aux string }{{"SourceConf", "auxSourceConf"}, {"TagConf", "auxTagConf"}, {"TargetConf", "auxTargetConf"}, {"MappingConf", "auxMappingConf"}}

	// ---------------------------------------------------------------- R19.1
	r.Rule("R19.1", "field coverage of the codecs: for each pair (T, auxT) - Source, Tag, Target, Mapping - applyAux assigns every exported field of T that has a like-named counterpart, MarshalJSON fills every such counterpart back, the counterparts carry identical yaml and json keys, and no key is used twice in a struct")
	for _, p := range pairs {
		st, so := lookup(p.T)
		at, ao := lookup(p.aux)
		if st == nil || at == nil {
			r.Unresolved("R19.1", "sts."+p.T+" / sts."+p.aux)
			continue
		}
		auxFields := map[string]int{}
		for i := 0; i < at.NumFields(); i++ {
			auxFields[at.Field(i).Name()] = i
		}
		apply := needFn(e, r, "R19.1", "sts.(*"+p.T+").applyAux")
		marshal := e.Fn("sts.(*" + p.T + ").MarshalJSON")
		if marshal == nil {
			// no custom encoder: the struct's own json keys must be the aux struct's keys
			okOwn := true
			var diffs []string
			for i := 0; i < st.NumFields(); i++ {
				f := st.Field(i)
				if ai, has := auxFields[f.Name()]; has && f.Exported() {
					if tagOf(st, i, "json") != tagOf(at, ai, "json") || tagOf(st, i, "json") == "" {
						okOwn = false
						diffs = append(diffs, f.Name())
					}
				}
			}
			r.Check(okOwn, "R19.1", "sts."+p.T+": encoded with its own json keys, identical to the parser's", e.Pos(so.Pos()),
				"without a custom MarshalJSON the struct's json keys must match the keys the parser reads: "+strings.Join(diffs, ", "), st.NumFields())
		}
		var applied, marshalled map[string]bool
		if apply != nil {
			applied = e.storedFields(apply, "p0")
		}
		if marshal != nil {
			marshalled = e.storedFields(marshal, "&new(sts."+p.aux+")")
		}
		n := 0
		for i := 0; i < st.NumFields(); i++ {
			f := st.Field(i)
			if !f.Exported() {
				continue
			}
			if _, has := auxFields[f.Name()]; !has {
				continue
			}
			n++
			if apply != nil {
				r.Check(applied[f.Name()], "R19.1", fmt.Sprintf("sts.(*%s).applyAux assigns %s", p.T, f.Name()), e.Pos(apply.Pos()),
					"an option present in the parsed document is never copied into the configuration (it silently keeps its zero value and is then inherited)", 1)
			}
			if marshal != nil {
				r.Check(marshalled[f.Name()], "R19.1", fmt.Sprintf("sts.(*%s).MarshalJSON emits %s", p.T, f.Name()), e.Pos(marshal.Pos()),
					"an option is dropped when the configuration is re-encoded for a managed client", 1)
			}
		}
		r.Min("R19.1", "fields with a counterpart in "+p.T, n, 2)
		// tags of the aux struct
		seenY, seenJ := map[string]string{}, map[string]string{}
		okTags := true
		var facts []string
		for i := 0; i < at.NumFields(); i++ {
			y, j := tagOf(at, i, "yaml"), tagOf(at, i, "json")
			if y == "" || j == "" || y != j {
				okTags = false
				facts = append(facts, fmt.Sprintf("%s: yaml=%q json=%q", at.Field(i).Name(), y, j))
			}
			if prev, dup := seenY[y]; dup {
				okTags = false
				facts = append(facts, "yaml key "+y+" on "+prev+" and "+at.Field(i).Name())
			}
			if prev, dup := seenJ[j]; dup {
				okTags = false
				facts = append(facts, "json key "+j+" on "+prev+" and "+at.Field(i).Name())
			}
			seenY[y], seenJ[j] = at.Field(i).Name(), at.Field(i).Name()
		}
		r.Check(okTags, "R19.1", "sts."+p.aux+": yaml and json keys identical, non-empty, unique", e.Pos(ao.Pos()), "the two spellings of the document disagree: "+strings.Join(facts, "; "), at.NumFields(), facts...)
		_ = so
	}

	// ---------------------------------------------------------------- R19.7
	r.Rule("R19.7", "inheritance shares values, not storage that is written later: a slice option that a later source inherits is the SAME slice as the preceding source's; the sender's wiring must therefore not append to a list that still is the configuration's own slice (a tag's `never send over HTTP` pattern would land in another source's filter) - shared with R17.8")
	e.checkNoSharedAppend(r, "R19.7")

	// ---------------------------------------------------------------- R19.8
	r.Rule("R19.8", "an omitted list stays nil so that it can be inherited: inheritance copies a field only when it is zero, and for a slice zero means nil; where applyAux of a struct that takes part in inheritance fills a slice option by cutting it out of another list (a slice expression - empty but NOT nil when the option was omitted and the other list is not), the store must be conditional on the document's field being present (`aux.F != nil` / `len(aux.F) > 0`)")
	for _, tn := range []string{"SourceConf", "TagConf"} {
		fn := e.Fn("sts.(*" + tn + ").applyAux")
		if fn == nil {
			continue
		}
		n := 0
		Instrs(fn, func(in ssa.Instruction) {
			sto, ok := in.(*ssa.Store)
			if !ok {
				return
			}
			fa, ok := sto.Addr.(*ssa.FieldAddr)
			if !ok || e.Canon(fa.X) != "p0" {
				return
			}
			f := fieldVar(fa.X, fa.Field)
			if f == nil || !f.Exported() {
				return
			}
			if _, isSlice := f.Type().Underlying().(*types.Slice); !isSlice {
				return
			}
			sl, isCut := sto.Val.(*ssa.Slice)
			if !isCut {
				return // a direct copy keeps nil nil
			}
			if e.Canon(sl.X) == "p1."+f.Name() {
				return // a cut of the document's own field: nil stays nil
			}
			n++
			conds := e.domConds(in.Block())
			ok2 := hasStr(conds, "(p1."+f.Name()+" != nil)") || hasStr(conds, "(0 < builtin(len)(p1."+f.Name()+"))") || hasStr(conds, "(builtin(len)(p1."+f.Name()+") > 0)") || hasStr(conds, "(builtin(len)(p1."+f.Name()+") != 0)")
			r.Check(ok2, "R19.8", fmt.Sprintf("sts.(*%s).applyAux: %s is cut out of a joined list only when the document has it", tn, f.Name()), e.InstrPos(in),
				"an omitted `"+tagOfField(f)+"` becomes an empty non-nil list as soon as the neighbouring list is given, and is then NOT inherited from the preceding source", 1, append([]string{e.Canon(sto.Val)}, conds...)...)
		})
		if tn == "SourceConf" {
			r.Min("R19.8", "slice options cut out of a joined list in "+e.ShortName(fn), n, 2)
		}
	}

	// ---------------------------------------------------------------- R19.8 (encoder side)
	for _, tn := range []string{"SourceConf", "TagConf"} {
		fn := e.Fn("sts.(*" + tn + ").MarshalJSON")
		if fn == nil {
			continue
		}
		Instrs(fn, func(in ssa.Instruction) {
			sto, ok := in.(*ssa.Store)
			if !ok {
				return
			}
			fa, ok := sto.Addr.(*ssa.FieldAddr)
			if !ok || !strings.HasPrefix(e.Canon(fa.X), "&new(sts.aux") && !strings.HasPrefix(e.Canon(fa.X), "new(sts.aux") {
				return
			}
			f := fieldVar(fa.X, fa.Field)
			if f == nil {
				return
			}
			if _, isSlice := f.Type().Underlying().(*types.Slice); !isSlice {
				return
			}
			sl, isCut := sto.Val.(*ssa.Slice)
			if !isCut || e.Canon(sl.X) == "p0."+f.Name() {
				return
			}
			conds := e.domConds(in.Block())
			ok2 := hasStr(conds, "(p0."+f.Name()+" != nil)") || hasStr(conds, "(0 < builtin(len)(p0."+f.Name()+"))") || hasStr(conds, "(builtin(len)(p0."+f.Name()+") != 0)")
			r.Check(ok2, "R19.8", fmt.Sprintf("sts.(*%s).MarshalJSON: %s is cut out of the joined list only when the configuration has it", tn, f.Name()), e.InstrPos(in),
				"an omitted `"+tagOfField(f)+"` (nil) is ENCODED as an empty list as soon as the neighbouring list is present: the client that parses the document takes it for an explicit empty list and does not inherit the preceding source's", 1, append([]string{e.Canon(sto.Val)}, conds...)...)
		})
	}

	// ---------------------------------------------------------------- R19.6
	r.Rule("R19.6", "like to like: what applyAux stores into field F of the configuration derives from field F of the parsed document (and, for constants, is chosen under a test of that field), and what MarshalJSON writes back into F derives from F of the configuration - never from a different option; where two lists are converted in one pass (include + ignore patterns) each side is cut out of the joined list at the length of the list that was put FIRST")
	for _, p := range pairs {
		st, _ := lookup(p.T)
		at, _ := lookup(p.aux)
		if st == nil || at == nil {
			continue
		}
		common := map[string]bool{}
		for i := 0; i < st.NumFields(); i++ {
			for j := 0; j < at.NumFields(); j++ {
				if st.Field(i).Name() == at.Field(j).Name() && st.Field(i).Exported() {
					common[st.Field(i).Name()] = true
				}
			}
		}
		type side struct {
			fn       *ssa.Function
			dst, src string
		}
		sides := []side{{e.Fn("sts.(*" + p.T + ").applyAux"), "p0", "p1."}, {e.Fn("sts.(*" + p.T + ").MarshalJSON"), "&new(sts." + p.aux + ")", "p0."}}
		for _, sd := range sides {
			if sd.fn == nil {
				continue
			}
			mentions := func(s string) map[string]bool {
				out := map[string]bool{}
				for g := range common {
					key := sd.src + g
					for i := 0; ; {
						k := strings.Index(s[i:], key)
						if k < 0 {
							break
						}
						end := i + k + len(key)
						if end >= len(s) || !(s[end] == '_' || (s[end] >= 'a' && s[end] <= 'z') || (s[end] >= 'A' && s[end] <= 'Z') || (s[end] >= '0' && s[end] <= '9')) {
							out[g] = true
							break
						}
						i = end
					}
				}
				return out
			}
			n := 0
			Instrs(sd.fn, func(in ssa.Instruction) {
				sto, ok := in.(*ssa.Store)
				if !ok {
					return
				}
				addr := strings.TrimLeft(e.Canon(sto.Addr), "&")
				o := strings.TrimLeft(sd.dst, "&")
				if !strings.HasPrefix(addr, o+".") {
					return
				}
				f := strings.TrimPrefix(addr, o+".")
				if i := strings.IndexAny(f, ".["); i >= 0 {
					f = f[:i]
				}
				if !common[f] {
					return
				}
				val := e.Canon(sto.Val)
				vm := mentions(val)
				construct := fmt.Sprintf("%s: %s ← %s", e.ShortName(sd.fn), f, shorten(val))
				switch {
				case len(vm) == 0:
					cm := map[string]bool{}
					for _, c := range e.domConds(in.Block()) {
						for g := range mentions(c) {
							cm[g] = true
						}
					}
					if len(cm) == 0 {
						return // a default that depends on no option
					}
					n++
					r.Check(cm[f], "R19.6", construct, e.InstrPos(in), "the value stored into "+f+" is chosen under a test of other options only", 1)
				case len(vm) == 1:
					n++
					r.Check(vm[f], "R19.6", construct, e.InstrPos(in), "option "+f+" is filled from a different option", 1)
				default:
					n++
					// joined-list idiom: builtin(append)(src.A, src.B) converted in one loop, then cut
					var A, B string
					for g1 := range vm {
						for g2 := range vm {
							if g1 != g2 && (strings.Contains(val, "builtin(append)("+sd.src+g1+", "+sd.src+g2+")") ||
								pat("builtin(append)(builtin(append)(§, "+sd.src+g1+"), "+sd.src+g2+")").MatchString(val) ||
								strings.Contains(val, ", "+sd.src+g1+"), "+sd.src+g2+")")) {
								A, B = g1, g2
							}
						}
					}
					if A == "" && len(vm) == 2 && strings.HasPrefix(val, "phi(builtin(append)(phi#, [") {
						// two accumulation loops, one per list: the list whose loop ran first is the innermost phi,
						// i.e. the one mentioned LAST in the canonical string
						var gs []string
						for g := range vm {
							gs = append(gs, g)
						}
						if strings.LastIndex(val, sd.src+gs[0]+"[") > strings.LastIndex(val, sd.src+gs[1]+"[") {
							A, B = gs[0], gs[1]
						} else {
							A, B = gs[1], gs[0]
						}
					}
					okCut := false
					if len(vm) == 2 && A != "" {
						lenA := "builtin(len)(" + sd.src + A + ")"
						if f == A {
							okCut = strings.HasSuffix(val, "[0:"+lenA+"]") || strings.HasSuffix(val, "[:"+lenA+"]")
						}
						if f == B {
							okCut = strings.HasSuffix(val, "["+lenA+":]")
						}
					}
					r.Check(okCut, "R19.6", construct, e.InstrPos(in),
						"option "+f+" is filled from a value that mixes several options and is not the joined-list cut (first list: [0:len(first)], second list: [len(first):])", 1, val)
				}
			})
			if p.T == "SourceConf" || p.T == "TagConf" {
				r.Min("R19.6", "option stores examined in "+e.ShortName(sd.fn), n, 5)
			}
		}
	}

	// ---------------------------------------------------------------- R19.2 / R19.3
	r.Rule("R19.2", "tri-state booleans: every bool field of a struct that propagate() hands to CopyStruct as the target has a marker is<Field>Set that applyAux sets on an explicit false, propagate() consults to restore the original after the copy, and MarshalJSON consults to emit \"false\"")
	r.Rule("R19.9", "explicit zeros: every numeric or duration option of a struct that propagate() hands to CopyStruct as the target has a marker is<Field>Set (as ErrorBackoff has), because the inheritance copy fills every zero field and cannot tell `0` from `omitted`")
	r.Rule("R19.3", "propagate restores what it saved: for each marker the value written back after CopyStruct is the same field's value read before the copy, stored to the same element under that field's own marker")
	prop := needFn(e, r, "R19.2", "sts.(*ClientConf).propagate")
	if prop != nil {
		// targets of CopyStruct
		targets := map[string]string{} // type name -> canonical of the target expression
		var copies []ssa.Instruction
		for _, in := range e.findInstrs(prop, "call(reflectutil.CopyStruct)(§)", false) {
			copies = append(copies, in)
			a0 := in.(ssa.CallInstruction).Common().Args[0]
			if mi, ok := a0.(*ssa.MakeInterface); ok {
				tn := strings.TrimPrefix(e.typeShort(mi.X.Type()), "*sts.")
				targets[tn] = e.Canon(mi.X)
			}
		}
		r.Min("R19.2", "CopyStruct calls in propagate", len(copies), 3)
		var tnames []string
		for t := range targets {
			tnames = append(tnames, t)
		}
		sort.Strings(tnames)
		for _, tn := range tnames {
			st, _ := lookup(tn)
			if st == nil {
				continue
			}
			tgt := targets[tn]
			apply := e.Fn("sts.(*" + tn + ").applyAux")
			marshal := e.Fn("sts.(*" + tn + ").MarshalJSON")
			// R19.9: numeric options - an explicit zero is a value, too
			for i := 0; i < st.NumFields(); i++ {
				f := st.Field(i)
				b, isBasic := f.Type().Underlying().(*types.Basic)
				if !f.Exported() || !isBasic || b.Info()&types.IsNumeric == 0 {
					continue
				}
				marker := "is" + f.Name() + "Set"
				hasMarker := false
				for k := 0; k < st.NumFields(); k++ {
					if st.Field(k).Name() == marker {
						hasMarker = true
					}
				}
				construct := fmt.Sprintf("sts.%s.%s: explicit zero survives inheritance", tn, f.Name())
				r.Check(hasMarker, "R19.9", construct, e.Pos(f.Pos()),
					"a numeric / duration option of a struct that inherits through CopyStruct has no `explicitly set` marker: an explicit 0 in a later source/tag is overridden by the value of the one it inherits from", 1)
			}
			for i := 0; i < st.NumFields(); i++ {
				f := st.Field(i)
				b, isBasic := f.Type().Underlying().(*types.Basic)
				if !f.Exported() || !isBasic || b.Kind() != types.Bool {
					continue
				}
				marker := "is" + f.Name() + "Set"
				hasMarker := false
				for k := 0; k < st.NumFields(); k++ {
					if st.Field(k).Name() == marker {
						hasMarker = true
					}
				}
				construct := fmt.Sprintf("sts.%s.%s: explicit false survives inheritance", tn, f.Name())
				if !hasMarker {
					r.Bad("R19.2", construct, e.Pos(f.Pos()),
						"a boolean option of a struct that inherits through CopyStruct has no `explicitly set` marker: an explicit false in a later source/tag is overridden by a true of the one it inherits from", 1)
					continue
				}
				okA, okP, okM := false, false, false
				if apply != nil {
					for _, in := range e.findInstrs(apply, "store(p0."+marker+" = true)", false) {
						conds := e.domConds(in.Block())
						if hasStr(conds, `(call(strings.ToLower)(p1.`+f.Name()+`) == "false")`) || hasStr(conds, `(p1.`+f.Name()+` == "false")`) {
							okA = true
						}
					}
				}
				for _, in := range e.findInstrs(prop, "store("+tgt+"."+f.Name()+" = §)", false) {
					conds := e.domConds(in.Block())
					if !hasStr(conds, tgt+"."+marker) {
						continue
					}
					// R19.3: the value is the field's own value loaded before the copy of this struct
					st := in.(*ssa.Store)
					var loads []*ssa.UnOp
					fieldLoadsIn(st.Val, f.Name(), map[ssa.Value]bool{}, &loads)
					before := false
					for _, ld := range loads {
						if ssa.Value(ld) != st.Val {
							continue
						}
						for _, cp := range copies {
							if strings.HasPrefix(e.InstrStr(cp), "call(reflectutil.CopyStruct)("+tgt+",") && precedes(ld, cp) && precedes(cp, st) {
								before = true
							}
						}
					}
					r.Check(before && e.Canon(st.Val) == tgt+"."+f.Name(), "R19.3", fmt.Sprintf("propagate: %s.%s restored from its own value saved before the copy", tn, f.Name()), e.InstrPos(in),
						"the value written back is not this field's original (read before CopyStruct) of the same element", 1, e.Canon(st.Val))
					okP = true
				}
				if marshal != nil {
					for _, in := range e.findInstrs(marshal, "store(&new(sts.aux"+tn+")."+f.Name()+` = "false")`, false) {
						if hasStr(e.domConds(in.Block()), "p0."+marker) {
							okM = true
						}
					}
					if len(e.findInstrs(marshal, "store(&new(sts.aux"+tn+")."+f.Name()+` = "true")`, false)) == 0 {
						okM = false
					}
				}
				r.Check(okA, "R19.2", construct+" [applyAux sets "+marker+" on an explicit false]", e.Pos(f.Pos()), "the marker is never set when the document says false", 1)
				r.Check(okP, "R19.2", construct+" [propagate restores under "+marker+"]", e.Pos(f.Pos()), "propagate() does not write the original back under the marker", 1)
				r.Check(okM, "R19.2", construct+" [MarshalJSON emits \"false\" under "+marker+"]", e.Pos(f.Pos()),
					"an explicit false is not written when the configuration is re-encoded: after re-parsing the option looks omitted and is inherited", 1)
			}
		}
		// non-bool markers (ErrorBackoff): restored under their marker too
		for _, in := range e.findInstrs(prop, "store(§.ErrorBackoff = §)", false) {
			r.Check(hasStr(e.domConds(in.Block()), "§.isErrorBackoffSet"), "R19.3", "propagate: ErrorBackoff restored under isErrorBackoffSet", e.InstrPos(in), "the explicit back-off is restored under another condition", 1)
		}
		// default tag is Tags[0]; sources inherit from the preceding source
		tg := e.findInstrs(prop, "call(reflectutil.CopyStruct)(§.Tags[phi((phi# + 1)|1)], §.Tags[0])", false)
		r.Check(len(tg) == 1, "R19.2", "propagate: tags 1.. inherit from the default tag Tags[0]", e.Pos(prop.Pos()), "tags do not inherit from the first (default) tag", 1)
	}
	for _, name := range []string{"sts.(*ClientConf).UnmarshalYAML", "sts.(*ClientConf).UnmarshalJSON"} {
		if fn := needFn(e, r, "R19.2", name); fn != nil {
			pc := e.findInstrs(fn, "call(sts.(*ClientConf).propagate)(p0)", false)
			ok := len(pc) == 1 && hasStr(e.domConds(pc[0].Block()), "(§ == nil)")
			r.Check(ok, "R19.2", name+": propagate() after a successful parse", e.Pos(fn.Pos()), "inheritance is not applied after parsing this spelling", 1)
		}
	}

	// ---------------------------------------------------------------- R19.4
	r.Rule("R19.4", "tag wiring in the sender: queue tag i and client tag i are built from conf.Tags[i]; the queue tag takes Priority, Order, LastDelay and ChunkSize (default: the source's bin size) from that element and its name from the element's pattern; the client tag takes the queue tag's name and Delete/DeleteDelay from the same element; the tagger returns the name of the first tag whose pattern matches")
	{
		var initFn *ssa.Function
		for _, fn := range e.FuncsIn("main") {
			if len(e.allocsOf(fn, "queue.Tag")) > 0 {
				initFn = fn
			}
		}
		if initFn == nil {
			r.Unresolved("R19.4", "the function of package main that builds queue.Tag values")
		} else {
			ti := "p0.conf.Tags[(phi((phi# + 1)|-1) + 1)]"
			want := map[string]string{"Priority": ti + ".Priority", "Order": ti + ".Order", "LastDelay": ti + ".LastDelay"}
			for _, k := range []string{"Priority", "Order", "LastDelay"} {
				v := e.fieldStoreVals(initFn, "queue.Tag", k)
				r.Check(len(v) == 1 && v[0] == want[k], "R19.4", e.ShortName(initFn)+": queue.Tag."+k+" ← conf.Tags[i]."+k, e.Pos(initFn.Pos()), "the queue tag takes "+k+" from elsewhere: "+strings.Join(v, " | "), 1, v...)
			}
			cs := e.fieldStoreVals(initFn, "queue.Tag", "ChunkSize")
			r.Check(len(cs) == 1 && strings.Contains(cs[0], ti+".ChunkSize") && strings.Contains(cs[0], "p0.conf.BinSize"), "R19.4", e.ShortName(initFn)+": queue.Tag.ChunkSize ← conf.Tags[i].ChunkSize, else the bin size", e.Pos(initFn.Pos()),
				"chunk size is "+strings.Join(cs, " | "), 1, cs...)
			nm := e.fieldStoreVals(initFn, "queue.Tag", "Name")
			r.Check(len(nm) == 1 && strings.Contains(nm[0], "call(regexp.(*Regexp).String)("+ti+".Pattern)"), "R19.4", e.ShortName(initFn)+": queue.Tag.Name ← conf.Tags[i].Pattern", e.Pos(initFn.Pos()), "name is "+strings.Join(nm, " | "), 1, nm...)
			slot := e.findInstrs(initFn, "store(make([]*queue.Tag)[(phi((phi# + 1)|-1) + 1)] = &new(queue.Tag))", false)
			r.Check(len(slot) == 1, "R19.4", e.ShortName(initFn)+": queue tag i is stored at index i", e.Pos(initFn.Pos()), "queue tags are not stored at the index of the configuration tag they were built from", 1)
			j := "phi((phi# + 1)|0)"
			cw := map[string]string{"Name": "make([]*queue.Tag)[" + j + "].Name", "Delete": "p0.conf.Tags[" + j + "].Delete", "DeleteDelay": "p0.conf.Tags[" + j + "].DeleteDelay"}
			for _, k := range []string{"Name", "Delete", "DeleteDelay"} {
				v := e.fieldStoreVals(initFn, "client.FileTag", k)
				r.Check(len(v) == 1 && v[0] == cw[k], "R19.4", e.ShortName(initFn)+": client.FileTag."+k+" ← "+cw[k], e.Pos(initFn.Pos()), "the client tag takes "+k+" from elsewhere: "+strings.Join(v, " | "), 1, v...)
			}
			cslot := e.findInstrs(initFn, "store(make([]*client.FileTag)["+j+"] = &new(client.FileTag))", false)
			r.Check(len(cslot) == 1, "R19.4", e.ShortName(initFn)+": client tag i is stored at index i", e.Pos(initFn.Pos()), "client tags are not stored at the index they were built from", 1)
			// tagger closure
			var tagger *ssa.Function
			for _, cf := range initFn.AnonFuncs {
				if len(e.findInstrs(cf, "call(regexp.(*Regexp).MatchString)(§.Pattern, p0)", false)) > 0 && len(cf.Params) == 1 {
					tagger = cf
				}
			}
			if tagger == nil {
				r.Bad("R19.4", e.ShortName(initFn)+": tagger closure", e.Pos(initFn.Pos()), "cannot find the closure that maps a group to a tag by pattern", 1)
			} else {
				cls := labeler(C("call(regexp.(*Regexp).MatchString)(§.Tags[§].Pattern, p0)", "patternMatches"), C("(§[§].Name == p0)", "nameEquals"), C("(§.Pattern == nil)", "defaultTag"))
				nT := 0
				for _, rw := range e.returnWorlds(r, "R19.4", tagger, cls) {
					rt := rw.In.(*ssa.Return)
					v := e.Canon(rt.Results[0])
					if v == `""` || rw.W.Has(`ret0=""`) {
						continue
					}
					nT++
					r.Check(rw.W.HasAny("patternMatches", "nameEquals") && !rw.W.Has("defaultTag") && strings.Contains(v, ".Name"), "R19.4", e.ShortName(tagger)+": returns a tag's name only after its pattern matched "+rw.W.String(), e.InstrPos(rt),
						"a tag is chosen for a group its pattern does not match", 1, v)
				}
				r.Min("R19.4", "tag-returning path classes of the tagger", nT, 1)
				// ---------------------------------------------------------------- R19.5
				r.Rule("R19.5", "queue and broker resolve a file to the same tag, and the resolution is stable: the sorting queue gets (tagger, grouper), the broker's Tagger is tagger∘grouper over the same two closures; because the grouper falls back to tagger(name) - a tag NAME used as group - the tagger must map a tag's own name back to that tag: its loop moves past a tag that has a pattern only when the group is neither equal to the tag's name nor matched by its pattern")
				var grouper *ssa.Function
				for _, cf := range initFn.AnonFuncs {
					if len(e.findInstrs(cf, "call(regexp.(*Regexp).FindStringSubmatch)(§.GroupBy, p0)", false)) > 0 && len(cf.Params) == 1 {
						grouper = cf
					}
				}
				if grouper == nil {
					r.Unresolved("R19.5", "the closure of "+e.ShortName(initFn)+" that derives a group from a file name (GroupBy)")
				} else {
					tg, gp := "closure("+e.ShortName(tagger)+")", "closure("+e.ShortName(grouper)+")"
					nq := e.findInstrs(initFn, "call(queue.NewTagged)(§, "+tg+", "+gp+")", false)
					r.Check(len(nq) == 1, "R19.5", e.ShortName(initFn)+": queue.NewTagged(tags, tagger, grouper)", e.Pos(initFn.Pos()), "the sorting queue is not built from the tagger and grouper closures (in that order)", 1)
					tv := e.fieldStoreVals(initFn, "client.Conf", "Tagger")
					okT := false
					if len(tv) == 1 {
						for _, cf := range initFn.AnonFuncs {
							if "closure("+e.ShortName(cf)+")" != tv[0] {
								continue
							}
							for _, rw := range e.returnWorlds(r, "R19.5", cf, labeler()) {
								okT = e.Canon(rw.In.(*ssa.Return).Results[0]) == "dyn(^"+tg+")(dyn(^"+gp+")(p0))"
							}
						}
					}
					r.Check(okT, "R19.5", e.ShortName(initFn)+": client.Conf.Tagger = tagger∘grouper", e.Pos(initFn.Pos()), "the broker does not resolve a file name with the same tagger and grouper as the queue: "+strings.Join(tv, " | "), 1, tv...)
					fallback := e.findInstrs(grouper, "dyn(^"+tg+")(p0)", false)
					usesTagAsGroup := false
					for _, in := range fallback {
						if v, ok := in.(ssa.Value); ok && flowsToReturn(v) {
							usesTagAsGroup = true
						}
					}
					if ms := e.findInstrs(tagger, "call(regexp.(*Regexp).MatchString)(§.Pattern, p0)", false); len(ms) >= 1 {
						_, backs := innermostLoop(ms[0])
						nb := 0
						for _, bi := range backs {
							b := bi.Block()
							conds := e.domConds(b)
							if t, ok := bi.(*ssa.If); ok {
								hdr, _ := innermostLoop(ms[0])
								for si, pol := range []bool{true, false} {
									if b.Succs[si] == hdr && b.Succs[1-si] != hdr {
										conds = append(conds, e.CondStr(t.Cond, pol))
									}
								}
							}
							if !hasStr(conds, "(§.Pattern != nil)") {
								continue
							}
							nb++
							nameDiffers := hasStr(conds, "(§[§].Name != p0)") || hasStr(conds, "(p0 != §[§].Name)")
							need := hasStr(conds, "!call(regexp.(*Regexp).MatchString)(§.Pattern, p0)") && (nameDiffers || !usesTagAsGroup)
							r.Check(need, "R19.5", fmt.Sprintf("%s: next tag only if neither the name equals nor the pattern matches (b%d)", e.ShortName(tagger), b.Index), e.InstrPos(bi),
								"the tagger passes over a tag although the group is that tag's own name (the grouper's fallback hands tag names back in: files of that tag end up under no tag or the default tag's settings) or its pattern matches", 1, conds...)
						}
						r.Min("R19.5", "ways the tagger loop moves on past a tag with a pattern", nb, 1)
					} else {
						r.Unresolved("R19.5", "pattern match in the tagger")
					}
					r.Check(len(fallback) <= 1, "R19.5", e.ShortName(grouper)+": fallback group is tagger(name)", e.Pos(grouper.Pos()), "several tagger calls in the grouper", 1, fmt.Sprint("tag name used as group: ", usesTagAsGroup))
				}
			}
		}
	}
	// ---------------------------------------------------------------- R19.10
	r.Rule("R19.10", "each tag's method setting is applied to exactly its files: an omitted method means http for EVERY tag (the default is not applied to a prefix of the tag list only) before the methods are turned into the store's ignore patterns - shared with R17.9")
	e.checkMethodDefault(r, "R19.10")
	// ---------------------------------------------------------------- R19.11
	r.Rule("R19.11", "what `omitted` means for the inheritance copy: CopyStruct overwrites a field only when IsZero says so, and IsZero answers for a func, map or slice with IsNil() - an explicitly EMPTY list ([]), which the parsers produce as a non-nil slice, is a value and is not inherited over")
	if fn := needFn(e, r, "R19.11", "reflectutil.IsZero"); fn != nil {
		k := "call(reflect.(Value).Kind)(p0)"
		cls := labeler(C("("+k+" == 19)", "func"), C("("+k+" == 21)", "map"), C("("+k+" == 23)", "slice"))
		n := 0
		for _, rw := range e.returnWorlds(r, "R19.11", fn, cls) {
			if !rw.W.HasAny("func", "map", "slice") {
				continue
			}
			n++
			v := e.Canon(rw.In.(*ssa.Return).Results[0])
			r.Check(v == "call(reflect.(Value).IsNil)(p0)", "R19.11", "reflectutil.IsZero: nil-ness decides for func/map/slice "+rw.W.String(), e.InstrPos(rw.In),
				"a func, map or slice counts as `omitted` by another test than IsNil (an explicit empty list would be inherited over): "+shorten(v), 1, v)
		}
		r.Min("R19.11", "returns of IsZero for func/map/slice kinds", n, 3)
	}
	if fn := needFn(e, r, "R19.11", "reflectutil.CopyStruct"); fn != nil {
		cls := labeler(C("call(reflectutil.IsZero)(call(reflect.(Value).Field)(§))", "zero"))
		n := e.Guarded(r, "R19.11", "reflectutil.CopyStruct: a field is overwritten only when it is zero", fn, e.instrMatch("call(reflect.(Value).Set)(§)"), cls,
			func(l LabelSet) bool { return l.Has("zero") }, "IsZero(target field)")
		r.Min("R19.11", "field assignments in CopyStruct", n, 1)
	}
	// ---------------------------------------------------------------- R19.12
	r.Rule("R19.12", "reading a configuration does not write to it: inherited slice options share one backing array across sources (and the two pattern lists of a source are cut out of one array), so no function of the configuration package appends to a slice FIELD of a configuration struct - `append(conf.X, …)` writes into the spare capacity, i.e. into a sibling's list - and the lists cut out of a joined array are cut with a capacity limit")
	{
		n := 0
		for _, fn := range e.FuncsIn("sts") {
			if p := fnPkg(fn); p == nil || p.Path() != "github.com/arm-doe/sts" {
				continue
			}
			Instrs(fn, func(in ssa.Instruction) {
				c, ok := in.(*ssa.Call)
				if !ok {
					return
				}
				b, isB := c.Call.Value.(*ssa.Builtin)
				if !isB || b.Name() != "append" || len(c.Call.Args) == 0 {
					return
				}
				first := e.Canon(c.Call.Args[0])
				if !pat("p«[0-9]+».«[A-Za-z]+»").MatchString(first) {
					return
				}
				n++
				r.Bad("R19.12", e.ShortName(fn)+": append("+first+", …)", e.InstrPos(in),
					"append onto a slice field of the configuration: when the field was inherited from (or cut out of one array with) another list, the spare capacity it writes into IS that other list - encoding or re-reading a configuration then changes a sibling source's patterns", 1, e.InstrStr(in))
			})
		}
		r.Ok("R19.12", "sts: appends onto configuration slice fields", "", 1+n, fmt.Sprintf("%d found", n))
	}
	// ---------------------------------------------------------------- R19.13
	r.Rule("R19.13", "the default tag is the tag WITHOUT a pattern: setDefaults takes a tag for the default tag only under `Pattern == nil`, and adds one (method http) when no such tag exists - a source whose tags all carry a pattern still gets settings for the files that match none of them")
	if fn := needFn(e, r, "R19.13", "main.(*clientApp).setDefaults"); fn != nil {
		// the phi that carries the default tag: its non-nil leaves are tags, each taken under Pattern == nil
		var dphi *ssa.Phi
		for _, ed := range e.ifEdges(fn, "(phi(nil|p0.conf.Tags[§]§) == nil)") {
			if t, ok := ed.B.Instrs[len(ed.B.Instrs)-1].(*ssa.If); ok {
				if bo, ok := t.Cond.(*ssa.BinOp); ok {
					if ph, ok := bo.X.(*ssa.Phi); ok {
						dphi = ph
					}
				}
			}
		}
		if dphi == nil {
			r.Unresolved("R19.13", "the variable that holds the default tag in setDefaults")
		} else {
			okAll, n := true, 0
			var facts []string
			for i, ed := range dphi.Edges {
				c := e.Canon(ed)
				if c == "nil" || ed == ssa.Value(dphi) {
					continue
				}
				if _, isPhi := ed.(*ssa.Phi); isPhi {
					continue
				}
				n++
				pred := dphi.Block().Preds[i]
				conds := e.domConds(pred)
				if t, isIf := pred.Instrs[len(pred.Instrs)-1].(*ssa.If); isIf && pred.Succs[0] != pred.Succs[1] {
					conds = append(conds, e.CondStr(t.Cond, pred.Succs[0] == dphi.Block()))
				}
				facts = append(facts, c)
				if !hasStr(conds, "("+c+".Pattern == nil)") {
					okAll = false
				}
			}
			r.Check(okAll && n >= 1, "R19.13", "main.(*clientApp).setDefaults: a tag becomes the default tag only when it has no pattern", e.Pos(fn.Pos()),
				"a tag WITH a pattern is taken for the default tag: no pattern-less tag is added, files matching no pattern have no settings and are never queued", n, facts...)
			add := e.findInstrs(fn, "store(p0.conf.Tags = builtin(append)(p0.conf.Tags, [&new(sts.TagConf)]))", false)
			okAdd := len(add) == 1 && hasStr(e.domConds(add[0].Block()), "(phi(§) == nil)")
			r.Check(okAdd, "R19.13", "main.(*clientApp).setDefaults: a pattern-less http tag is added when none exists", e.Pos(fn.Pos()), "the fallback default tag is not added under `no default tag found`", 1)
		}
	}
	// ---------------------------------------------------------------- R19.14
	r.Rule("R19.14", "a file with no usable group is grouped by its tag: the grouper main builds returns the group-by capture only when it is non-empty and differs from the name, and otherwise the tag of the name - an empty capture returned as it is would be the default tag's group, and the file would be sent with the default tag's priority, order and delete settings whatever tag its name matches")
	if top := needFn(e, r, "R19.14", "main.(*clientApp).init"); top != nil {
		n := 0
		for _, fn := range WithClosures(top) {
			if fn == top {
				continue
			}
			capt := "call(regexp.(*Regexp).FindStringSubmatch)(^p0.conf.GroupBy, p0)[1]"
			for _, rw := range e.returnWorlds(r, "R19.14", fn, labeler(
				C("("+capt+" != \"\")", "nonEmpty"), C("(\"\" != "+capt+")", "nonEmpty"),
				C("("+capt+" != p0)", "notName"), C("(p0 != "+capt+")", "notName"),
			)) {
				rt := rw.In.(*ssa.Return)
				if len(rt.Results) != 1 || e.Canon(rt.Results[0]) != capt {
					continue
				}
				n++
				r.Check(rw.W.HasAll("nonEmpty", "notName"), "R19.14", fmt.Sprintf("%s: the capture is returned only when non-empty and different from the name (b%d)", e.ShortName(fn), rw.In.Block().Index), e.InstrPos(rw.In),
					"the grouper returns the group-by capture on a path where it may be empty or the name itself", 1, rw.W.String())
			}
		}
		r.Min("R19.14", "returns of the group-by capture", n, 1)
	}
	// ---------------------------------------------------------------- R19.15
	r.Rule("R19.15", "a duration is encoded as it is: marshal.Duration.MarshalJSON writes String() of the value itself - not of a rounded or truncated one - so that every duration option survives the parse, encode, parse trip to a managed client (400ms rounded to 0s comes back as `omitted` and is replaced by a default)")
	if fn := needFn(e, r, "R19.15", "marshal.(Duration).MarshalJSON"); fn != nil {
		ok := len(e.findInstrs(fn, "call(json.Marshal)(call(time.(Duration).String)(p0.Duration))", false)) == 1
		r.Check(ok, "R19.15", "marshal.(Duration).MarshalJSON: json.Marshal(d.String())", e.Pos(fn.Pos()),
			"the encoder no longer writes the duration's own String(): a value is changed on its way through JSON", 1)
	}
}

func tagOfField(f *types.Var) string { return strings.ToLower(f.Name()) }
