package main

import (
	"encoding/json"
	"fmt"
	"os"
	"path/filepath"
	"sort"
	"strings"
	"time"
)

// Obligation is one rule instance: property/rule/construct.
type Obligation struct {
	Prop       string   `json:"property"`
	Rule       string   `json:"rule"`
	Construct  string   `json:"construct"`
	Status     string   `json:"status"` // discharged | violated | known
	Pos        string   `json:"pos,omitempty"`
	Detail     string   `json:"detail,omitempty"`
	Facts      []string `json:"facts,omitempty"`
	Evals      int      `json:"evaluations"`
	Nontrivial bool     `json:"nontrivial"`
}

func (o *Obligation) Key() string { return o.Prop + "/" + o.Rule + "/" + o.Construct }

// Report collects obligations of one property run.
type Report struct {
	Prop     string
	Tier     string
	Obs      []*Obligation
	RuleText map[string]string
	Notes    []string
	start    time.Time
}

func NewReport(prop, tier string) *Report {
	return &Report{Prop: prop, Tier: tier, RuleText: map[string]string{}, start: time.Now()}
}

func (r *Report) Rule(id, text string) { r.RuleText[id] = text }

// Ok records a discharged obligation.
func (r *Report) Ok(rule, construct, pos string, evals int, facts ...string) {
	r.Obs = append(r.Obs, &Obligation{Prop: r.Prop, Rule: rule, Construct: construct, Status: "discharged",
		Pos: pos, Evals: evals, Facts: facts, Nontrivial: len(facts) > 0})
}

// Bad records a violated obligation.
func (r *Report) Bad(rule, construct, pos, detail string, evals int, facts ...string) {
	r.Obs = append(r.Obs, &Obligation{Prop: r.Prop, Rule: rule, Construct: construct, Status: "violated",
		Pos: pos, Detail: detail, Evals: evals, Facts: facts, Nontrivial: true})
}

// Check is a convenience: ok ? Ok : Bad.
func (r *Report) Check(ok bool, rule, construct, pos, detailIfBad string, evals int, facts ...string) bool {
	if ok {
		r.Ok(rule, construct, pos, evals, facts...)
	} else {
		r.Bad(rule, construct, pos, detailIfBad, evals, facts...)
	}
	return ok
}

// Unresolved records an anchor that could not be found: fails the check.
func (r *Report) Unresolved(rule, what string) {
	r.Obs = append(r.Obs, &Obligation{Prop: r.Prop, Rule: rule, Construct: "UNRESOLVED-ANCHOR " + what, Status: "violated",
		Detail: "anchor not found in the current source: the rule cannot be evaluated (a rule that matches nothing must not pass)", Nontrivial: true})
}

// Min asserts a minimum instance count for a rule.
func (r *Report) Min(rule, what string, got, want int) {
	if got < want {
		r.Bad(rule, "instance-count "+what, "", fmt.Sprintf("found %d instances, confirmed by hand: at least %d", got, want), got)
	} else {
		r.Ok(rule, "instance-count "+what, "", got, fmt.Sprintf("%d >= %d", got, want))
	}
}

// KnownFinding is an entry of known_findings.json.
type KnownFinding struct {
	Property string `json:"property"`
	Key      string `json:"key"`    // rule/construct
	What     string `json:"what"`   // description of what fails
	Status   string `json:"status"` // "known" or "fixed"
	Commit   string `json:"commit,omitempty"`
}

func LoadKnown(path string) ([]KnownFinding, error) {
	b, err := os.ReadFile(path)
	if err != nil {
		if os.IsNotExist(err) {
			return nil, nil
		}
		return nil, err
	}
	var out struct {
		Findings []KnownFinding `json:"findings"`
	}
	if err := json.Unmarshal(b, &out); err != nil {
		return nil, err
	}
	return out.Findings, nil
}

// Finish applies known findings, prints the outcome, writes evidence, returns exit code.
func (r *Report) Finish(e *Engine, known []KnownFinding, evidenceDir string, seed int64, extra map[string]any) int {
	kn := map[string]KnownFinding{}
	for _, k := range known {
		if k.Status == "known" && k.Property == r.Prop {
			kn[k.Key] = k
		}
	}
	var violated, knownHit []*Obligation
	discharged := 0
	evals := 0
	nontriv := map[string]bool{}
	for _, o := range r.Obs {
		evals += o.Evals
		if o.Status == "violated" {
			if k, ok := kn[o.Rule+"/"+o.Construct]; ok {
				o.Status = "known"
				o.Detail = k.What + " :: " + o.Detail
				knownHit = append(knownHit, o)
				continue
			}
			violated = append(violated, o)
			continue
		}
		discharged++
		if o.Nontrivial {
			nontriv[o.Key()] = true
		}
	}
	if evals == 0 {
		evals = len(r.Obs)
	}
	for _, o := range knownHit {
		fmt.Printf("KNOWN-FINDING: property=%s %s %s — %s\n", r.Prop, o.Rule, o.Construct, firstLine(o.Detail))
	}
	sort.SliceStable(violated, func(i, j int) bool { return violated[i].Key() < violated[j].Key() })
	violPath := filepath.Join(evidenceDir, "violations", r.Prop+".json")
	os.MkdirAll(filepath.Dir(violPath), 0o755)
	if len(violated) > 0 {
		b, _ := json.MarshalIndent(map[string]any{"property": r.Prop, "violations": violated}, "", " ")
		os.WriteFile(violPath, b, 0o644)
		for _, o := range violated {
			fmt.Printf("  violated %s %s @%s: %s\n", o.Rule, o.Construct, o.Pos, o.Detail)
			for _, f := range o.Facts {
				fmt.Printf("      %s\n", f)
			}
		}
		fmt.Printf("VIOLATION property=%s replay=%s\n", r.Prop, violPath)
	} else {
		os.Remove(violPath)
	}
	// samples
	var samples []any
	for _, o := range r.Obs {
		if o.Status == "discharged" && o.Nontrivial && len(samples) < 6 {
			samples = append(samples, o)
		}
	}
	for _, o := range violated {
		if len(samples) < 12 {
			samples = append(samples, o)
		}
	}
	if len(samples) == 0 {
		for _, o := range r.Obs {
			if len(samples) < 3 {
				samples = append(samples, o)
			}
		}
	}
	var rules []string
	for id, t := range r.RuleText {
		rules = append(rules, id+": "+t)
	}
	sort.Strings(rules)
	all := make([]map[string]string, 0, len(r.Obs))
	for _, o := range r.Obs {
		all = append(all, map[string]string{"key": o.Key(), "status": o.Status, "pos": o.Pos})
	}
	cov := map[string]any{
		"explanation":         "Static analysis of /repo's current source (type-checked packages, go/ssa form). Each obligation is a structural necessary condition of the property, decided for all paths of the functions concerned by a path-sensitive label dataflow (branch conditions with polarity, passed effects, lock sets), call-site enumeration over resolved callees, AST/type table comparison, or value provenance. Nothing under /repo is executed. A discharged obligation proves its clause only; the behavioural core named in MANIFEST level_note is not decided.",
		"obligations":         len(r.Obs),
		"discharged":          discharged,
		"known_findings":      len(knownHit),
		"violated":            len(violated),
		"evaluations":         evals,
		"distinct_nontrivial": len(nontriv),
		"rule":                "an obligation is one rule instance keyed property/rule/construct; it is non-trivial when its discharge needed at least one guard/order/flow/table fact (listed under facts); evaluations counts path worlds, call sites and table entries examined",
		"rules":               rules,
		"samples":             samples,
		"all_obligations":     all,
		"exhaustive":          true,
		"packages_analysed":   len(e.Pkgs),
		"functions_analysed":  len(e.Funcs),
		"excluded":            e.Excluded,
		"notes":               r.Notes,
	}
	for k, v := range extra {
		cov[k] = v
	}
	ev := map[string]any{
		"property_id": r.Prop,
		"tier":        r.Tier,
		"seed":        seed,
		"level":       "other",
		"coverage":    cov,
		"assumptions": []string{
			"go/types and go/ssa (x/tools v0.50.0) model the source faithfully",
			"package mock is test scaffolding and excluded",
			"reflection, cgo and code outside the module are not analysed beyond their signatures",
		},
		"wall_s":     time.Since(r.start).Seconds(),
		"violations": len(violated),
	}
	b, _ := json.MarshalIndent(ev, "", " ")
	os.MkdirAll(evidenceDir, 0o755)
	if err := os.WriteFile(filepath.Join(evidenceDir, r.Prop+".json"), b, 0o644); err != nil {
		fmt.Println("cannot write evidence:", err)
		return 1
	}
	fmt.Printf("%s [%s]: %d obligations, %d discharged, %d known, %d violated (%d evaluations, %d functions analysed)\n",
		r.Prop, r.Tier, len(r.Obs), discharged, len(knownHit), len(violated), evals, len(e.Funcs))
	if len(violated) > 0 {
		return 1
	}
	return 0
}

func firstLine(s string) string {
	if i := strings.IndexByte(s, '\n'); i >= 0 {
		return s[:i]
	}
	return s
}

// shareRule runs another property's rule set in a scratch report and files
// the obligations of ONE of its rules under this property with its own rule
// id and text: the obligation is written once and claimed by every property
// whose statement depends on it.
func (e *Engine) shareRule(r *Report, fromProp, fromRule, asRule, text string) {
	r.Rule(asRule, text+" - shared with "+fromRule)
	run, ok := registry[fromProp]
	if !ok {
		r.Unresolved(asRule, "rule set of "+fromProp)
		return
	}
	if e.sharing == nil {
		e.sharing = map[string]bool{}
	}
	if e.sharing[fromProp] {
		return // already being computed further up (mutual sharing): the outer run files it
	}
	sub := e.sharedRuns[fromProp]
	if sub == nil {
		sub = NewReport(fromProp, r.Tier)
		e.sharing[fromProp] = true
		run(e, sub)
		e.sharing[fromProp] = false
		if e.sharedRuns == nil {
			e.sharedRuns = map[string]*Report{}
		}
		e.sharedRuns[fromProp] = sub
	}
	n := 0
	for _, o := range sub.Obs {
		if o.Rule != fromRule {
			continue
		}
		n++
		c := *o
		c.Prop = r.Prop
		c.Rule = asRule
		r.Obs = append(r.Obs, &c)
	}
	r.Min(asRule, "obligations taken over from "+fromRule, n, 1)
}
