package main

import (
	"fmt"
	"go/constant"
	"strings"
	"time"

	"golang.org/x/tools/go/ssa"
)

func init() { register("C03", rulesC03) }

// backEdgeJump matches the jump instructions that close a loop.
func backEdgeJump(in ssa.Instruction) bool {
	j, ok := in.(*ssa.Jump)
	if !ok {
		return false
	}
	b := j.Block()
	return len(b.Succs) == 1 && b.Succs[0].Dominates(b)
}

var stopLabels = []L{
	C("call(client.(*Broker).shouldStopNow)(p0)", "excused"),
	C("call(client.(*Broker).shouldStop)(p0)", "excused"),
	C("!recv(p0.ch§)#1", "excused"),
	C("!call(client.sendCh[§])(§)", "excused"),
	C("(call(client.recvCh[§])(§) == nil)", "excused"),
}

func rulesC03(e *Engine, r *Report) {
	// ---------------------------------------------------------------- R03.1
	r.Rule("R03.1", "no give-up on a failed request: for every call through Conf.Recoverer/Transmitter/TxRecoverer/Validator the error result is tested, and every path from its `err != nil` edge to a return either makes the call again (retry) or passes a stop condition (shouldStopNow true, input channel closed, stop-aware send refused)")
	nCalls := 0
	for _, field := range []string{"Recoverer", "Transmitter", "TxRecoverer", "Validator"} {
		sites := e.SitesOf(pat("dyn(p0.Conf."+field+")"), e.FuncsIn("client"))
		for _, s := range sites {
			nCalls++
			fn := s.Fn
			errPat := "(§dyn(p0.Conf." + field + ")(§)#1§ != nil)"
			edges := e.ifEdges(fn, errPat)
			construct := e.ShortName(fn) + ": dyn(Conf." + field + ") error edge"
			if len(edges) == 0 {
				r.Bad("R03.1", construct, e.InstrPos(s.Instr), "the error result of the request is never tested in "+e.ShortName(fn), 1)
				continue
			}
			cls := both(
				labeler(stopLabels...),
				func(ev *Event) (add, kill []string) {
					if ev.Kind == EvCond && pat(errPat).MatchString(ev.Str) {
						return []string{"errPending"}, []string{"excused"}
					}
					if ev.Kind == EvInstr && strings.HasPrefix(ev.Str, "dyn(p0.Conf."+field+")(") {
						return nil, []string{"errPending", "excused"}
					}
					return
				},
			)
			e.Guarded(r, "R03.1", construct, fn, isReturn, cls,
				func(l LabelSet) bool { return !l.Has("errPending") || l.Has("excused") },
				"after a failed request: retry, or a stop condition before returning")
		}
	}
	r.Min("R03.1", "request call sites in package client", nCalls, 5)

	// ---------------------------------------------------------------- R03.2
	r.Rule("R03.2", "a negative or exhausted verdict re-enters the pipeline: in finish every path not guarded by Waiting/Received sends the file on the retry channel; every iteration of the retrier ends in one of the enumerated exits (cache entry missing, file changed/unreadable, file gone -> Done) or sends the recovered file to chScanned")
	if fn := needFn(e, r, "R03.2", "client.(*Broker).finish"); fn != nil {
		cls := labeler(
			C("invoke(sts.Polled.Waiting)(p1)", "verdictOK"),
			C("invoke(sts.Polled.Received)(p1)", "verdictOK"),
			I("call(client.sendCh[§])(§, p0.chRetry, p1, §)", "retrySend"),
			I("send(p0.chRetry, p1)", "retrySend"),
		)
		e.Guarded(r, "R03.2", "client.(*Broker).finish: exits", fn, isReturn, cls,
			func(l LabelSet) bool { return l.HasAny("verdictOK", "retrySend") }, "positive verdict, or the file handed to chRetry")
	}
	if fn := needFn(e, r, "R03.2", "client.(*Broker).startRetry"); fn != nil {
		cls := labeler(
			C("(invoke(sts.FileCache.Get)(§) == nil)", "cacheMissing"),
			C("(invoke(sts.FileSource.Sync)(§)#0 != nil)", "changed"),
			C("(invoke(sts.FileSource.Sync)(§)#1 != nil)", "changed"),
			C("(dyn(§)(§)#1 != nil)", "openErr"),
			C("call(client.sendCh[§])(§, p0.chScanned, §)", "resent"),
			I("send(p0.chScanned, §)", "resent"),
		)
		n := e.Guarded(r, "R03.2", "client.(*Broker).startRetry: end of an iteration", fn, backEdgeJump, cls,
			func(l LabelSet) bool { return l.HasAny("cacheMissing", "changed", "openErr", "resent") },
			"cache entry missing | file changed | open failed | recovered file sent to chScanned")
		r.Min("R03.2", "loop back edges in the retrier", n, 1)
	}

	// ---------------------------------------------------------------- R03.3
	r.Rule("R03.3", "held files are re-examined: after a successful delivery finalize passes fromWait(path) and queues what it returns; every `return false` of isFileReady parks the file (toWait); every failure of the deliverer after the log record - the target's directory cannot be made, the move fails - re-arms a timer that queues the file again, unless the parked file itself is found gone (the error of the move says nothing about which end is missing)")
	if fn := needFn(e, r, "R03.3", "stage.(*Stage).finalize"); fn != nil {
		edges := e.ifEdges(fn, "(call(stage.(*Stage).putFileAway)(p0, p1)#1 == nil)")
		cls := labeler(I("call(stage.(*Stage).fromWait)(p0, p1.path)", "fromWait"))
		for _, ed := range edges {
			e.GuardedFrom(r, "R03.3", "stage.(*Stage).finalize: exits after a successful delivery", fn,
				FlowOpts{Classify: cls, Target: isReturn, StartEdge: ed.B, StartSucc: ed.Succ},
				func(l LabelSet) bool { return l.Has("fromWait") }, "fromWait(file.path) consulted")
		}
		r.Min("R03.3", "success edge of the deliverer in finalize", len(edges), 1)
		q := e.findInstrs(fn, "go call(stage.(*Stage).finalizeQueue)(p0, call(stage.(*Stage).fromWait)(p0, p1.path)[§])", false)
		r.Check(len(q) >= 1, "R03.3", "stage.(*Stage).finalize: waiters are queued", e.Pos(fn.Pos()),
			"files waiting on the delivered file are not put back on the finalize queue", len(q), "go finalizeQueue(fromWait(path)[i])")
	}
	if fn := needFn(e, r, "R03.3", "stage.(*Stage).isFileReady"); fn != nil {
		cls := labeler(I("call(stage.(*Stage).toWait)(p0, §, p1, §)", "parked"))
		res := e.Flow(fn, FlowOpts{Classify: cls, Target: isReturn})
		n := 0
		for in, worlds := range res.At {
			for _, w := range worlds {
				if w.Has("ret0=false") {
					n++
					r.Check(w.Has("parked"), "R03.3", fmt.Sprintf("stage.(*Stage).isFileReady: return false @%s", e.InstrPos(in)), e.InstrPos(in),
						"a file that is not ready is dropped instead of parked (toWait): it will never be delivered", 1, w.String())
				}
			}
		}
		r.Min("R03.3", "return-false path classes of isFileReady", n, 1)
	}
	if fn := needFn(e, r, "R03.3", "stage.(*Stage).putFileAway"); fn != nil {
		// closures of the deliverer that arm a timer whose function queues the file again
		rearm := []L{I("call(time.AfterFunc)(§, closure(§))", "rearmed")}
		okq := false
		for _, cf := range WithClosures(fn) {
			if cf == fn {
				continue
			}
			if len(e.findInstrs(cf, "«(go )?»call(stage.(*Stage).finalizeQueue)(§)", false)) > 0 {
				okq = true
			}
			if len(e.findInstrs(cf, "call(time.AfterFunc)(§, closure(§))", false)) > 0 {
				rearm = append(rearm, I("call("+e.ShortName(cf)+")(§)", "rearmed"), I("dyn(closure("+e.ShortName(cf)+"))(§)", "rearmed"))
			}
		}
		ls := append(rearm,
			C("(call(os.MkdirAll)(§) != nil)", "failed"),
			C("(call(fileutil.Move)(§) != nil)", "failed"),
			// the parked file itself is gone: nothing to try again with
			C("(call(os.Stat)((p1.path + \".wait\"))#1 != nil)", "parkedGone"),
		)
		n := 0
		for _, rw := range e.returnWorlds(r, "R03.3", fn, labeler(ls...)) {
			if !rw.W.Has("failed") {
				continue
			}
			n++
			r.Check(rw.W.HasAny("rearmed", "parkedGone"), "R03.3", fmt.Sprintf("stage.(*Stage).putFileAway: a delivery that failed is tried again (return b%d %s)", rw.In.Block().Index, rw.W.String()), e.InstrPos(rw.In),
				"the deliverer returns after a failed MkdirAll or Move without arming the retry although the parked file is (as far as it knows) still there: the file stays validated - the sender is told `passed` - and nothing looks at it again until a restart", 1, rw.W.String())
		}
		r.Min("R03.3", "failure returns of the deliverer", n, 2)
		r.Check(okq, "R03.3", "stage.(*Stage).putFileAway: retry closure queues the file", e.Pos(fn.Pos()), "the retry timer does not put the file back on the finalize queue", 1)
	}

	// ---------------------------------------------------------------- R03.4
	r.Rule("R03.4", "receiver start-up: Recover hands every element of its lists on (no return / early exit inside the loops over the lists)")
	if fn := needFn(e, r, "R03.4", "stage.(*Stage).Recover"); fn != nil {
		// every block that is inside a loop of Recover must not end in a Return
		fi := e.fnInfo(fn)
		bad := 0
		loops := 0
		for _, b := range fn.Blocks {
			if !fi.cyclic[b] {
				continue
			}
			loops++
			if _, ok := b.Instrs[len(b.Instrs)-1].(*ssa.Return); ok {
				bad++
			}
		}
		r.Check(bad == 0 && loops >= 3, "R03.4", "stage.(*Stage).Recover: loops run to completion", e.Pos(fn.Pos()),
			fmt.Sprintf("%d return(s) inside the recovery loops: the rest of the list would be stranded", bad), loops, fmt.Sprintf("%d loop blocks, none returns", loops))
	}
	// ---------------------------------------------------------------- R03.5
	r.Rule("R03.5", "a file that failed validation can be received again: its complete companion is discarded before new parts are recorded - either the validator removes the companion on every failure path, or the stage-file initialiser removes it on every path where the cached state is `failed` (otherwise the first re-sent part completes the stale record, the file fails again, for ever)")
	e.checkFailedCompanionDiscarded(r, "R03.5")
	// ---------------------------------------------------------------- R03.7
	r.Rule("R03.7", "the unacknowledged tail of a partly accepted payload is sent again: Payload.Split(n) hands out parts[n:] (taken BEFORE the head is cut to parts[:n]) with exactly their bytes, and handleSendError returns that payload to the send loop - an empty remainder would be taken for `everything arrived` and the tail files would never be sent, polled or retried - shared with R11.3")
	e.checkSplit(r, "R03.7")
	if fn := needFn(e, r, "R03.7", "client.(*Broker).handleSendError"); fn != nil {
		n := 0
		Instrs(fn, func(in ssa.Instruction) {
			if rt, ok := in.(*ssa.Return); ok && len(rt.Results) == 1 && rt.Block().Comment != "recover" {
				v := e.Canon(rt.Results[0])
				n++
				r.Check(v == "p1" || strings.Contains(v, "invoke(sts.Payload.Split)(p1, "), "R03.7", "client.(*Broker).handleSendError: what goes back to the send loop is the payload or its split-off tail", e.InstrPos(rt),
					"the send-error handler returns something else than the payload / the remainder of Split: "+shorten(v), 1, v)
			}
		})
		r.Min("R03.7", "returns of handleSendError", n, 1)
	}
	// ---------------------------------------------------------------- R03.6
	r.Rule("R03.6", "a held file whose predecessor is unknown keeps being re-examined: every call of toWait with a positive delay arms a fresh timer (time.AfterFunc stored in the file's wait field) on every path - a timer that already fired must not count as pending -, the timer's callback puts the file back on the finalize queue, and isFileReady asks for a positive delay on the `predecessor not found in the log` path")
	if fn := needFn(e, r, "R03.6", "stage.(*Stage).toWait"); fn != nil {
		cls := labeler(
			C("(0 < p3)", "delayAsked"),
			I("store(p2.wait = call(time.AfterFunc)(p3, §))", "armed"),
			IK("store(p2.wait = nil)", "armed"),
		)
		n := 0
		for _, rw := range e.returnWorlds(r, "R03.6", fn, cls) {
			if rw.W.Has("delayAsked") {
				n++
				r.Check(rw.W.Has("armed"), "R03.6", fmt.Sprintf("stage.(*Stage).toWait: return b%d %s", rw.In.Block().Index, rw.W.String()), e.InstrPos(rw.In),
					"a positive delay was asked for but no new timer is armed on this path: once the old timer has fired nobody re-examines the held file", 1, rw.W.String())
			}
		}
		r.Min("R03.6", "return path classes of toWait with a delay", n, 1)
		okcb := false
		for _, cf := range WithClosures(fn) {
			if cf == fn {
				continue
			}
			if len(e.findInstrs(cf, "dyn(^p0)(^p1)", false)) == 1 {
				okcb = true
			}
		}
		arm := e.findInstrs(fn, "call(stage.(*Stage).toWait$§)(closure(stage.(*Stage).finalizeQueue$bound), p2)", false)
		r.Check(okcb && len(arm) == 1, "R03.6", "stage.(*Stage).toWait: the timer re-queues this file for finalizing", e.Pos(fn.Pos()), "the timer callback does not hand the held file to finalizeQueue", 2)
	}
	if fn := needFn(e, r, "R03.6", "stage.(*Stage).isFileReady"); fn != nil {
		tw := e.findInstrs(fn, "call(stage.(*Stage).toWait)(p0, §, p1, §)", false)
		ok := len(tw) == 1
		if ok {
			d := tw[0].(ssa.CallInstruction).Common().Args[3]
			pos := false
			for _, lv := range e.phiLeaves(d) {
				if k, isK := lv.(*ssa.Const); isK && constStr(k) != "0" {
					pos = true
				}
			}
			ok = pos
		}
		r.Check(ok, "R03.6", "stage.(*Stage).isFileReady: a file whose predecessor was not found in the log is parked with a positive retry delay", e.Pos(fn.Pos()), "no path parks the file with a retry delay: a predecessor delivered in an earlier run would never be looked for again", 1)
		cls := labeler(C("!invoke(sts.ReceiveLogger.WasReceived)(p0.logger, p1.prev, §)", "notInLog"))
		if len(tw) == 1 {
			// on the not-found path the delay handed over is the positive one
			res := e.Flow(fn, FlowOpts{Classify: cls, Target: only(tw[0]), Probe: func(in ssa.Instruction, resolve func(ssa.Value) ssa.Value) []string {
				if k, ok := resolve(in.(ssa.CallInstruction).Common().Args[3]).(*ssa.Const); ok {
					if constStr(k) == "0" {
						return []string{"delay=0"}
					}
					return []string{"delay>0"}
				}
				return nil
			}, Track: func() []*ssa.Phi {
				if ph, ok := tw[0].(ssa.CallInstruction).Common().Args[3].(*ssa.Phi); ok {
					return []*ssa.Phi{ph}
				}
				return nil
			}()})
			okd := true
			for _, ws := range res.At {
				for _, w := range ws {
					if w.Has("notInLog") && !w.Has("delay>0") {
						okd = false
					}
				}
			}
			r.Check(okd && !res.Undecided, "R03.6", "stage.(*Stage).isFileReady: `not found in the log` ⇒ positive delay", e.InstrPos(tw[0]), "the log miss path parks the file without a retry timer", res.Evals)
		}
	}
	// ---------------------------------------------------------------- R03.8
	r.Rule("R03.8", "a resumed file can complete: the size the sender's tracker waits for is the number of bytes that will actually be sent - Pop stamps each chunk with the queue node's getSendSize(), which for a resumed file (sts.Recovered) is the sum of its missing ranges and otherwise the file size; a larger value (the whole file, the span of the ranges) is never reached, the file is never polled, confirmed or released - shared with R08.7")
	e.checkSendSize(r, "R03.8")
	// ---------------------------------------------------------------- R03.9
	r.Rule("R03.9", "no eligible file is silently excluded by the wiring: a tag configured without a method is an http tag for every position in the tag list (else the files matching it are put on the ignore list and never sent) - shared with R17.9")
	e.checkMethodDefault(r, "R03.9")
	// ---------------------------------------------------------------- R03.10
	r.Rule("R03.10", "no self-deadlock on the receiver's or the sender's shared state: a method holding a mutex of its receiver (stage, queue, cache, broker) never calls a method of the same receiver that acquires it again - shared with R20.8")
	e.checkNoReentrantLocking(r, "R03.10", 20, "stage", "queue", "cache", "client")
	// ---------------------------------------------------------------- R03.11
	r.Rule("R03.11", "a file that is not due yet is looked at again without new input: the queue can hold files while Pop() answers nil (the youngest file of a group is withheld by its tag's last-delay), so the queue stage must never wait on its input channel alone - every select of startQueue has a timer arm whose channel is never nil")
	if fn := needFn(e, r, "R03.11", "client.(*Broker).startQueue"); fn != nil {
		n := 0
		Instrs(fn, func(in ssa.Instruction) {
			sel, ok := in.(*ssa.Select)
			if !ok {
				return
			}
			n++
			timed := false
			var facts []string
			for _, st := range sel.States {
				leaves := e.phiLeaves(st.Chan)
				isTimer, canNil := false, false
				for _, lv := range leaves {
					c := e.Canon(lv)
					facts = append(facts, c)
					if strings.HasPrefix(c, "call(time.After)(") || strings.HasSuffix(c, ".C") {
						isTimer = true
					}
					if c == "nil" {
						canNil = true
					}
				}
				if isTimer && !canNil {
					timed = true
				}
			}
			r.Check(timed || !sel.Blocking, "R03.11", "client.(*Broker).startQueue: the select always has a live timer arm", e.InstrPos(in),
				"after Pop() answered nil the stage waits on its input channel only: a file withheld by last-delay (or otherwise not due yet) is not looked at again until another scan batch arrives - possibly never", 1, facts...)
		})
		r.Min("R03.11", "selects in startQueue", n, 1)
	}
	// ---------------------------------------------------------------- R03.12
	e.shareRule(r, "C06", "R06.8", "R03.12", "a held file survives a restart: the companion is the only thing recovery finds a validated, parked file by, so no path removes the companion of a file that is validated but not yet delivered (every companion removal sits in the frozen, guarded table)")
	// ---------------------------------------------------------------- R03.13
	r.Rule("R03.13", "the pacing of polls and retries is given in time units: every constant that package main stores into a time.Duration option of the source configuration as a default is a whole number of milliseconds of at least one (a bare 60 or 5 is 60 ns / 5 ns: all poll attempts are spent within microseconds of the transmission, the file is taken for lost, hashed again and re-sent whole while the receiver is still validating it)")
	{
		n := 0
		for _, fn := range e.FuncsIn("main") {
			Instrs(fn, func(in ssa.Instruction) {
				st, ok := in.(*ssa.Store)
				if !ok {
					return
				}
				fa, ok := st.Addr.(*ssa.FieldAddr)
				if !ok {
					return
				}
				f := fieldVar(fa.X, fa.Field)
				if f == nil || e.typeShort(f.Type()) != "time.Duration" || !strings.HasPrefix(e.Canon(fa.X), "p0.conf") {
					return
				}
				c, ok := st.Val.(*ssa.Const)
				if !ok || c.Value == nil {
					return
				}
				v, exact := constant.Int64Val(constant.ToInt(c.Value))
				if !exact || v == 0 {
					return
				}
				n++
				r.Check(v >= int64(time.Millisecond) && v%int64(time.Millisecond) == 0, "R03.13", fmt.Sprintf("%s: default of %s is a duration", e.ShortName(fn), f.Name()), e.InstrPos(in),
					fmt.Sprintf("the default stored into %s is the bare number %d, i.e. %d nanoseconds", f.Name(), v, v), 1, fmt.Sprint(time.Duration(v)))
			})
		}
		r.Min("R03.13", "constant defaults of duration options in package main", n, 4)
	}
	// ---------------------------------------------------------------- R03.14
	r.Rule("R03.14", "no pool of zero workers: every counted goroutine pool of the sender (`for i := 0; i < n; i++ { go … }` - senders, retriers, hash workers) is sized by a constant >= 1 or by a client.Conf field that package main fills, after setDefaults succeeded, from an option which setDefaults leaves positive or refuses on every path that returns no error (with `threads` omitted the pools were empty and the channels unbuffered: the first scan blocked for ever handing its files to hash workers that did not exist)")
	e.checkPoolSizesPositive(r, "R03.14")
	// ---------------------------------------------------------------- R03.15
	e.shareRule(r, "C18", "R18.5", "R03.15", "a predecessor delivered today is found: the day loop of the log visits every day of the window including the last one, whatever the times of day of its ends - the receiver's cache refill after a restart and the search for a predecessor's record both run on it, and a successor whose predecessor's record is skipped is parked for good")
	// ---------------------------------------------------------------- R03.16
	e.shareRule(r, "C05", "R05.6", "R03.16", "a file in the receiver's pipeline is not overwritten by history: the refill of the cache from the receive log replaces only entries that themselves came from the log - an older record of the same name must not turn a validated, parked file into `logged` (it would never be released and the sender is told `passed`)")
	// ---------------------------------------------------------------- R03.17
	e.shareRule(r, "C20", "R20.5", "R03.17", "the cleaner comes back: clean() releases its lock before the deferred re-arming takes it again - the periodic pass is the only thing that frees files waiting on each other")
}

// checkFailedCompanionDiscarded: the record of ranges of an attempt that
// failed validation is gone before a new attempt records ranges (shared by
// R03.5 - the file must be receivable again - and R09.7 - the ranges on
// record must describe the partial that exists now).
func (e *Engine) checkFailedCompanionDiscarded(r *Report, rule string) {
	{
		failedC, _ := e.ConstVal("stage", "stateFailed")
		optA, optB := false, false
		var factsA, factsB []string
		if fn := e.Fn("stage.(*Stage).process"); fn != nil {
			cls := labeler(I(`call(os.Remove)((p1.path + ".cmp"))`, "cmpRemoved"))
			res := e.Flow(fn, FlowOpts{Classify: cls, Target: e.instrMatch("call(stage.(*Stage).toCache)(p0, p1, " + failedC + ")")})
			n, good := 0, 0
			for _, ws := range res.At {
				for _, w := range ws {
					n++
					if w.Has("cmpRemoved") {
						good++
					}
				}
			}
			optA = n > 0 && good == n && !res.Undecided
			factsA = append(factsA, fmt.Sprintf("validator: %d of %d failure paths remove the companion", good, n))
		}
		if fn := needFn(e, r, rule, "stage.(*Stage).initStageFile"); fn != nil {
			edges := e.ifEdges(fn, "(call(stage.(*Stage).getFileState)(p0, p1) == "+failedC+")")
			cls := labeler(I(`call(os.Remove)((p1 + ".cmp"))`, "cmpRemoved"))
			okAll := len(edges) > 0
			for _, ed := range edges {
				res := e.Flow(fn, FlowOpts{Classify: cls, Target: e.instrMatch(`call(os.Create)((p1 + ".part"))`), StartEdge: ed.B, StartSucc: ed.Succ})
				for _, ws := range res.At {
					for _, w := range ws {
						if !w.Has("cmpRemoved") {
							okAll = false
						}
					}
				}
				if res.Undecided {
					okAll = false
				}
			}
			optB = okAll
			factsB = append(factsB, fmt.Sprintf("initStageFile: %d `state == failed` edge(s), all reach the partial's creation through Remove[Cmp]: %v", len(edges), okAll))
			r.Check(optA || optB, rule, "stage: companion of a failed file is discarded before re-reception", e.Pos(fn.Pos()),
				"neither the validator (on every failure path) nor initStageFile (on every state==failed path) removes the stale companion: a re-sent file completes at its first part and fails validation for ever", 2, append(factsA, factsB...)...)
		}
	}
}

// checkSendSize: the size stamped on every chunk is the queue node's own
// getSendSize (shared by R03.8 and R08.7).
func (e *Engine) checkSendSize(r *Report, rule string) {
	if fn := needFn(e, r, rule, "queue.(*Tagged).Pop"); fn != nil {
		send := e.fieldStoreVals(fn, "queue.sendable", "send")
		off := e.fieldStoreVals(fn, "queue.sendable", "offset")
		ok := len(send) == 1 && len(off) == 1
		var node string
		if ok {
			m := pat("call(queue.(*sortedFile).allocate)(«(.+)», §)#0").FindStringSubmatch(off[0])
			ok = m != nil
			if ok {
				node = m[1]
				ok = send[0] == "call(queue.(*sortedFile).getSendSize)("+node+")"
			}
		}
		r.Check(ok, rule, "queue.(*Tagged).Pop: chunk.send = getSendSize() of the node the chunk was allocated from", e.Pos(fn.Pos()),
			"the chunk is stamped with another size than its node's send size: "+strings.Join(send, " | "), 2, append(send, off...)...)
	}
	if fn := needFn(e, r, rule, "queue.(*sortedFile).getSendSize"); fn != nil {
		cls := labeler(C("assert(sts.Recovered)(p0.orig)#1", "resumed"), C("!assert(sts.Recovered)(p0.orig)#1", "plain"))
		n := 0
		for _, rw := range e.returnWorlds(r, rule, fn, cls) {
			n++
			v := e.Canon(rw.In.(*ssa.Return).Results[0])
			if rw.W.Has("resumed") {
				r.Check(v == "invoke(sts.Recovered.GetSendSize)(assert(sts.Recovered)(p0.orig)#0)", rule, "queue.(*sortedFile).getSendSize: a resumed file answers with its own send size", e.InstrPos(rw.In), "a resumed file's send size is "+v, 1, v)
			} else {
				r.Check(v == "invoke(sts.Hashed.GetSize)(p0.orig)", rule, "queue.(*sortedFile).getSendSize: any other file answers with its size", e.InstrPos(rw.In), "a plain file's send size is "+v, 1, v)
			}
		}
		r.Min(rule, "returns of getSendSize", n, 2)
	}
	for _, name := range []string{"queue.(*sendable).GetSendSize"} {
		if fn := needFn(e, r, rule, name); fn != nil {
			ok := false
			Instrs(fn, func(in ssa.Instruction) {
				if rt, isRet := in.(*ssa.Return); isRet && len(rt.Results) == 1 && e.Canon(rt.Results[0]) == "p0.send" {
					ok = true
				}
			})
			r.Check(ok, rule, name+" returns the stamped size", e.Pos(fn.Pos()), "the chunk's GetSendSize does not return the stamped value", 1)
		}
	}
}
