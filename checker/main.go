package main

import (
	"flag"
	"fmt"
	"os"
	"runtime/debug"
	"sort"
	"strconv"
	"strings"

	"golang.org/x/tools/go/ssa"
)

type ruleFn func(e *Engine, r *Report)

var registry = map[string]ruleFn{}

func register(prop string, f ruleFn) { registry[prop] = f }

func main() {
	repo := flag.String("repo", "/repo", "repository to analyse")
	props := flag.String("prop", "", "comma separated property ids (or 'all')")
	tier := flag.String("tier", "quick", "quick|thorough")
	evdir := flag.String("evidence", "/verif/evidence", "evidence directory")
	knownPath := flag.String("known", "/verif/known_findings.json", "known findings file")
	dump := flag.String("dump", "", "dump canonical form of a function (short name or regexp)")
	list := flag.Bool("list", false, "list function short names")
	overlayFlag := flag.String("overlay", "", "comma separated <path in repo>=<replacement file> (analysis of a variant without touching the repo)")
	flag.Parse()

	var overlay map[string][]byte
	if *overlayFlag != "" {
		overlay = map[string][]byte{}
		for _, kv := range strings.Split(*overlayFlag, ",") {
			i := strings.Index(kv, "=")
			if i < 0 {
				fmt.Println("bad -overlay", kv)
				os.Exit(2)
			}
			b, err := os.ReadFile(kv[i+1:])
			if err != nil {
				fmt.Println(err)
				os.Exit(2)
			}
			k := kv[:i]
			if !strings.HasPrefix(k, "/") {
				k = *repo + "/" + k
			}
			overlay[k] = b
		}
	}
	e, err := Load(*repo, overlay)
	if err != nil {
		fmt.Println("LOAD-FAILURE:", err)
		for _, p := range strings.Split(*props, ",") {
			if p != "" && p != "all" {
				fmt.Printf("VIOLATION property=%s replay=%s\n", p, "load-failure")
			}
		}
		os.Exit(1)
	}
	if *list {
		for _, f := range e.Funcs {
			fmt.Println(e.ShortName(f))
		}
		return
	}
	if *dump != "" {
		e.Dump(*dump)
		return
	}
	known, err := LoadKnown(*knownPath)
	if err != nil {
		fmt.Println("cannot read known findings:", err)
		os.Exit(1)
	}
	var ids []string
	if *props == "all" {
		for id := range registry {
			ids = append(ids, id)
		}
		sort.Strings(ids)
	} else {
		ids = strings.Split(*props, ",")
	}
	seed, _ := strconv.ParseInt(os.Getenv("VERIF_SEED"), 10, 64)
	exit := 0
	for _, id := range ids {
		f := registry[id]
		if f == nil {
			fmt.Printf("no rules registered for %s\n", id)
			exit = 1
			continue
		}
		r := NewReport(id, *tier)
		func() {
			defer func() {
				if p := recover(); p != nil {
					r.Bad("engine", "panic", "", fmt.Sprintf("checker panic: %v\n%s", p, debug.Stack()), 0)
				}
			}()
			f(e, r)
		}()
		if c := r.Finish(e, known, *evdir, seed, nil); c != 0 {
			exit = 1
		}
	}
	os.Exit(exit)
}

// Dump prints blocks, canonical instructions and branch conditions.
func (e *Engine) Dump(pat string) {
	for _, fn := range e.Funcs {
		n := e.ShortName(fn)
		if n != pat && !strings.HasPrefix(n, pat+"$") {
			continue
		}
		fmt.Printf("=== %s  (%s)\n", n, e.Pos(fn.Pos()))
		for _, b := range fn.Blocks {
			var preds, succs []string
			for _, p := range b.Preds {
				preds = append(preds, strconv.Itoa(p.Index))
			}
			for _, s := range b.Succs {
				succs = append(succs, strconv.Itoa(s.Index))
			}
			fmt.Printf(" b%d [%s] preds=%s succs=%s\n", b.Index, b.Comment, strings.Join(preds, ","), strings.Join(succs, ","))
			for _, in := range b.Instrs {
				switch t := in.(type) {
				case *ssa.If:
					fmt.Printf("    if  T:%s   F:%s\n", e.CondStr(t.Cond, true), e.CondStr(t.Cond, false))
				case *ssa.Phi:
					fmt.Printf("    %s = %s\n", t.Name(), e.Canon(t))
				default:
					if hasEffect(in) || isRet(in) {
						fmt.Printf("    %s   @%s\n", e.InstrStr(in), e.InstrPos(in))
					}
				}
			}
		}
	}
}

func isRet(in ssa.Instruction) bool {
	_, ok := in.(*ssa.Return)
	return ok
}
