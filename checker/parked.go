package main

import (
	"fmt"
	"regexp"
	"strings"

	"golang.org/x/tools/go/ssa"
)

// parkedHelper is a predicate method of package stage that decides whether a
// companion describes the parked (.wait) file next to it.
type parkedHelper struct {
	Fn      *ssa.Function
	BaseIdx int // parameter holding the base path
	CmpIdx  int // parameter holding the companion
	Sound   bool
	Facts   []string
}

var (
	md5WaitRe = regexp.MustCompile(`call\(fileutil\.FileMD5\)\(\(p(\d+) \+ "\.wait"\)\)`)
	cmpHashRe = regexp.MustCompile(`call\(fileutil\.FileMD5\)\(\(p\d+ \+ "\.wait"\)\)#0 [!=]= p(\d+)\.Hash\)|\(p(\d+)\.Hash [!=]= call\(fileutil\.FileMD5\)`)
)

// parkedHelpers finds the bool functions of package stage that hash
// `<param>.wait` and compare the result with `<param>.Hash`, and decides for
// each whether its verdict can be relied on in both directions:
//   - it returns true only when neither <base>.part nor <base>.full exists (no
//     newer version in progress: the companion can only be the parked file's)
//     or the parked file's MD5 equals the companion's hash;
//   - it returns false only when <base>.part or <base>.full exists and the MD5
//     differs or could not be computed (a lone parked file is never disowned:
//     its companion would be taken for an orphan and removed).
func (e *Engine) parkedHelpers() []parkedHelper {
	var out []parkedHelper
	for _, fn := range e.FuncsIn("stage") {
		if fn.Signature.Results().Len() != 1 || e.typeShort(fn.Signature.Results().At(0).Type()) != "bool" {
			continue
		}
		baseIdx, cmpIdx := -1, -1
		Instrs(fn, func(in ssa.Instruction) {
			s := e.InstrStr(in)
			if m := md5WaitRe.FindStringSubmatch(s); m != nil {
				fmt.Sscan(m[1], &baseIdx)
			}
			if m := cmpHashRe.FindStringSubmatch(s); m != nil {
				if m[1] != "" {
					fmt.Sscan(m[1], &cmpIdx)
				} else {
					fmt.Sscan(m[2], &cmpIdx)
				}
			}
		})
		if baseIdx < 0 || cmpIdx < 0 {
			continue
		}
		b, c := fmt.Sprintf("p%d", baseIdx), fmt.Sprintf("p%d", cmpIdx)
		md5 := `call(fileutil.FileMD5)((` + b + ` + ".wait"))`
		st := func(ext string) string { return `call(os.IsNotExist)(call(os.Stat)((` + b + ` + "` + ext + `"))#1)` }
		cls := labeler(
			C(st(".part"), "no.part"), C("!"+st(".part"), "has.part"),
			C(st(".full"), "no.full"), C("!"+st(".full"), "has.full"),
			C("("+md5+"#0 == "+c+".Hash)", "hashEq"), C("("+c+".Hash == "+md5+"#0)", "hashEq"),
			C("("+md5+"#0 != "+c+".Hash)", "hashNe"), C("("+c+".Hash != "+md5+"#0)", "hashNe"),
			C("("+md5+"#1 != nil)", "md5Err"),
		)
		h := parkedHelper{Fn: fn, BaseIdx: baseIdx, CmpIdx: cmpIdx, Sound: true}
		res := e.Flow(fn, FlowOpts{Classify: cls, Target: isReturn})
		if res.Undecided {
			h.Sound = false
			h.Facts = append(h.Facts, "undecided: path-world cap exceeded")
		}
		eq := pat("(" + md5 + "#0 == " + c + ".Hash)")
		nTrue, nFalse := 0, 0
		for in, ws := range res.At {
			ret := in.(*ssa.Return)
			if in.Block().Comment == "recover" || len(ret.Results) != 1 {
				continue
			}
			// what may be returned here
			mayTrue, mayFalse, viaEq := false, false, false
			for _, leaf := range e.phiLeaves(ret.Results[0]) {
				switch s := e.Canon(leaf); {
				case s == "true":
					mayTrue = true
				case s == "false":
					mayFalse = true
				case eq.MatchString(s):
					viaEq, mayFalse = true, true
				default:
					h.Sound = false
					h.Facts = append(h.Facts, e.InstrPos(in)+": returns `"+shorten(s)+"`, which this rule cannot read")
				}
			}
			for _, w := range ws {
				if mayTrue {
					nTrue++
					if !(w.Has("hashEq") || w.HasAll("no.part", "no.full")) {
						h.Sound = false
						h.Facts = append(h.Facts, e.InstrPos(in)+": answers `described` although a newer version may be in progress (<base>.part or <base>.full not excluded) and the parked file's MD5 was not found equal to the companion's hash")
					}
				}
				if viaEq {
					nTrue++
				}
				if mayFalse {
					nFalse++
					if !(w.HasAny("has.part", "has.full") && (viaEq || w.HasAny("hashNe", "md5Err"))) {
						h.Sound = false
						h.Facts = append(h.Facts, e.InstrPos(in)+": answers `not described` without having found <base>.part or <base>.full and a differing (or unreadable) MD5: the companion of a lone parked file would be taken for an orphan")
					}
				}
			}
		}
		if nTrue == 0 || nFalse == 0 {
			h.Sound = false
			h.Facts = append(h.Facts, fmt.Sprintf("%d true and %d false return classes", nTrue, nFalse))
		}
		if h.Sound {
			h.Facts = append(h.Facts, fmt.Sprintf("%d `described` return classes (no newer version in progress, or MD5 == companion hash), %d `superseded` return classes (newer version in progress and MD5 differs or unreadable)", nTrue, nFalse))
		}
		out = append(out, h)
	}
	return out
}

// parkedLabels are the labels of Recover's walk closure that say whether the
// companion in hand describes the parked file: "described" / "superseded"
// from a sound helper's verdict, or from the comparison written in line
// ("described" / "hashNe").
func (e *Engine) parkedLabels(base, cmpv string, helpers []parkedHelper) []L {
	md5 := `call(fileutil.FileMD5)((` + base + ` + ".wait"))`
	ls := []L{
		C("("+md5+"#0 == "+cmpv+".Hash)", "described"), C("("+cmpv+".Hash == "+md5+"#0)", "described"),
		C("("+md5+"#0 != "+cmpv+".Hash)", "hashNe"), C("("+cmpv+".Hash != "+md5+"#0)", "hashNe"),
	}
	for _, h := range helpers {
		if !h.Sound {
			continue
		}
		var args []string
		for i := range h.Fn.Params {
			switch i {
			case 0:
				if h.Fn.Signature.Recv() != nil {
					args = append(args, "«[^,]+»")
					continue
				}
				fallthrough
			default:
				switch i {
				case h.BaseIdx:
					args = append(args, base)
				case h.CmpIdx:
					args = append(args, cmpv)
				default:
					args = append(args, "§")
				}
			}
		}
		call := "call(" + e.ShortName(h.Fn) + ")(" + strings.Join(args, ", ") + ")"
		ls = append(ls, C(call, "described"), C("!"+call, "superseded"))
	}
	return ls
}
