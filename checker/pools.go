package main

import (
	"fmt"
	"go/token"
	"strings"

	"golang.org/x/tools/go/ssa"
)

// workerPool is the idiom `ch := make(chan T, n); for … { go worker(…, ch, …) };
// for … { ch <- item }; close(ch); wg.Wait()` — a producer that feeds a local
// channel with plain (not stop-aware) sends and workers that consume it.
type workerPool struct {
	Owner   *ssa.Function
	Make    *ssa.MakeChan
	Sends   []*ssa.Send
	Workers []poolWorker
}

type poolWorker struct {
	Go    *ssa.Go
	Fn    *ssa.Function
	Param int // index into Fn.Params of the channel
}

func unwrapChan(v ssa.Value) ssa.Value {
	for {
		switch x := v.(type) {
		case *ssa.ChangeType:
			v = x.X
		case *ssa.MakeInterface:
			v = x.X
		default:
			return v
		}
	}
}

// workerPools finds the pools of the packages given (short names).
func (e *Engine) workerPools(pkgs ...string) []workerPool {
	var out []workerPool
	for _, pkg := range pkgs {
		for _, fn := range e.FuncsIn(pkg) {
			Instrs(fn, func(in ssa.Instruction) {
				mk, ok := in.(*ssa.MakeChan)
				if !ok {
					return
				}
				p := workerPool{Owner: fn, Make: mk}
				Instrs(fn, func(in2 ssa.Instruction) {
					switch x := in2.(type) {
					case *ssa.Send:
						if unwrapChan(x.Chan) == ssa.Value(mk) {
							p.Sends = append(p.Sends, x)
						}
					case *ssa.Go:
						callee := x.Call.StaticCallee()
						if callee == nil {
							return
						}
						// for static calls (methods included) Args and Params are aligned
						for i, a := range x.Call.Args {
							if unwrapChan(a) == ssa.Value(mk) && i < len(callee.Params) {
								p.Workers = append(p.Workers, poolWorker{Go: x, Fn: callee, Param: i})
							}
						}
					}
				})
				if len(p.Sends) > 0 && len(p.Workers) > 0 {
					out = append(out, p)
				}
			})
		}
	}
	return out
}

// checkWorkerPools: (a) a worker leaves only after it saw its channel closed -
// a worker that returns earlier stops receiving while the producer may still
// be blocked in a plain send; (b) the producer closes the channel on every
// path that leaves after the first worker was started, and waits for the
// workers only after the close.
func (e *Engine) checkWorkerPools(r *Report, rule string, minPools int, pkgs ...string) {
	pools := e.workerPools(pkgs...)
	r.Min(rule, "worker pools fed by plain sends in "+strings.Join(pkgs, ", "), len(pools), minPools)
	for _, p := range pools {
		owner := e.ShortName(p.Owner)
		seen := map[*ssa.Function]bool{}
		for _, w := range p.Workers {
			if seen[w.Fn] {
				continue
			}
			seen[w.Fn] = true
			ch := fmt.Sprintf("p%d", w.Param)
			wn := e.ShortName(w.Fn)
			if len(w.Fn.Blocks) == 0 {
				r.Unresolved(rule, wn+": worker body")
				continue
			}
			// every receive of the worker on the channel is a comma-ok receive (range) so that the close is observable
			nrecv := 0
			Instrs(w.Fn, func(in ssa.Instruction) {
				if u, ok := in.(*ssa.UnOp); ok && u.Op == token.ARROW && e.Canon(unwrapChan(u.X)) == ch {
					nrecv++
					r.Check(u.CommaOk, rule, wn+": receives from the pool channel by range / comma-ok", e.InstrPos(in),
						"the worker cannot tell a closed channel from an item", 1)
				}
			})
			r.Min(rule, wn+": receives on the pool channel of "+owner, nrecv, 1)
			cls := labeler(C("!recv("+ch+")#1", "closed"))
			n := 0
			for _, rw := range e.returnWorlds(r, rule, w.Fn, cls) {
				n++
				r.Check(rw.W.Has("closed"), rule, fmt.Sprintf("%s: leaves only after the pool channel of %s was closed (b%d %s)", wn, owner, rw.In.Block().Index, rw.W.String()), e.InstrPos(rw.In),
					"a worker returns while its channel is still open: the producer's plain send `"+e.InstrStr(p.Sends[0])+"` blocks for ever once all workers have left this way", 1, rw.W.String())
			}
			r.Min(rule, wn+": returns", n, 1)
		}
		mk := e.Canon(p.Make)
		started := func(ev *Event) (add, kill []string) {
			if ev.Kind == EvInstr {
				if g, ok := ev.Instr.(*ssa.Go); ok {
					for _, w := range p.Workers {
						if w.Go == g {
							return []string{"started"}, nil
						}
					}
				}
				if c, ok := ev.Instr.(*ssa.Call); ok {
					if b, ok := c.Call.Value.(*ssa.Builtin); ok && b.Name() == "close" && unwrapChan(c.Call.Args[0]) == ssa.Value(p.Make) {
						return []string{"closedCh"}, nil
					}
				}
			}
			return nil, nil
		}
		res := e.Flow(p.Owner, FlowOpts{Classify: started, Target: isReturn, Sticky: []string{"started", "closedCh"}})
		if res.Undecided {
			r.Bad(rule, owner+": path classes", e.Pos(p.Owner.Pos()), "undecided: path-world cap exceeded", res.Evals)
		} else {
			n := 0
			for in, ws := range res.At {
				if in.Block().Comment == "recover" {
					continue
				}
				for _, w := range ws {
					if !w.Has("started") {
						continue
					}
					n++
					r.Check(w.Has("closedCh"), rule, fmt.Sprintf("%s: closes %s before leaving (b%d)", owner, mk, in.Block().Index), e.InstrPos(in),
						"the producer returns with workers started and the channel still open: the workers never finish", 1, w.String())
				}
			}
			r.Min(rule, owner+": returns after the workers were started", n, 1)
		}
		// Wait only after close
		waits := e.findInstrs(p.Owner, "call(sync.(*WaitGroup).Wait)(§)", false)
		if len(waits) > 0 {
			res := e.Flow(p.Owner, FlowOpts{Classify: started, Target: anyOf(waits), Sticky: []string{"started", "closedCh"}})
			for in, ws := range res.At {
				for _, w := range ws {
					if !w.Has("started") {
						continue
					}
					r.Check(w.Has("closedCh"), rule, fmt.Sprintf("%s: waits for the workers only after close(%s)", owner, mk), e.InstrPos(in),
						"the producer waits for workers that cannot finish because their channel is still open", 1, w.String())
				}
			}
		}
		// sends happen before the close
		for _, s := range p.Sends {
			res := e.Flow(p.Owner, FlowOpts{Classify: started, Target: only(s), Sticky: []string{"started", "closedCh"}})
			for in, ws := range res.At {
				for _, w := range ws {
					r.Check(!w.Has("closedCh"), rule, fmt.Sprintf("%s: send on %s only while it is open", owner, mk), e.InstrPos(in),
						"a plain send on the pool channel after it was closed (panics)", 1, w.String())
				}
			}
		}
	}
}
