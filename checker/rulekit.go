package main

import (
	"fmt"
	"go/token"
	"regexp"
	"sort"
	"strings"

	"golang.org/x/tools/go/ssa"
)

// pat compiles a pattern over canonical strings: everything is literal except
//
//	§        any (shortest) run of characters
//	«regex»  raw regular expression
//
// The pattern is anchored at both ends unless it starts/ends with §.
func pat(s string) *regexp.Regexp {
	var b strings.Builder
	b.WriteString("^")
	for len(s) > 0 {
		switch {
		case strings.HasPrefix(s, "§"):
			b.WriteString(".*?")
			s = s[len("§"):]
		case strings.HasPrefix(s, "«"):
			j := strings.Index(s, "»")
			b.WriteString(s[len("«"):j])
			s = s[j+len("»"):]
		default:
			// literal up to next special
			j := len(s)
			if k := strings.Index(s, "§"); k >= 0 && k < j {
				j = k
			}
			if k := strings.Index(s, "«"); k >= 0 && k < j {
				j = k
			}
			b.WriteString(regexp.QuoteMeta(s[:j]))
			s = s[j:]
		}
	}
	b.WriteString("$")
	return regexp.MustCompile(b.String())
}

// L is one line of a label table.
type L struct {
	Kind  int // EvCond or EvInstr; -1 any
	Re    *regexp.Regexp
	Label string
	Kill  string
}

func C(p, label string) L { return L{Kind: EvCond, Re: pat(p), Label: label} }
func I(p, label string) L { return L{Kind: EvInstr, Re: pat(p), Label: label} }
func IK(p, kill string) L { return L{Kind: EvInstr, Re: pat(p), Kill: kill} }

// labeler builds a classifier from a table.
func labeler(ls ...L) Classifier {
	return func(ev *Event) (add, kill []string) {
		for _, l := range ls {
			if l.Kind >= 0 && l.Kind != ev.Kind {
				continue
			}
			if l.Re.MatchString(ev.Str) {
				if l.Label != "" {
					add = append(add, l.Label)
				}
				if l.Kill != "" {
					kill = append(kill, l.Kill)
				}
			}
		}
		return
	}
}

// both runs several classifiers.
func both(cs ...Classifier) Classifier {
	return func(ev *Event) (add, kill []string) {
		for _, c := range cs {
			a, k := c(ev)
			add = append(add, a...)
			kill = append(kill, k...)
		}
		return
	}
}

// instrMatch returns a target predicate: effect instructions whose canonical
// string matches p.
func (e *Engine) instrMatch(p string) func(ssa.Instruction) bool {
	re := pat(p)
	return func(in ssa.Instruction) bool {
		if !hasEffect(in) {
			return false
		}
		return re.MatchString(e.InstrStr(in))
	}
}

func isReturn(in ssa.Instruction) bool { _, ok := in.(*ssa.Return); return ok }

// Guarded runs a flow in fn and requires pred on every world reaching each
// target.  One obligation per target (keyed by construct + ordinal if several).
// Returns the number of targets found.
func (e *Engine) Guarded(r *Report, rule, construct string, fn *ssa.Function, target func(ssa.Instruction) bool,
	cls Classifier, pred func(LabelSet) bool, need string) int {
	if fn == nil {
		r.Unresolved(rule, construct)
		return 0
	}
	res := e.Flow(fn, FlowOpts{Classify: cls, Target: target})
	return e.judge(r, rule, construct, fn, res, pred, need)
}

func (e *Engine) judge(r *Report, rule, construct string, fn *ssa.Function, res *FlowResult,
	pred func(LabelSet) bool, need string) int {
	if res.Undecided {
		r.Bad(rule, construct, e.Pos(fn.Pos()), "undecided: path-world cap exceeded in "+e.ShortName(fn), res.Evals)
		return 0
	}
	var targets []ssa.Instruction
	for in := range res.At {
		targets = append(targets, in)
	}
	sort.Slice(targets, func(i, j int) bool {
		bi, bj := targets[i].Block().Index, targets[j].Block().Index
		if bi != bj {
			return bi < bj
		}
		return indexIn(targets[i].Block(), targets[i]) < indexIn(targets[j].Block(), targets[j])
	})
	for n, in := range targets {
		worlds := res.At[in]
		name := construct
		if len(targets) > 1 {
			name = fmt.Sprintf("%s #%d", construct, n+1)
		}
		var facts []string
		ok := true
		var badWorld string
		for _, w := range worlds {
			if pred(w) {
				facts = append(facts, "path class "+w.String())
			} else {
				ok = false
				badWorld = w.String()
				facts = append(facts, "OFFENDING path class "+w.String())
			}
		}
		sort.Strings(facts)
		if len(facts) > 8 {
			facts = append(facts[:8], fmt.Sprintf("... %d path classes in all", len(worlds)))
		}
		ev := res.Evals
		if n > 0 {
			ev = len(worlds)
		}
		if ok {
			r.Ok(rule, name, e.InstrPos(in), ev, append([]string{"target " + e.InstrStr(in), "required: " + need}, facts...)...)
		} else {
			r.Bad(rule, name, e.InstrPos(in),
				fmt.Sprintf("in %s a path reaches `%s` without the required guard/order facts (%s); path carries only %s",
					e.ShortName(fn), e.InstrStr(in), need, badWorld), ev, facts...)
		}
	}
	return len(targets)
}

// GuardedFrom is Guarded but starting on an out-edge of an If / after an instruction.
func (e *Engine) GuardedFrom(r *Report, rule, construct string, fn *ssa.Function, o FlowOpts,
	pred func(LabelSet) bool, need string) int {
	res := e.Flow(fn, o)
	return e.judge(r, rule, construct, fn, res, pred, need)
}

// findInstrs returns the effect instructions of fn (and optionally closures) matching p.
func (e *Engine) findInstrs(fn *ssa.Function, p string, withClosures bool) []ssa.Instruction {
	re := pat(p)
	var out []ssa.Instruction
	fns := []*ssa.Function{fn}
	if withClosures {
		fns = WithClosures(fn)
	}
	for _, f := range fns {
		Instrs(f, func(in ssa.Instruction) {
			if hasEffect(in) && re.MatchString(e.InstrStr(in)) {
				out = append(out, in)
			}
		})
	}
	return out
}

// ifEdges returns (block, succIndex) pairs of If instructions in fn whose
// condition on that successor matches p.
type edge struct {
	B    *ssa.BasicBlock
	Succ int
	Str  string
}

func (e *Engine) ifEdges(fn *ssa.Function, p string) []edge {
	re := pat(p)
	var out []edge
	for _, b := range fn.Blocks {
		if len(b.Instrs) == 0 {
			continue
		}
		if t, ok := b.Instrs[len(b.Instrs)-1].(*ssa.If); ok {
			for si, pol := range []bool{true, false} {
				s := e.CondStr(t.Cond, pol)
				if re.MatchString(s) {
					out = append(out, edge{b, si, s})
				}
			}
		}
	}
	return out
}

func siteKeys(e *Engine, ss []Site) []string {
	var out []string
	for _, s := range ss {
		out = append(out, e.ShortName(s.Fn)+" @"+e.InstrPos(s.Instr))
	}
	sort.Strings(out)
	return out
}

func needFn(e *Engine, r *Report, rule, name string) *ssa.Function {
	fn := e.Fn(name)
	if fn == nil {
		r.Unresolved(rule, name)
	}
	return fn
}

// closureOfCall finds the anonymous function passed at arg index to the first
// call in fn whose callee key matches calleePat.
func (e *Engine) closureOfCall(fn *ssa.Function, calleePat string, arg int) *ssa.Function {
	re := pat(calleePat)
	for _, s := range e.SitesIn(fn) {
		if re.MatchString(e.CalleeKey(s.Instr.Common())) {
			cc := s.Instr.Common()
			idx := arg
			if cc.IsInvoke() {
				idx = arg // Args excludes receiver for invoke
			}
			if f := ClosureArgOf(s.Instr, idx); f != nil {
				return f
			}
		}
	}
	return nil
}

// CF is a classifier line whose label is computed from the regexp submatches.
func CF(kind int, p string, f func(m []string) string) Classifier {
	re := pat(p)
	return func(ev *Event) (add, kill []string) {
		if kind >= 0 && ev.Kind != kind {
			return
		}
		if m := re.FindStringSubmatch(ev.Str); m != nil {
			if l := f(m); l != "" {
				add = append(add, l)
			}
		}
		return
	}
}

// only returns a target predicate for exactly this instruction.
func only(target ssa.Instruction) func(ssa.Instruction) bool {
	return func(in ssa.Instruction) bool { return in == target }
}

// innermostLoop returns the header of the innermost natural loop containing
// instruction in, and the terminators of the blocks that jump back to it.
func innermostLoop(in ssa.Instruction) (header *ssa.BasicBlock, backs []ssa.Instruction) {
	blk := in.Block()
	fn := blk.Parent()
	reach := func(from, to *ssa.BasicBlock, avoid *ssa.BasicBlock) bool {
		seen := map[*ssa.BasicBlock]bool{}
		st := []*ssa.BasicBlock{from}
		for len(st) > 0 {
			x := st[len(st)-1]
			st = st[:len(st)-1]
			if x == to {
				return true
			}
			if seen[x] || (x == avoid && x != from) {
				continue
			}
			seen[x] = true
			st = append(st, x.Succs...)
		}
		return false
	}
	for _, h := range fn.Blocks {
		if !h.Dominates(blk) {
			continue
		}
		var bs []ssa.Instruction
		for _, p := range h.Preds {
			if h.Dominates(p) && (p == blk || reach(blk, p, h)) {
				bs = append(bs, p.Instrs[len(p.Instrs)-1])
			}
		}
		if len(bs) == 0 {
			continue
		}
		if header == nil || header.Dominates(h) {
			header, backs = h, bs
		}
	}
	return
}

func anyOf(ins []ssa.Instruction) func(ssa.Instruction) bool {
	return func(in ssa.Instruction) bool {
		for _, x := range ins {
			if x == in {
				return true
			}
		}
		return false
	}
}

// flowsToReturn reports whether v reaches a return operand through phis.
func flowsToReturn(v ssa.Value) bool {
	seen := map[ssa.Value]bool{}
	var walk func(v ssa.Value) bool
	walk = func(v ssa.Value) bool {
		if seen[v] || v.Referrers() == nil {
			return false
		}
		seen[v] = true
		for _, ref := range *v.Referrers() {
			switch x := ref.(type) {
			case *ssa.Return:
				return true
			case *ssa.Phi:
				if walk(x) {
					return true
				}
			case *ssa.Store:
				// spilled named result
				if a, ok := x.Addr.(*ssa.Alloc); ok && a.Referrers() != nil {
					for _, r2 := range *a.Referrers() {
						if u, ok := r2.(*ssa.UnOp); ok && walk(u) {
							return true
						}
					}
				}
			}
		}
		return false
	}
	return walk(v)
}

// domConds lists the branch conditions (polarity applied, canonical) that hold
// whenever control reaches block b: for every dominator D of b (b included)
// that has a single predecessor ending in an If, the condition of the edge
// taken into D.
func (e *Engine) domConds(b *ssa.BasicBlock) []string {
	var out []string
	for d := b; d != nil; d = d.Idom() {
		if len(d.Preds) != 1 {
			continue
		}
		p := d.Preds[0]
		t, ok := p.Instrs[len(p.Instrs)-1].(*ssa.If)
		if !ok {
			continue
		}
		if p.Succs[0] == d && p.Succs[1] != d {
			out = append(out, e.CondStr(t.Cond, true))
		} else if p.Succs[1] == d && p.Succs[0] != d {
			out = append(out, e.CondStr(t.Cond, false))
		}
	}
	return out
}

func hasStr(ss []string, re string) bool {
	p := pat(re)
	for _, s := range ss {
		if p.MatchString(s) {
			return true
		}
	}
	return false
}

// phiLeaves returns the non-phi values that may flow into v through phi nodes
// (and spilled locals with known reaching stores).
func (e *Engine) phiLeaves(v ssa.Value) []ssa.Value {
	seen := map[ssa.Value]bool{}
	var out []ssa.Value
	var walk func(v ssa.Value)
	walk = func(v ssa.Value) {
		if seen[v] {
			return
		}
		seen[v] = true
		switch x := v.(type) {
		case *ssa.Phi:
			for _, ed := range x.Edges {
				walk(ed)
			}
			return
		case *ssa.UnOp:
			if a, ok := x.X.(*ssa.Alloc); ok && x.Op == token.MUL {
				vals, exact := e.ReachingStores(a, x)
				if exact && len(vals) > 0 {
					for _, s := range vals {
						if s != nil {
							walk(s)
						}
					}
					return
				}
			}
		}
		out = append(out, v)
	}
	walk(v)
	return out
}
