package main

import (
	"fmt"
	"strings"

	"golang.org/x/tools/go/ssa"
)

// checkPipeWritersClosed: for every io.Pipe() of the module, the goroutine that
// feeds the pipe closes the writing end on every path by which it ends (or the
// creating function does before it returns). The reading end is handed to a
// decoder or an HTTP request body: without the close a source that ends early
// is not an error there but a wait that nothing ends.
func (e *Engine) checkPipeWritersClosed(r *Report, rule string, minSites int) {
	n := 0
	for _, fn := range e.Funcs {
		for _, s := range e.SitesIn(fn) {
			if s.Kind != "call" || e.CalleeKey(s.Instr.Common()) != "io.Pipe" {
				continue
			}
			n++
			construct := fmt.Sprintf("%s: the writing end of io.Pipe() is closed by whoever feeds it", e.ShortName(fn))
			closeCls := labeler(
				I("call(io.(*PipeWriter).Close«(WithError)?»)(«\\^?»call(io.Pipe)()#1§", "closed"),
				I("defer call(io.(*PipeWriter).Close«(WithError)?»)(«\\^?»call(io.Pipe)()#1§", "closed"),
			)
			allClosed := func(f *ssa.Function) (bool, int, string) {
				res := e.Flow(f, FlowOpts{Classify: closeCls, Target: isReturn})
				if res.Undecided {
					return false, res.Evals, "undecided"
				}
				nret := 0
				for in, ws := range res.At {
					if in.Block().Comment == "recover" {
						continue
					}
					for _, w := range ws {
						nret++
						if !w.Has("closed") {
							return false, res.Evals, e.InstrPos(in)
						}
					}
				}
				return nret > 0, res.Evals, ""
			}
			var facts []string
			ok := false
			evals := 0
			// goroutine closures started by the creating function
			for _, g := range e.SitesIn(fn) {
				if g.Kind != "go" {
					continue
				}
				callee := g.Instr.Common().StaticCallee()
				if callee == nil || callee.Parent() != fn {
					continue
				}
				mentions := false
				Instrs(callee, func(in ssa.Instruction) {
					if strings.Contains(e.InstrStr(in), "call(io.Pipe)()#1") {
						mentions = true
					}
				})
				if !mentions {
					continue
				}
				c, ev, where := allClosed(callee)
				evals += ev
				if c {
					ok = true
					facts = append(facts, e.ShortName(callee)+" closes the writer on every path to its end")
				} else {
					facts = append(facts, e.ShortName(callee)+" can end without closing the writer ("+where+")")
				}
			}
			if !ok {
				if c, ev, _ := allClosed(fn); c {
					ok = true
					evals += ev
					facts = append(facts, "closed by the creating function itself")
				}
			}
			r.Check(ok, rule, construct, e.InstrPos(s.Instr),
				"the goroutine that copies into the pipe ends without closing it: when the source is shorter than what the reader needs (a cut connection, a header longer than announced) the reader waits for ever instead of seeing the end - the request is neither decoded nor refused; "+strings.Join(facts, "; "), evals, facts...)
		}
	}
	r.Min(rule, "io.Pipe() call sites in the module", n, minSites)
}
