package main

import (
	"fmt"
	"sort"
	"strings"

	"golang.org/x/tools/go/ssa"
)

func init() { register("C18", rulesC18) }

func rulesC18(e *Engine, r *Report) {
	// ---------------------------------------------------------------- R18.1 / R18.2
	r.Rule("R18.1", "a bare name is never a substring needle: the look-up accepts a line only if it starts with <name><separator> (the name is the first field of a record); no Contains/Index/FindLine with the name anywhere on the look-up path")
	r.Rule("R18.2", "all criteria apply to the same line, for every line: the line predicate answers yes only under the name prefix and (no hash asked or the record's hash field - position 0, or 1 when the record may carry a rename and has more than three further fields - equals the hash); eachLine offers every line of a day file and stops only on a yes; each() offers every day file and stops only on a yes or at the window's end")
	if top := needFn(e, r, "R18.1", "log.(*FileIO).wasWritten"); top != nil && len(top.AnonFuncs) == 1 {
		fn := top.AnonFuncs[0]
		prefix := `^(p1 + ":")`
		pv := e.findInstrs(top, `store(var(prefix) = (p1 + ":"))`, false)
		r.Check(len(pv) == 1, "R18.1", "log.(*FileIO).wasWritten: needle = name + separator", e.Pos(top.Pos()), "the needle is no longer the name followed by the record separator", 1)
		rest := "call(strings.Split)(p0[builtin(len)(" + prefix + "):], \":\")"
		cls := labeler(
			C("call(strings.HasPrefix)(p0, "+prefix+")", "nameIsFirstField"),
			C(`(^p2 == "")`, "noHashAsked"),
			C(`(builtin(len)(^p2) == 0)`, "noHashAsked"),
			C("("+rest+"[0] == ^p2)", "hashAt0"),
			C("("+rest+"[1] == ^p2)", "hashAt1"),
			C("(^p2 == "+rest+"[0])", "hashAt0"),
			C("(^p2 == "+rest+"[1])", "hashAt1"),
			C("("+rest+"[phi(0|1)] == ^p2)", "hashAtPhi"),
			C("(^p2 == "+rest+"[phi(0|1)])", "hashAtPhi"),
			C("^p3", "mayRename"),
			C("!^p3", "noRename"),
			C("(3 < builtin(len)("+rest+"))", "longRecord"),
			C("(builtin(len)("+rest+") <= 3)", "shortRecord"),
		)
		nT := 0
		var idxPhi []*ssa.Phi
		Instrs(fn, func(in ssa.Instruction) {
			if p, ok := in.(*ssa.Phi); ok && e.Canon(p) == "phi(0|1)" {
				idxPhi = append(idxPhi, p)
			}
		})
		res := e.Flow(fn, FlowOpts{Classify: cls, Target: isReturn, Track: idxPhi, Probe: func(in ssa.Instruction, resolve func(ssa.Value) ssa.Value) []string {
			var out []string
			for _, p := range idxPhi {
				if k, ok := resolve(p).(*ssa.Const); ok {
					out = append(out, "idx="+constStr(k))
				}
			}
			return out
		}})
		var rws []retWorld
		for in, ws := range res.At {
			for _, w := range ws {
				rws = append(rws, retWorld{in, w})
			}
		}
		sort.Slice(rws, func(i, j int) bool { return rws[i].W.String() < rws[j].W.String() })
		for _, rw := range rws {
			if !rw.W.Has("ret0=true") {
				continue
			}
			nT++
			w := rw.W
			hashOK := w.Has("noHashAsked") ||
				((w.Has("hashAt1") || w.HasAll("hashAtPhi", "idx=1")) && w.HasAll("mayRename", "longRecord")) ||
				((w.Has("hashAt0") || w.HasAll("hashAtPhi", "idx=0")) && (w.Has("noRename") || w.Has("shortRecord")))
			r.Check(w.Has("nameIsFirstField"), "R18.1", "log.(*FileIO).wasWritten: yes only for a line starting with <name>: "+w.String(), e.InstrPos(rw.In),
				"a record of another file can answer the look-up (the name is matched somewhere else than as the first field)", 1, w.String())
			r.Check(hashOK, "R18.2", "log.(*FileIO).wasWritten: yes only with the record's hash field equal to the hash asked "+w.String(), e.InstrPos(rw.In),
				"a record with another hash (or another field compared) answers the look-up", 1, w.String())
		}
		r.Min("R18.2", "accepting path classes of the line predicate", nT, 3)
		// no substring search on the look-up path
		var bad []string
		for _, name := range []string{"log.(*FileIO).wasWritten", "log.(*FileIO).WasSent", "log.(*FileIO).WasReceived", "log.(*rollingFile).eachLine", "log.(*rollingFile).each"} {
			f := e.Fn(name)
			if f == nil {
				continue
			}
			for _, cf := range WithClosures(f) {
				for _, in := range e.findInstrs(cf, "call(«(strings|bytes)».«(Contains|Index|LastIndex|ContainsAny)»)(§)", false) {
					bad = append(bad, e.ShortName(cf)+": "+shorten(e.InstrStr(in)))
				}
				for _, in := range e.findInstrs(cf, "call(fileutil.FindLine)(§)", false) {
					bad = append(bad, e.ShortName(cf)+": "+shorten(e.InstrStr(in)))
				}
			}
		}
		r.Check(len(bad) == 0, "R18.1", "log: no substring search on the look-up path", "", "the look-up uses a substring search: "+strings.Join(bad, "; "), 5, bad...)
		for _, w := range []struct{ fn, want string }{
			{"log.(*FileIO).WasSent", "call(log.(*FileIO).wasWritten)(p0, p1, p2, false, p3, p4)"},
			{"log.(*FileIO).WasReceived", "call(log.(*FileIO).wasWritten)(p0, p1, p2, true, p3, p4)"},
		} {
			if f := needFn(e, r, "R18.2", w.fn); f != nil {
				r.Check(len(e.findInstrs(f, w.want, false)) == 1, "R18.2", w.fn+": "+w.want, e.Pos(f.Pos()), "the look-up is not forwarded with (name, hash, rename-flag, window)", 1)
			}
		}
	} else if top != nil {
		r.Bad("R18.1", "log.(*FileIO).wasWritten: one line predicate", e.Pos(top.Pos()), "the look-up no longer consists of one line predicate handed to eachLine", 1)
	}
	if top := needFn(e, r, "R18.2", "log.(*rollingFile).eachLine"); top != nil && len(top.AnonFuncs) == 1 {
		fn := top.AnonFuncs[0]
		line := "dyn(^p1)(call(bufio.(*Scanner).Text)(§))"
		cls := labeler(C(line, "yes"), C("!call(bufio.(*Scanner).Scan)(§)", "exhausted"), C("(call(os.Open)(p0)#1 != nil)", "noFile"))
		n := 0
		for _, rw := range e.returnWorlds(r, "R18.2", fn, cls) {
			n++
			if rw.W.Has("ret0=true") {
				r.Check(rw.W.Has("yes"), "R18.2", "log.(*rollingFile).eachLine: stops with yes only when the predicate said yes", e.InstrPos(rw.In), "a day file is reported as a hit without the predicate", 1)
			} else {
				r.Check(rw.W.HasAny("exhausted", "noFile"), "R18.2", "log.(*rollingFile).eachLine: says no only after the last line (or without a file) "+rw.W.String(), e.InstrPos(rw.In),
					"a day file is given up before every line was offered to the predicate (a later record would be shadowed)", 1, rw.W.String())
			}
		}
		r.Min("R18.2", "return path classes of the per-file loop", n, 3)
		// the loop continues after a `no`
		nb := 0
		for _, b := range fn.Blocks {
			for _, s := range b.Succs {
				if s.Dominates(b) && s != b {
					nb++
				}
			}
		}
		r.Min("R18.2", "back edges of the line loop", nb, 1)
	}

	// ---------------------------------------------------------------- R18.5
	r.Rule("R18.5", "every day the window touches is visited: in each() the day file of the current position is offered to the handler in every iteration BEFORE the window-end test, so the closing day (reached by the step that overshoots the end instant) is still visited; the position advances by exactly one CALENDAR day in the window's direction (AddDate, not 24 absolute hours: daylight-saving days have 23 or 25); an empty or degenerate window visits nothing")
	e.checkDayLoop(r, "R18.5")

	// ---------------------------------------------------------------- R18.6
	r.Rule("R18.6", "records go where look-ups read: every record is written after rotate(); rotate() keeps the open handle only on the path where the day path is unchanged, the file still exists under that path (a moved or deleted day file is re-created - look-ups open by path, a stale handle writes into an inode nobody reads) and a handle is held; otherwise it (re)opens <root>/YYYYMM/DD of now with O_APPEND|O_CREATE after creating the directory, and the logger's output is the new handle")
	if fn := needFn(e, r, "R18.6", "log.(*rollingFile).rotate"); fn != nil {
		cur := "call(log.(*rollingFile).getCurrPath)(p0)"
		cls := labeler(
			C("("+cur+" == p0.path)", "samePath"), C("(p0.path == "+cur+")", "samePath"),
			C("!call(os.IsNotExist)(call(os.Stat)("+cur+")#1)", "stillThere"),
			C("(call(os.Stat)("+cur+")#1 == nil)", "stillThere"),
			C("(p0.fh != nil)", "haveHandle"),
			I("dyn(p0.open)("+cur+", §)", "opened"),
			I("dyn(p0.mkdir)(call(filepath.Dir)("+cur+"), §)", "dirMade"),
			I("store(p0.fh = dyn(p0.open)("+cur+", §)#0)", "handleKept"),
			I("store(p0.path = "+cur+")", "pathKept"),
			I("call(log.(*Logger).SetOutput)(p0.logger, p0.fh)", "outputSet"),
		)
		n := 0
		for _, rw := range e.returnWorlds(r, "R18.6", fn, cls) {
			n++
			if rw.W.Has("opened") {
				r.Check(rw.W.HasAll("dirMade", "handleKept", "pathKept", "outputSet"), "R18.6", "log.(*rollingFile).rotate: a (re)open creates the directory, keeps path and handle and redirects the logger "+rw.W.String(), e.InstrPos(rw.In),
					"after re-opening the day file one of: mkdir, path/handle bookkeeping, SetOutput is missing", 1, rw.W.String())
			} else {
				r.Check(rw.W.HasAll("samePath", "stillThere", "haveHandle"), "R18.6", "log.(*rollingFile).rotate: the old handle is kept only for the same day, an existing file and a live handle "+rw.W.String(), e.InstrPos(rw.In),
					"rotate() keeps writing through the old handle although the day changed, the day file is gone from its path, or no handle is open: records land where no look-up reads", 1, rw.W.String())
			}
		}
		r.Min("R18.6", "return classes of rotate()", n, 2)
		op := e.findInstrs(fn, "dyn(p0.open)("+cur+", §, §)", false)
		okFlags := false
		if len(op) == 1 {
			fl := e.Canon(op[0].(ssa.CallInstruction).Common().Args[1])
			// O_APPEND (1024) and O_CREATE (64) must be part of the constant
			var v int
			fmt.Sscanf(fl, "%d", &v)
			okFlags = v&1024 != 0 && v&64 != 0 && v&3 != 0
		}
		r.Check(okFlags, "R18.6", "log.(*rollingFile).rotate: the day file is opened for appending, created when missing", e.Pos(fn.Pos()), "the day file is not opened with O_APPEND|O_CREATE and write access (existing records would be overwritten or a missing file not created)", 1)
	}
	if fn := needFn(e, r, "R18.6", "log.(*rollingFile).log"); fn != nil {
		cls := labeler(I("call(log.(*rollingFile).rotate)(p0)", "rotated"))
		n := e.Guarded(r, "R18.6", "log.(*rollingFile).log: the record is written after rotate()", fn, e.instrMatch("call(log.(*Logger).Println)(p0.logger, §)"), cls,
			func(l LabelSet) bool { return l.Has("rotated") }, "rotate() first")
		r.Min("R18.6", "record writes in log()", n, 1)
	}

	// ---------------------------------------------------------------- R18.3
	r.Rule("R18.3", "record layout vs. parser: the receive record is name:renamed:hash:size:time: and the sent record name:hash:size:time: ms, built from the like-named getters; Parse splits on the same separator and hands the handler (field 0, field 1 when more than four fields else \"\", the next field, the next as integer, the next as unix time); the look-up's hash index follows the same rule; and a %s field must not be able to contain the separator unescaped")
	if fn := needFn(e, r, "R18.3", "log.(*FileIO).Received"); fn != nil {
		got := e.findInstrs(fn, `call(fmt.Sprintf)("%s:%s:%s:%d:%d:", [invoke(sts.Received.GetName)(p1), invoke(sts.Received.GetRenamed)(p1), invoke(sts.Received.GetHash)(p1), invoke(sts.Received.GetSize)(p1), call(time.(Time).Unix)(call(time.Now)())])`, false)
		r.Check(len(got) == 1, "R18.3", "log.(*FileIO).Received: \"%s:%s:%s:%d:%d:\" of (name, renamed, hash, size, now)", e.Pos(fn.Pos()), "the receive record is not name:renamed:hash:size:time: from the file's getters", 1)
		// F7c: unescaped %s fields
		esc := e.findInstrs(fn, "call(«(strings.ReplaceAll|url.PathEscape|url.QueryEscape|strconv.Quote)»)(§)", false)
		r.Check(len(esc) > 0, "R18.3", "log.(*FileIO).Received: %s fields may contain the record separator", e.Pos(fn.Pos()),
			"name and rename target are written with %s into a `:`-separated record without escaping: a name containing `:` shifts every field for Parse and for the look-up (c:d.dat parses as name c, rename d.dat)", 1)
	}
	if fn := needFn(e, r, "R18.3", "log.(*FileIO).Sent"); fn != nil {
		got := e.findInstrs(fn, `call(fmt.Sprintf)("%s:%s:%d:%d: %d ms", [invoke(sts.Sent.GetName)(p1), invoke(sts.Sent.GetHash)(p1), invoke(sts.Sent.GetSize)(p1), call(time.(Time).Unix)(call(time.Now)()), invoke(sts.Sent.TimeMs)(p1)])`, false)
		r.Check(len(got) == 1, "R18.3", "log.(*FileIO).Sent: \"%s:%s:%d:%d: %d ms\" of (name, hash, size, now, ms)", e.Pos(fn.Pos()), "the sent record is not name:hash:size:time: ms from the file's getters", 1)
	}
	if top := needFn(e, r, "R18.3", "log.(*FileIO).Parse"); top != nil && len(top.AnonFuncs) == 1 {
		fn := top.AnonFuncs[0]
		sp := `call(strings.Split)(p0, ":")`
		i := "phi((1 + 1)|1)"
		want := "dyn(^p1)(" + sp + "[0], phi(\"\"|" + sp + "[1]), " + sp + "[" + i + "], call(strconv.ParseInt)(" + sp + "[(" + i + " + 1)], 10, 64)#0, call(time.Unix)(call(strconv.ParseInt)(" + sp + "[(" + i + " + 2)], 10, 64)#0, 0))"
		got := e.findInstrs(fn, want, false)
		r.Check(len(got) == 1, "R18.3", "log.(*FileIO).Parse: handler(name, renamed, hash, size, time) from consecutive fields", e.Pos(fn.Pos()),
			"the parser's field positions do not follow the record layout", 1, want)
		// the rename field is read exactly when there are more than four fields
		var ph *ssa.Phi
		Instrs(fn, func(in ssa.Instruction) {
			if p, ok := in.(*ssa.Phi); ok && e.Canon(p) == `phi(""|`+sp+`[1])` {
				ph = p
			}
		})
		okR := false
		if ph != nil {
			for k, ed := range ph.Edges {
				if e.Canon(ed) == sp+"[1]" {
					conds := e.domConds(ph.Block().Preds[k])
					okR = hasStr(conds, "(4 < builtin(len)("+sp+"))")
				}
			}
		}
		r.Check(okR, "R18.3", "log.(*FileIO).Parse: a rename field is read only from records with more than four fields", e.Pos(fn.Pos()), "the rename position is taken under another condition than `more than four fields`", 1)
		short := e.ifEdges(fn, "(builtin(len)("+sp+") < 4)")
		r.Check(len(short) == 1, "R18.3", "log.(*FileIO).Parse: records with fewer than four fields are skipped", e.Pos(fn.Pos()), "short lines are no longer skipped (index out of range on a damaged line)", 1)
	}
	{
		// the separator used by writer, parser and look-up is one and the same
		seps := map[string]bool{}
		for _, name := range []string{"log.(*FileIO).Parse", "log.(*FileIO).wasWritten"} {
			if f := e.Fn(name); f != nil {
				for _, cf := range WithClosures(f) {
					for _, in := range e.findInstrs(cf, "call(strings.Split)(§, §)", false) {
						seps[e.Canon(in.(ssa.CallInstruction).Common().Args[1])] = true
					}
				}
			}
		}
		var ss []string
		for s := range seps {
			ss = append(ss, s)
		}
		sort.Strings(ss)
		r.Check(len(ss) == 1 && ss[0] == `":"`, "R18.3", "log: parser and look-up split on the writer's separator", "", "separators in use: "+strings.Join(ss, ", "), len(ss), ss...)
	}

	// ---------------------------------------------------------------- R18.4
	r.Rule("R18.4", "single writer: rollingFile.log is called only from the logger goroutine started by the constructor; Sent/Received hand the record over on the log channel and wait for the acknowledgement, so records of concurrent callers are written one at a time and a caller returns only after its record was written")
	{
		sites := e.SitesOf(pat("log.(*rollingFile).log"), nil)
		var where []string
		ok := true
		for _, s := range sites {
			n := e.ShortName(s.Fn)
			where = append(where, n)
			if !(strings.HasPrefix(n, "log.NewFileIO$") || strings.HasPrefix(n, "log.NewGeneral$")) {
				ok = false
			}
			if ok {
				// that closure is started with `go` by the constructor
				started := false
				if par := s.Fn.Parent(); par != nil {
					Instrs(par, func(in ssa.Instruction) {
						if g, isGo := in.(*ssa.Go); isGo && funcOf(g.Call.Value) == s.Fn {
							started = true
						}
					})
				}
				if !started {
					ok = false
				}
			}
		}
		sort.Strings(where)
		r.Check(ok && len(sites) >= 2, "R18.4", "log.(*rollingFile).log is called only from the writer goroutines", "", "records can be written from "+strings.Join(where, ", "), len(sites), where...)
	}
	for _, name := range []string{"log.(*FileIO).Sent", "log.(*FileIO).Received"} {
		if fn := needFn(e, r, "R18.4", name); fn != nil {
			cls := labeler(I("send(p0.logCh, §)", "handedOver"))
			var acks []ssa.Instruction
			Instrs(fn, func(in ssa.Instruction) {
				if u, ok := in.(*ssa.UnOp); ok && u.Op.String() == "<-" && e.Canon(u.X) == "p0.loggedCh" {
					acks = append(acks, in)
				}
			})
			r.Check(len(acks) == 1, "R18.4", name+": waits for the writer's acknowledgement", e.Pos(fn.Pos()), "the caller does not wait for its record to be written", 1)
			for _, a := range acks {
				e.Guarded(r, "R18.4", name+": acknowledgement awaited after the hand-over", fn, only(a), cls, func(l LabelSet) bool { return l.Has("handedOver") }, "record sent on logCh first")
			}
			for _, rw := range e.returnWorlds(r, "R18.4", fn, cls) {
				r.Check(rw.W.Has("handedOver"), "R18.4", name+": every return handed the record over", e.InstrPos(rw.In), "a path returns without logging", 1)
			}
		}
	}
	if fn := needFn(e, r, "R18.4", "log.NewFileIO"); fn != nil && len(fn.AnonFuncs) == 1 {
		cf := fn.AnonFuncs[0]
		cls := labeler(I("call(log.(*rollingFile).log)(p0.logger, §)", "written"))
		n := 0
		Instrs(cf, func(in ssa.Instruction) {
			if s, ok := in.(*ssa.Send); ok && e.Canon(s.Chan) == "p0.loggedCh" {
				n++
				e.Guarded(r, "R18.4", "log.NewFileIO: acknowledgement only after the record was written", cf, only(in), cls, func(l LabelSet) bool { return l.Has("written") }, "rollingFile.log(msg) returned")
			}
		})
		r.Min("R18.4", "acknowledgements in the writer goroutine", n, 1)
	}
	// ---------------------------------------------------------------- R18.7
	r.Rule("R18.7", "the receive record describes the file that was delivered: finalize() writes the record of the very version whose bytes it moves (the cache's current record for the path), never the record of an older version that was parked before - shared with R05.12")
	e.checkCurrentVersionFinalized(r, "R18.7")
	// ---------------------------------------------------------------- R18.8
	r.Rule("R18.8", "the walk ends where the window ends, in both directions: in rollingFile.each the two exit tests compare the day being visited with the window's end - After(stop) going forward, Before(stop) going backward, the receiver of both being the loop's own day; with the operands of the backward test swapped a reversed window is left after its first day")
	if fn := needFn(e, r, "R18.8", "log.(*rollingFile).each"); fn != nil {
		n := 0
		for _, dir := range []string{"After", "Before"} {
			for _, in := range e.findInstrs(fn, "call(time.(Time)."+dir+")(§)", false) {
				if h, _ := innermostLoop(in); h == nil {
					continue // the direction test before the loop
				}
				n++
				args := in.(ssa.CallInstruction).Common().Args
				recv, arg := e.Canon(args[0]), e.Canon(args[1])
				ok := strings.Contains(recv, "AddDate") && !strings.Contains(arg, "AddDate")
				r.Check(ok, "R18.8", "log.(*rollingFile).each: exit test "+dir+"(window end) on the day being visited", e.InstrPos(in),
					"the exit test compares `"+shorten(recv)+"`."+dir+"(`"+shorten(arg)+"`): the day being visited must be the receiver and the window's end the argument", 1)
			}
		}
		r.Min("R18.8", "exit tests of the day loop", n, 2)
	}
}

// checkDayLoop: the day-file iterator behind Parse / WasReceived / WasSent
// visits every day a window touches, the closing day included (shared by
// R18.5 and R05.10: the receiver's duplicate suppression refills its cache
// through this loop).
func (e *Engine) checkDayLoop(r *Report, rule string) {
	if fn := needFn(e, r, rule, "log.(*rollingFile).each"); fn != nil {
		visit := e.findInstrs(fn, "dyn(p1)(call(log.(*rollingFile).getPath)(p0, §))", false)
		r.Check(len(visit) == 1, rule, "log.(*rollingFile).each: the handler gets getPath(position)", e.Pos(fn.Pos()), "the day file offered is not the one of the current position", 1)
		if len(visit) == 1 {
			hdr, backs := innermostLoop(visit[0])
			r.Check(hdr != nil, rule, "log.(*rollingFile).each: the visit is inside the day loop", e.InstrPos(visit[0]), "no loop over the days", 1)
			if hdr != nil {
				// window-end exits: edges leaving the loop on After/Before(stop)
				cls := labeler(I("dyn(p1)(call(log.(*rollingFile).getPath)(p0, §))", "visited"))
				nExit := 0
				for _, p := range []string{"call(time.(Time).After)(phi(§), §)", "call(time.(Time).Before)(phi(§), §)"} {
					for _, ed := range e.ifEdges(fn, p) {
						if !hdr.Dominates(ed.B) {
							continue
						}
						nExit++
						conds := []string{}
						// the visit dominates the exit test within the iteration
						okDom := visit[0].Block().Dominates(ed.B) && (visit[0].Block() != ed.B || true)
						_ = conds
						r.Check(okDom, rule, fmt.Sprintf("log.(*rollingFile).each: window-end test b%d comes after the visit of that day", ed.B.Index), e.Pos(fn.Pos()),
							"the loop can leave on the window's end before the day file of the current position was offered: the closing day of a window is skipped", 1)
					}
				}
				_ = cls
				r.Min(rule, "window-end exits of the day loop", nExit, 2)
				// advance by one day in the direction
				// one CALENDAR day in the window's direction: a step of 24 absolute hours skips the 23-hour
				// spring-forward day when the window starts after 23:00 local (F29)
				adv := e.findInstrs(fn, "call(time.(Time).AddDate)(phi(§), 0, 0, §)", false)
				okAdv := len(adv) == 1
				var stepS string
				if okAdv {
					stepS = e.Canon(adv[0].(ssa.CallInstruction).Common().Args[3])
					// the step is +1 or -1 (a phi of the two constants, possibly carried round the loop)
					okAdv = false
					leaves := map[string]bool{}
					for _, lv := range e.phiLeaves(adv[0].(ssa.CallInstruction).Common().Args[3]) {
						leaves[e.Canon(lv)] = true
					}
					if len(leaves) > 0 {
						okAdv = true
						for l := range leaves {
							if l != "1" && l != "-1" {
								okAdv = false
							}
						}
					}
				}
				abs := e.findInstrs(fn, "call(time.(Time).Add)(phi(§), §)", false)
				r.Check(okAdv && len(abs) == 0, rule, "log.(*rollingFile).each: position advances by one calendar day in the window's direction", e.Pos(fn.Pos()),
					"the day loop does not step with AddDate(0, 0, ±1): a step of 24 absolute hours lands on the day after next across a 23-hour (spring-forward) day, whose file is then never visited", 1, stepS)
				_ = backs
			}
		}
		for _, rw := range e.returnWorlds(r, rule, fn, labeler(C("dyn(p1)(§)", "hit"))) {
			if rw.W.Has("ret0=true") {
				r.Check(rw.W.Has("hit"), rule, "log.(*rollingFile).each: yes only when the handler said yes", e.InstrPos(rw.In), "each() reports a hit without the handler", 1)
			}
		}
	}
	if fn := needFn(e, r, rule, "log.(*rollingFile).getPath"); fn != nil {
		got := e.findInstrs(fn, `call(filepath.Join)([p0.root, call(fmt.Sprintf)("%04d%02d", [call(time.(Time).Year)(p1), call(time.(Time).Month)(p1)]), call(fmt.Sprintf)("%02d", [call(time.(Time).Day)(p1)])])`, false)
		r.Check(len(got) == 1, rule, "log.(*rollingFile).getPath: <root>/YYYYMM/DD of the given instant", e.Pos(fn.Pos()), "the day-file path is not derived from year, month and day of the instant", 1)
		cur := e.Fn("log.(*rollingFile).getCurrPath")
		if cur != nil {
			r.Check(len(e.findInstrs(cur, "call(log.(*rollingFile).getPath)(p0, call(time.Now)())", false)) == 1, rule, "log.(*rollingFile).getCurrPath: writer and reader share getPath", e.Pos(cur.Pos()), "records are written to a path computed differently from the one the look-up visits", 1)
		}
	}

}
