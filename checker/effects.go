package main

import (
	"fmt"
	"go/token"
	"go/types"
	"sort"
	"strings"

	"golang.org/x/tools/go/ssa"
)

// fsSinks are the standard-library calls that create, change or delete
// something in the file system.
var fsSinks = map[string]bool{
	"os.Mkdir": true, "os.MkdirAll": true, "os.OpenFile": true, "os.Create": true, "os.Remove": true, "os.RemoveAll": true,
	"os.Rename": true, "os.WriteFile": true, "os.Chtimes": true, "os.Chmod": true, "os.Chown": true, "os.Symlink": true, "os.Link": true,
	"os.Truncate": true, "os.CreateTemp": true, "os.MkdirTemp": true, "ioutil.WriteFile": true, "ioutil.TempFile": true, "ioutil.TempDir": true,
	"os.(*File).Write": true, "os.(*File).WriteString": true, "os.(*File).WriteAt": true, "os.(*File).Truncate": true, "os.(*File).Sync": true,
	"os.(*Root).Create": true, "os.(*Root).OpenFile": true, "os.(*Root).Mkdir": true, "os.(*Root).Remove": true,
}

// fsSinkFuncTypes are module-defined function types whose values are file
// system mutators handed around as struct fields (log.MakeDir = os.MkdirAll,
// log.OpenFile = os.OpenFile).
var fsSinkFuncTypes = map[string]bool{"log.MakeDir": true, "log.OpenFile": true}

type effectSite struct {
	Fn   *ssa.Function
	In   ssa.Instruction
	What string
}

type effects struct {
	e     *Engine
	memo  map[*ssa.Function][]effectSite // direct + transitive synchronous effects, by function
	busy  map[*ssa.Function]bool
	later []string // what was classified as deferred (timer callbacks, goroutines)
}

func (e *Engine) newEffects() *effects {
	return &effects{e: e, memo: map[*ssa.Function][]effectSite{}, busy: map[*ssa.Function]bool{}}
}

func (x *effects) inModule(fn *ssa.Function) bool {
	if fn == nil || len(fn.Blocks) == 0 {
		return false
	}
	p := fnPkg(fn)
	return p != nil && (p.Path() == "github.com/arm-doe/sts" || strings.HasPrefix(p.Path(), "github.com/arm-doe/sts/"))
}

// direct classifies one call instruction: sink name, or "".
func (x *effects) direct(cc *ssa.CallCommon) string {
	e := x.e
	if cc.IsInvoke() {
		return ""
	}
	key := e.CalleeKey(cc)
	if fsSinks[key] {
		return key
	}
	if cc.StaticCallee() == nil {
		if _, isBuiltin := cc.Value.(*ssa.Builtin); !isBuiltin {
			if fsSinkFuncTypes[e.typeShort(cc.Value.Type())] {
				return "value of type " + e.typeShort(cc.Value.Type())
			}
		}
	}
	return ""
}

// sync returns the file-system effects that running fn to completion performs
// on the calling goroutine (static callees inside the module, closures called
// directly, deferred calls).  `go` statements and callbacks handed to
// time.AfterFunc are not followed here (see goEffects).
func (x *effects) sync(fn *ssa.Function) []effectSite {
	if v, ok := x.memo[fn]; ok {
		return v
	}
	if x.busy[fn] {
		return nil
	}
	x.busy[fn] = true
	var out []effectSite
	Instrs(fn, func(in ssa.Instruction) {
		var cc *ssa.CallCommon
		switch c := in.(type) {
		case *ssa.Call:
			cc = &c.Call
		case *ssa.Defer:
			cc = &c.Call
		default:
			return
		}
		if d := x.direct(cc); d != "" {
			out = append(out, effectSite{fn, in, d})
			return
		}
		if cal := cc.StaticCallee(); x.inModule(cal) {
			for _, s := range x.sync(cal) {
				out = append(out, effectSite{fn, in, x.e.ShortName(cal) + " → " + s.What})
			}
		}
	})
	x.busy[fn] = false
	x.memo[fn] = out
	return out
}

func hasRecv(b *ssa.BasicBlock) bool {
	for _, in := range b.Instrs {
		switch v := in.(type) {
		case *ssa.UnOp:
			if v.Op == token.ARROW {
				return true
			}
		case *ssa.Select:
			for _, st := range v.States {
				if st.Dir == types.RecvOnly {
					return true
				}
			}
		}
	}
	return false
}

// unprompted lists the effects of a goroutine body that are NOT dominated by a
// channel receive of that body, i.e. that happen merely because the goroutine
// was started.
func (x *effects) unprompted(g *ssa.Function) []effectSite {
	var out []effectSite
	var recvBlocks []*ssa.BasicBlock
	for _, b := range g.Blocks {
		if hasRecv(b) {
			recvBlocks = append(recvBlocks, b)
		}
	}
	prompted := func(in ssa.Instruction) bool {
		for _, rb := range recvBlocks {
			if rb.Dominates(in.Block()) {
				if rb != in.Block() {
					return true
				}
				// same block: the receive must come first
				for _, i2 := range rb.Instrs {
					if i2 == in {
						break
					}
					if u, ok := i2.(*ssa.UnOp); ok && u.Op == token.ARROW {
						return true
					}
					if _, ok := i2.(*ssa.Select); ok {
						return true
					}
				}
			}
		}
		return false
	}
	for _, s := range x.sync(g) {
		if !prompted(s.In) {
			out = append(out, s)
		}
	}
	return out
}

// constructionEffects: everything that happens because root was called -
// synchronously, or in goroutines it starts (transitively) before they wait
// for a message.  Timer callbacks are recorded as deferred, not followed.
func (x *effects) constructionEffects(root *ssa.Function) []effectSite {
	var out []effectSite
	seen := map[*ssa.Function]bool{}
	var visit func(fn *ssa.Function, asGo bool)
	visit = func(fn *ssa.Function, asGo bool) {
		if seen[fn] {
			return
		}
		seen[fn] = true
		if asGo {
			out = append(out, x.unprompted(fn)...)
		} else {
			out = append(out, x.sync(fn)...)
		}
		// goroutines and sync callees that start goroutines
		Instrs(fn, func(in ssa.Instruction) {
			switch c := in.(type) {
			case *ssa.Go:
				if cal := c.Call.StaticCallee(); x.inModule(cal) {
					x.later = append(x.later, "goroutine "+x.e.ShortName(cal)+" started in "+x.e.ShortName(fn))
					visit(cal, true)
				}
			case *ssa.Call:
				if cal := c.Call.StaticCallee(); x.inModule(cal) && !asGo {
					visit(cal, false)
				}
				if x.e.CalleeKey(&c.Call) == "time.AfterFunc" {
					x.later = append(x.later, "timer callback armed in "+x.e.ShortName(fn))
				}
			}
		})
	}
	visit(root, false)
	return out
}

func (x *effects) describe(ss []effectSite) []string {
	var out []string
	for _, s := range ss {
		out = append(out, fmt.Sprintf("%s: %s @%s", x.e.ShortName(s.Fn), s.What, x.e.InstrPos(s.In)))
	}
	sort.Strings(out)
	return out
}
