package main

import (
	"fmt"
	"go/types"
	"sort"
	"strings"

	"golang.org/x/tools/go/ssa"
)

func init() { register("C02", rulesC02) }

// enclosingDoneCall: if fn is a closure passed as whileLocked (arg index 1) to an
// invoke of sts.FileCache.Done, return that call site.
func (e *Engine) enclosingDoneCall(fn *ssa.Function) (ssa.CallInstruction, *ssa.Function) {
	mc := e.parents[fn]
	if mc == nil {
		return nil, nil
	}
	parent := mc.Parent()
	for _, s := range e.SitesIn(parent) {
		cc := s.Instr.Common()
		if cc.IsInvoke() && cc.Method.Name() == "Done" && len(cc.Args) == 2 && cc.Args[1] == ssa.Value(mc) {
			return s.Instr, parent
		}
	}
	return nil, nil
}

func rulesC02(e *Engine, r *Report) {
	// ---------------------------------------------------------------- R02.1
	r.Rule("R02.1", "who may delete a source file: every call of FileSource.Remove(X) is guarded on all paths by canDelete(X) and by either IsDone(X) or by being the whileLocked callback of a FileCache.Done call that is itself guarded by Waiting() or Received() of the polled value naming the file")
	rm := e.InvokeSites("sts", "FileSource", "Remove")
	for _, s := range rm {
		cc := s.Instr.Common()
		x := e.Canon(cc.Args[0])
		construct := e.ShortName(s.Fn) + ": FileSource.Remove(" + x + ")"
		brk := "p0"
		if s.Fn.Parent() != nil {
			brk = "^p0"
		}
		cls := labeler(
			C("call(client.(*Broker).canDelete)("+brk+", "+x+")", "canDelete"),
			C("invoke(sts.Cached.IsDone)("+x+")", "isDone"),
		)
		doneCall, parent := e.enclosingDoneCall(s.Fn)
		inCallback := doneCall != nil && x == "p0"
		target := s.Instr.(ssa.Instruction)
		e.Guarded(r, "R02.1", construct, s.Fn, only(target), cls, func(l LabelSet) bool {
			return l.Has("canDelete") && (l.Has("isDone") || inCallback)
		}, "canDelete("+x+") and (IsDone("+x+") or whileLocked callback of a guarded Done)")
		if inCallback {
			// the enclosing Done call must be guarded by the verdict
			key := e.Canon(doneCall.Common().Args[0])
			polled := strings.TrimSuffix(strings.TrimPrefix(key, "invoke(sts.Polled.GetName)("), ")")
			cls2 := labeler(
				C("invoke(sts.Polled.Waiting)("+polled+")", "verdictOK"),
				C("invoke(sts.Polled.Received)("+polled+")", "verdictOK"),
			)
			e.Guarded(r, "R02.1", e.ShortName(parent)+": FileCache.Done(…, delete callback)", parent, only(doneCall.(ssa.Instruction)), cls2,
				func(l LabelSet) bool { return l.Has("verdictOK") }, "Waiting() or Received() of "+polled+" (the polled value whose name is the key)")
		} else if doneCall == nil && s.Fn.Parent() == nil {
			// a bare site outside any closure is fine only with isDone (already required)
		}
	}
	r.Min("R02.1", "FileSource.Remove call sites", len(rm), 2)

	// ---------------------------------------------------------------- R02.2
	r.Rule("R02.2", "who may mark done: FileCache.Done is called only with a verdict - guarded by Waiting()/Received() of the polled file; there is no `done` for a file that is merely not there (the nil-callback form, which the scan's clean-up would take for `confirmed` should the file come back)")
	ds := e.InvokeSites("sts", "FileCache", "Done")
	for _, s := range ds {
		cc := s.Instr.Common()
		if cc.IsInvoke() && len(cc.Args) == 2 {
			cb := e.Canon(cc.Args[1])
			construct := e.ShortName(s.Fn) + ": FileCache.Done(" + shorten(e.Canon(cc.Args[0])) + ", " + cb + ")"
			if cb == "nil" {
				// `done` means confirmed: a file that is merely not there is forgotten (Cache.Remove, R07.3),
				// not marked done - it may come back unchanged, and the scan's clean-up deletes done files (F55)
				r.Bad("R02.2", construct, e.InstrPos(s.Instr), "a cache entry is marked done without a verdict (nil callback): if the file (re)appears unchanged it is passed over by the scan and deleted by its clean-up, unsent", 1)
			} else {
				key := e.Canon(cc.Args[0])
				polled := strings.TrimSuffix(strings.TrimPrefix(key, "invoke(sts.Polled.GetName)("), ")")
				cls := labeler(
					C("invoke(sts.Polled.Waiting)("+polled+")", "verdictOK"),
					C("invoke(sts.Polled.Received)("+polled+")", "verdictOK"),
				)
				e.Guarded(r, "R02.2", construct, s.Fn, only(s.Instr.(ssa.Instruction)), cls,
					func(l LabelSet) bool { return l.Has("verdictOK") }, "Waiting() or Received() of "+polled)
			}
		}
	}
	r.Min("R02.2", "FileCache.Done call sites", len(ds), 1)

	// ---------------------------------------------------------------- R02.3
	r.Rule("R02.3", "the done bit belongs to one version: in every FileCache implementation (outside mock) `true` is stored to the entry's done field only in Done; a store of the version fields (size/mtime/hash) of an existing entry is preceded on every path by a store of false to its done field, or the path carries size and mtime equality with the incoming file")
	fcT := e.Type("sts", "FileCache")
	nImpl := 0
	if fcT == nil {
		r.Unresolved("R02.3", "sts.FileCache")
	} else {
		iface := fcT.Underlying().(*types.Interface)
		for _, pkg := range e.Pkgs {
			sc := pkg.Types.Scope()
			for _, n := range sc.Names() {
				tn, ok := sc.Lookup(n).(*types.TypeName)
				if !ok {
					continue
				}
				pt := types.NewPointer(tn.Type())
				if !types.Implements(pt, iface) || strings.HasSuffix(pkg.PkgPath, "/mock") {
					continue
				}
				nImpl++
				pkgShort := strings.TrimPrefix(pkg.PkgPath, modPath+"/")
				// all functions of that package
				nTrue, nVer := 0, 0
				for _, fn := range e.FuncsIn(pkgShort) {
					Instrs(fn, func(in ssa.Instruction) {
						st, ok := in.(*ssa.Store)
						if !ok {
							return
						}
						fa, ok := st.Addr.(*ssa.FieldAddr)
						if !ok {
							return
						}
						f := fieldVar(fa.X, fa.Field)
						if f == nil {
							return
						}
						obj := e.Canon(fa.X)
						switch f.Name() {
						case "Done":
							if e.Canon(st.Val) == "true" {
								nTrue++
								r.Check(fn.Name() == "Done", "R02.3", e.ShortName(fn)+": store true to done field", e.InstrPos(in),
									"the done mark is set outside the Done method", 1, e.InstrStr(in))
							}
						case "Hash", "Size", "Time":
							if strings.Contains(obj, "new(") || !strings.HasSuffix(fa.X.Type().String(), "cacheFile") {
								return // fresh entry (composite literal)
							}
							if f.Name() == "Hash" && e.Canon(st.Val) == `""` {
								return // Reset clears the hash only
							}
							nVer++
							inc := `invoke(sts.Hashed.Get«(Size|Time|Hash)»)(p1)`
							cls := labeler(
								I("store("+obj+".Done = false)", "doneReset"),
								C("("+inc+" == "+obj+".Size)", "sameSize"),
								C("("+obj+".Size == "+inc+")", "sameSize"),
								C("call(time.(Time).Equal)("+obj+".Time.Time, "+inc+")", "sameTime"),
								C("call(time.(Time).Equal)("+inc+", "+obj+".Time.Time)", "sameTime"),
								C("("+obj+".Time.Time == "+inc+")", "sameTime"),
								C("("+inc+" == "+obj+".Time.Time)", "sameTime"),
							)
							e.Guarded(r, "R02.3", e.ShortName(fn)+": store "+f.Name()+" of an existing entry (done bit vs version fields)", fn, only(in), cls,
								func(l LabelSet) bool { return l.Has("doneReset") || l.HasAll("sameSize", "sameTime") },
								"done=false stored before, or size and mtime unchanged")
						}
					})
				}
				r.Min("R02.3", "stores of true to the done field in "+pkgShort, nTrue, 1)
				r.Min("R02.3", "stores of version fields of an existing entry in "+pkgShort, nVer, 2)
			}
		}
	}
	r.Min("R02.3", "FileCache implementations outside mock", nImpl, 1)

	// ---------------------------------------------------------------- R02.4
	r.Rule("R02.4", "verdict tables agree: http.confirmed's predicates compare code with ConfirmNone/Waiting/Failed/Passed respectively; every GateKeeper.GetFileStatus implementation returns ConfirmPassed/ConfirmWaiting only on paths with state ∈ {validated, finalized, logged}, ConfirmFailed only with state == failed")
	want := map[string]string{"NotFound": "ConfirmNone", "Waiting": "ConfirmWaiting", "Failed": "ConfirmFailed", "Received": "ConfirmPassed"}
	var names []string
	for m := range want {
		names = append(names, m)
	}
	sort.Strings(names)
	for _, m := range names {
		fn := needFn(e, r, "R02.4", "http.(*confirmed)."+m)
		if fn == nil {
			continue
		}
		val, _ := e.ConstVal("sts", want[m])
		okc := false
		var got []string
		Instrs(fn, func(in ssa.Instruction) {
			if rt, ok := in.(*ssa.Return); ok && len(rt.Results) == 1 {
				s := e.CondStr(rt.Results[0], true)
				got = append(got, s)
				if s == "(p0.code == "+val+")" {
					okc = true
				}
			}
		})
		r.Check(okc && len(got) == 1, "R02.4", "http.(*confirmed)."+m+" == code "+want[m], e.Pos(fn.Pos()),
			"predicate compares the wrong constant: "+strings.Join(got, " | "), 1, got...)
	}
	sc := e.stageConsts(r, "R02.4")
	cPassed, _ := e.ConstVal("sts", "ConfirmPassed")
	cWaiting, _ := e.ConstVal("sts", "ConfirmWaiting")
	cFailed, _ := e.ConstVal("sts", "ConfirmFailed")
	if fn := needFn(e, r, "R02.4", "stage.(*Stage).GetFileStatus"); fn != nil && sc.ok {
		cls := CF(EvCond, "(call(stage.(*Stage).getFileState)(p0, §) == «(-?\\d+)»)", func(m []string) string { return "state==" + m[1] })
		res := e.Flow(fn, FlowOpts{Classify: cls, Target: isReturn})
		nPos := 0
		for in, worlds := range res.At {
			for _, w := range worlds {
				good := w.HasAny("state=="+sc.validated, "state=="+sc.finalized, "state=="+sc.logged)
				switch {
				case w.Has("ret0=" + cPassed), w.Has("ret0=" + cWaiting):
					nPos++
					r.Check(good, "R02.4", fmt.Sprintf("stage.(*Stage).GetFileStatus: positive verdict @%s %s", e.InstrPos(in), w.String()), e.InstrPos(in),
						"a positive verdict (passed/waiting) is returned for a state that is not validated/finalized/logged: the sender would release the source file", 1, w.String())
				case w.Has("ret0=" + cFailed):
					nPos++
					r.Check(w.Has("state=="+sc.failed), "R02.4", fmt.Sprintf("stage.(*Stage).GetFileStatus: failed verdict @%s %s", e.InstrPos(in), w.String()), e.InstrPos(in),
						"ConfirmFailed returned for a state other than failed", 1, w.String())
				default:
					// ConfirmNone or non-constant
					hasConst := false
					for l := range w {
						if strings.HasPrefix(l, "ret0=") {
							hasConst = true
						}
					}
					r.Check(hasConst, "R02.4", fmt.Sprintf("stage.(*Stage).GetFileStatus: constant verdict @%s", e.InstrPos(in)), e.InstrPos(in),
						"verdict is not one of the Confirm* constants on this path", 1, w.String())
				}
			}
		}
		r.Min("R02.4", "verdict-returning path classes in GetFileStatus", nPos, 4)
	}

	// ---------------------------------------------------------------- R02.5
	r.Rule("R02.5", "finish is called only with elements of a Validator result; in the validator loop the NotFound arm calls it only when polled == PollAttempts")
	fs := e.SitesOf(pat("client.(*Broker).finish"), nil)
	for _, s := range fs {
		arg := e.Canon(s.Instr.Common().Args[1])
		construct := e.ShortName(s.Fn) + ": finish(" + shorten(arg) + ")"
		r.Check(strings.HasPrefix(arg, "dyn(p0.Conf.Validator)(") && strings.Contains(arg, ")#0["), "R02.5", construct+" provenance", e.InstrPos(s.Instr),
			"finish is given something that is not an element of a Validator (poll) answer", 1, arg)
		if e.ShortName(s.Fn) == "client.(*Broker).startValidate" {
			cls := labeler(
				C("invoke(sts.Polled.NotFound)("+arg+")", "notFound"),
				C("(§.polled == p0.Conf.PollAttempts)", "exhausted"),
				C("(p0.Conf.PollAttempts == §.polled)", "exhausted"),
				C("invoke(sts.Polled.«(Failed|Waiting|Received)»)("+arg+")", "verdict"),
			)
			e.Guarded(r, "R02.5", construct, s.Fn, only(s.Instr.(ssa.Instruction)), cls,
				func(l LabelSet) bool { return l.Has("verdict") || l.HasAll("notFound", "exhausted") },
				"a verdict (Failed/Waiting/Received), or NotFound with polled == PollAttempts")
		}
	}
	r.Min("R02.5", "finish call sites", len(fs), 3)

	// ---------------------------------------------------------------- R02.6
	r.Rule("R02.6", "Done runs its callback while holding the cache mutex (so that mark-done and delete are one transaction with respect to Persist/Add)")
	if fn := needFn(e, r, "R02.6", "cache.(*JSON).Done"); fn != nil {
		cls := labeler(
			I("call(sync.(*RWMutex).Lock)(&p0.mutex)", "held"),
			IK("call(sync.(*RWMutex).Unlock)(&p0.mutex)", "held"),
		)
		n := e.Guarded(r, "R02.6", "cache.(*JSON).Done: whileLocked(f)", fn, e.instrMatch("dyn(p2)(§)"), cls,
			func(l LabelSet) bool { return l.Has("held") }, "j.mutex held")
		r.Min("R02.6", "callback invocations in Done", n, 1)
	}

	// ---------------------------------------------------------------- R02.7
	r.Rule("R02.7", "delete only where configured: every `return true` path of canDelete carries cleanSome, a tag found for the file, tag.Delete and (DeleteDelay == 0 or age > DeleteDelay)")
	if fn := needFn(e, r, "R02.7", "client.(*Broker).canDelete"); fn != nil {
		tag := "call(client.(*Broker).getTag)(p0, p1)"
		cls := labeler(
			C("p0.cleanSome", "cleanSome"),
			C("("+tag+" != nil)", "tagFound"),
			C(tag+".Delete", "tagDelete"),
			C("("+tag+".DeleteDelay == 0)", "noDelay"),
			C("("+tag+".DeleteDelay < call(time.Since)(invoke(sts.File.GetTime)(p1)))", "aged"),
		)
		res := e.Flow(fn, FlowOpts{Classify: cls, Target: isReturn})
		n := 0
		for in, worlds := range res.At {
			for _, w := range worlds {
				if !w.Has("ret0=true") {
					continue
				}
				n++
				r.Check(w.HasAll("cleanSome", "tagFound", "tagDelete") && w.HasAny("noDelay", "aged"), "R02.7",
					fmt.Sprintf("client.(*Broker).canDelete: return true %s", w.String()), e.InstrPos(in),
					"canDelete says yes on a path lacking one of: cleanSome, tag found, tag.Delete, (no delay or aged)", 1, w.String())
			}
		}
		r.Min("R02.7", "return-true path classes of canDelete", n, 2)
	}
	// ---------------------------------------------------------------- R02.8
	r.Rule("R02.8", "the receiver never claims parts of content it does not hold: `part already received?` (the answer the sender's transmission recovery trusts) says yes only for a companion range of equal rename, hash and predecessor, or for a known, non-failed file with the SAME hash and rename - a delivered older version of the name must not vouch for a new one; the count stops at the first part not held")
	if sc2 := e.stageConsts(r, "R02.8"); sc2.ok {
		e.checkPartReceived(r, "R02.8", sc2)
		e.checkReceivedLeading(r, "R02.8")
	}
	// ---------------------------------------------------------------- R02.9
	r.Rule("R02.9", "the verdict the sender releases on belongs to the version polled: the cache refill from the receive log never replaces a live entry (the state of the version in flight) by the `logged` record of an older delivery of the same name - the look-up guarding the insert is on the same map and key as the insert - shared with R05.6")
	e.checkRefillKeepsLive(r, "R02.9")
	// ---------------------------------------------------------------- R02.10
	e.shareRule(r, "C17", "R17.4", "R02.10", "a file replaced after it was cached is not released on the old version's verdict: the recovery poll, the retrier and the payload-retry path drop a file whose Store.Sync reports a change, and Sync answers `unchanged` only when modification time (full resolution), size and metadata are all EQUAL")
	// ---------------------------------------------------------------- R02.11
	r.Rule("R02.11", "what is deleted is what was confirmed: FileSource.Remove works by path, so every call is reached only after the file on disk was compared with the cache entry that earned the confirmation (Store.Sync answers `unchanged`, or the file is gone) - a file rewritten since it was sent is a new version and is left for the next scan")
	{
		same := needFn(e, r, "R02.11", "client.(*Broker).unchangedOnDisk")
		okHelper := false
		if same != nil {
			sy := "invoke(sts.FileSource.Sync)(p0.Conf.Store, p1)"
			cls := labeler(C("("+sy+"#0 != nil)", "changed"), C("("+sy+"#0 == nil)", "same"), C("("+sy+"#1 == nil)", "noErr"))
			okHelper = true
			n := 0
			for _, rw := range e.returnWorlds(r, "R02.11", same, cls) {
				v := e.Canon(rw.In.(*ssa.Return).Results[0])
				n++
				gone := "invoke(sts.FileSource.IsNotExist)(p0.Conf.Store, " + sy + "#1)"
				switch {
				case v == "false":
				case v == "true":
					okHelper = okHelper && rw.W.HasAll("same", "noErr")
				case v == gone, v == "phi("+gone+"|true)", v == "phi(true|"+gone+")":
					// `err == nil || IsNotExist(err)`: the true leaf is the err == nil edge
					okHelper = okHelper && rw.W.Has("same")
				default:
					okHelper = false
				}
			}
			r.Check(okHelper && n > 0, "R02.11", "client.(*Broker).unchangedOnDisk: yes only when Sync reports no change and no error other than `gone`", e.Pos(same.Pos()),
				"the comparison helper says `unchanged` although Store.Sync reported a change or an error", n)
		}
		rm := e.InvokeSites("sts", "FileSource", "Remove")
		for _, s := range rm {
			cc := s.Instr.Common()
			x := e.Canon(cc.Args[0])
			brk := "p0"
			if s.Fn.Parent() != nil {
				brk = "^p0"
			}
			cls := labeler(C("call(client.(*Broker).unchangedOnDisk)("+brk+", "+x+")", "sameVersion"))
			e.Guarded(r, "R02.11", e.ShortName(s.Fn)+": FileSource.Remove("+x+") only for the version on record", s.Fn, only(s.Instr.(ssa.Instruction)), cls,
				func(l LabelSet) bool { return l.Has("sameVersion") && okHelper }, "unchangedOnDisk("+x+")")
		}
		r.Min("R02.11", "FileSource.Remove call sites", len(rm), 2)
	}
	// ---------------------------------------------------------------- R02.12
	r.Rule("R02.12", "a verdict is applied to the version it is about: the receiver answers by name, so before the sender marks a cache entry done (and runs the delete callback) on a positive verdict it compares the hash carried by the polled file - the version that was SENT - with the hash of the cache entry, which may meanwhile describe a rewritten, re-scanned version; on a mismatch nothing is marked or deleted")
	{
		n := 0
		for _, s := range e.InvokeSites("sts", "FileCache", "Done") {
			cc := s.Instr.Common()
			if len(cc.Args) < 2 || e.Canon(cc.Args[1]) == "nil" {
				continue // the `file is gone` form, guarded by R02.2
			}
			n++
			key := e.Canon(cc.Args[0])
			polled := strings.TrimSuffix(strings.TrimPrefix(key, "invoke(sts.Polled.GetName)("), ")")
			ent := "invoke(sts.FileCache.Get)(p0.Conf.Cache, " + key + ")"
			cls := labeler(
				C("(invoke(sts.Cached.GetHash)("+ent+") == invoke(sts.Polled.GetHash)("+polled+"))", "sameVersion"),
				C("(invoke(sts.Polled.GetHash)("+polled+") == invoke(sts.Cached.GetHash)("+ent+"))", "sameVersion"),
				C("("+ent+" == nil)", "noEntry"),
			)
			e.Guarded(r, "R02.12", e.ShortName(s.Fn)+": FileCache.Done("+shorten(key)+", callback) only for the version that was sent", s.Fn, only(s.Instr.(ssa.Instruction)), cls,
				func(l LabelSet) bool { return l.HasAny("sameVersion", "noEntry") }, "cache entry's hash == polled file's hash (or no entry)")
		}
		r.Min("R02.12", "FileCache.Done calls with a delete callback", n, 1)
	}
	// ---------------------------------------------------------------- R02.13
	e.shareRule(r, "C06", "R06.14", "R02.13", "the receiver answers `held validated` only for content it holds: after a restart a parked older version is not entered under the hash of the newer version whose first parts have rewritten the companion (the sender would be told the newer version had arrived and release it)")
	// ---------------------------------------------------------------- R02.14
	e.shareRule(r, "C08", "R08.3", "R02.14", "the poll comes after all bytes of THAT version: the tracker hands a file to the validator only when the bytes acknowledged for the version in hand reach its size - a count carried over from an older version of the name makes the new version polled (and, the receiver answering by name, released) while its last part is still in flight")
	// ---------------------------------------------------------------- R02.15
	e.shareRule(r, "C07", "R07.5", "R02.15", "a restart does not release what was never sent: at start-up the receiver's positive answer - which is about a name - marks a cache entry done (and deletes the file) only when the sent log has a record of that very version, i.e. every byte of it was acknowledged before the sender went down")
	// ---------------------------------------------------------------- R02.16
	e.shareRule(r, "C08", "R08.5", "R02.16", "a refused request transmits nothing: the count of parts the sender books as transmitted comes from what the receiver answered (200: all, 206: the announced count) and is zero for every other status - otherwise a refusal is booked as a complete transmission, the file is polled and, the receiver answering for the name, released")
	// ---------------------------------------------------------------- R02.17
	e.shareRule(r, "C08", "R08.12", "R02.17", "nothing is booked as transmitted on the word of a page the request was redirected to: the sender counts parts as received only for an answer to the very request that carried them (a payload booked as transmitted is polled, and the receiver answers for the name)")
}
