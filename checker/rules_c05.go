package main

import (
	"fmt"
	"go/token"
	"regexp"
	"sort"
	"strings"
	"time"

	"golang.org/x/tools/go/ssa"
)

func init() { register("C05", rulesC05) }

// retWorld is one (return instruction, path class) pair.
type retWorld struct {
	In ssa.Instruction
	W  LabelSet
}

// returnWorlds runs cls over fn and lists the path classes at every return
// (the synthetic recover block is skipped).
func (e *Engine) returnWorlds(r *Report, rule string, fn *ssa.Function, cls Classifier) []retWorld {
	res := e.Flow(fn, FlowOpts{Classify: cls, Target: isReturn})
	if res.Undecided {
		r.Bad(rule, e.ShortName(fn)+": path classes", e.Pos(fn.Pos()), "undecided: path-world cap exceeded", res.Evals)
		return nil
	}
	var out []retWorld
	for in, ws := range res.At {
		if in.Block().Comment == "recover" {
			continue
		}
		for _, w := range ws {
			out = append(out, retWorld{in, w})
		}
	}
	sort.Slice(out, func(i, j int) bool {
		a, b := out[i], out[j]
		if a.In.Block().Index != b.In.Block().Index {
			return a.In.Block().Index < b.In.Block().Index
		}
		return a.W.String() < b.W.String()
	})
	return out
}

func rulesC05(e *Engine, r *Report) {
	sc := e.stageConsts(r, "R05")
	if !sc.ok {
		return
	}
	// ---------------------------------------------------------------- R05.1
	r.Rule("R05.1", "duplicate completion is discarded: in Receive the Part→Full rename, the transition to `received` and the hand-off to the validator are reached only on paths where the cache lookup for the same path found nothing, or a failed entry, or an entry of another hash; the duplicate arm removes only the partial (and the companion only when the known file is finalized or later)")
	if fn := needFn(e, r, "R05.1", "stage.(*Stage).Receive"); fn != nil {
		path := "call(filepath.Join)([p0.rootDir, p1.Name])"
		final := "call(stage.(*Stage).partialToFinal)(p0, p1)"
		ex := "call(stage.(*Stage).fromCache)(p0, " + final + ".path)"
		cls := labeler(
			C("("+ex+" == nil)", "unknown"),
			C("("+ex+".state == "+sc.failed+")", "failedBefore"),
			C("("+ex+".hash != "+final+".hash)", "otherHash"),
			C("("+final+".hash != "+ex+".hash)", "otherHash"),
			C("("+ex+" != nil)", "known"),
			C("("+ex+".state != "+sc.failed+")", "notFailed"),
			C("("+ex+".hash == "+final+".hash)", "sameHash"),
			C("("+final+".hash == "+ex+".hash)", "sameHash"),
			C("("+sc.finalized+" <= "+ex+".state)", "delivered"),
			C("call(stage.isCompanionComplete)(§)", "complete"),
		)
		fresh := func(l LabelSet) bool { return l.Has("complete") && l.HasAny("unknown", "failedBefore", "otherHash") }
		n := 0
		n += e.Guarded(r, "R05.1", "stage.(*Stage).Receive: os.Rename[Part→Full]", fn,
			e.instrMatch(`call(os.Rename)((`+path+` + ".part"), (`+path+` + ".full"))`), cls, fresh,
			"companion complete and (not known | known as failed | known with another hash)")
		n += e.Guarded(r, "R05.1", "stage.(*Stage).Receive: toCache(final, received)", fn,
			e.instrMatch("call(stage.(*Stage).toCache)(p0, "+final+", "+sc.received+")"), cls, fresh,
			"companion complete and (not known | known as failed | known with another hash)")
		n += e.Guarded(r, "R05.1", "stage.(*Stage).Receive: hand-off to the validator", fn,
			e.instrMatch("go call(stage.(*Stage).processQueue)(p0, "+final+")"), cls, fresh,
			"companion complete and (not known | known as failed | known with another hash)")
		r.Min("R05.1", "rename / received / hand-off sites in Receive", n, 3)
		dup := func(l LabelSet) bool { return l.HasAll("complete", "known", "notFailed", "sameHash") }
		nr := e.Guarded(r, "R05.1", "stage.(*Stage).Receive: os.Remove[Part] (duplicate arm)", fn,
			e.instrMatch(`call(os.Remove)((`+path+` + ".part"))`), cls, dup, "known, not failed, same hash")
		nr += e.Guarded(r, "R05.1", "stage.(*Stage).Receive: os.Remove[Cmp] (duplicate arm)", fn,
			e.instrMatch(`call(os.Remove)((`+path+` + ".cmp"))`), cls,
			func(l LabelSet) bool { return dup(l) && l.Has("delivered") }, "known, not failed, same hash, state >= finalized")
		r.Min("R05.1", "removals in the duplicate arm", nr, 2)
		// no other removal / rename in Receive
		var others []string
		for _, in := range e.findInstrs(fn, "call(os.«(Remove|RemoveAll|Rename|Truncate|Create)»)§", false) {
			s := e.InstrStr(in)
			if strings.Contains(s, path+` + ".part")`) || s == `call(os.Remove)((`+path+` + ".cmp"))` {
				continue
			}
			others = append(others, s+" @"+e.InstrPos(in))
		}
		r.Check(len(others) == 0, "R05.1", "stage.(*Stage).Receive: no other destructive effect", e.Pos(fn.Pos()),
			"Receive removes/renames something outside the table: "+strings.Join(others, "; "), 1, "only Part→Full rename, Remove[Part], Remove[Cmp]")
	}

	// ---------------------------------------------------------------- R05.2
	r.Rule("R05.2", "typestate table: every call of the state setter has a constant state and sits in its legal function: received ← {Receive, Recover and its workers}; validated ← {process, Recover}; failed ← {process, Receive}; finalized ← {putFileAway}; logged ← nobody (cache refill only). The validator's effects (FileMD5, Full→Wait rename, state changes) are reached only under getFileState(file.path) == received read under the path lock; finalize's deliverer call only under == validated")
	legal := map[string]map[string]bool{
		sc.received:  {"stage.(*Stage).Receive": true, "stage.(*Stage).Recover$2": true, "stage.(*Stage).Recover": true}, // Recover itself: the pass that enters what is to be validated before anything is released (F57; guarded by R05.16)
		sc.validated: {"stage.(*Stage).process": true, "stage.(*Stage).Recover": true},
		sc.failed:    {"stage.(*Stage).process": true, "stage.(*Stage).Receive": true},
		sc.finalized: {"stage.(*Stage).putFileAway": true},
		sc.logged:    {},
	}
	names := map[string]string{sc.received: "received", sc.validated: "validated", sc.failed: "failed", sc.finalized: "finalized", sc.logged: "logged", sc.unknown: "unknown"}
	setters := e.SitesOf(pat("stage.(*Stage).toCache"), nil)
	for i, s := range setters {
		st := e.Canon(s.Instr.Common().Args[2])
		fnName := e.ShortName(s.Fn)
		top := e.ShortName(EnclosingTop(s.Fn))
		m, isConst := legal[st]
		ok := isConst && (m[fnName] || (strings.HasPrefix(fnName, "stage.(*Stage).Recover$") && m["stage.(*Stage).Recover$2"] && st == sc.received && top == "stage.(*Stage).Recover"))
		r.Check(ok, "R05.2", fmt.Sprintf("state setter #%d in %s: state %s", i+1, fnName, nameOr(names, st)), e.InstrPos(s.Instr),
			"the state `"+nameOr(names, st)+"` is set in a function outside the typestate table (or with a non-constant state)", 1, "toCache(…, "+nameOr(names, st)+") in "+fnName)
	}
	r.Min("R05.2", "state setter sites", len(setters), 8)
	// direct stores to finalFile.state outside toCache / composite literals
	nDirect := 0
	for _, fn := range e.FuncsIn("stage") {
		for _, v := range e.fieldStoresIn(fn, "stage.finalFile", "state") {
			nDirect++
			ok := e.ShortName(fn) == "stage.(*Stage).toCache" || (v.lit && v.val == sc.logged && strings.HasPrefix(e.ShortName(fn), "stage.(*Stage).buildCache"))
			r.Check(ok, "R05.2", e.ShortName(fn)+": direct store to finalFile.state = "+nameOr(names, v.val), v.pos,
				"a file's state is written outside the state setter (only the log refill may create `logged` entries)", 1)
		}
	}
	r.Min("R05.2", "direct state stores (toCache, buildCache literal)", nDirect, 2)
	if fn := needFn(e, r, "R05.2", "stage.(*Stage).process"); fn != nil {
		lock := "call(stage.(*Stage).getPathLock)(p0, p1.path)"
		cls := labeler(
			C("(call(stage.(*Stage).getFileState)(p0, p1.path) == "+sc.received+")", "isReceived"),
			I("call(sync.(*RWMutex).Lock)("+lock+")", "locked"),
			IK("call(sync.(*RWMutex).Unlock)("+lock+")", "locked"),
		)
		need := func(l LabelSet) bool { return l.HasAll("isReceived", "locked") }
		n := e.Guarded(r, "R05.2", "stage.(*Stage).process: FileMD5", fn, e.instrMatch("call(fileutil.FileMD5)(§)"), cls, need, "state == received under the path lock")
		n += e.Guarded(r, "R05.2", "stage.(*Stage).process: os.Rename", fn, e.instrMatch("call(os.Rename)(§)"), cls, need, "state == received under the path lock")
		n += e.Guarded(r, "R05.2", "stage.(*Stage).process: state change", fn, e.instrMatch("call(stage.(*Stage).toCache)(§)"), cls, need, "state == received under the path lock")
		n += e.Guarded(r, "R05.2", "stage.(*Stage).process: os.Remove", fn, e.instrMatch("call(os.Remove)(§)"), cls, need, "state == received under the path lock")
		n += e.Guarded(r, "R05.2", "stage.(*Stage).process: hand-off to finalize", fn, e.instrMatch("go call(stage.(*Stage).finalizeQueue)(§)"), cls, need, "state == received under the path lock")
		r.Min("R05.2", "guarded effects of the validator", n, 7)
		// the state read that guards them happens after the lock was taken
		e.Guarded(r, "R05.2", "stage.(*Stage).process: state read under the lock", fn, e.instrMatch("call(stage.(*Stage).getFileState)(p0, p1.path)"), cls,
			func(l LabelSet) bool { return l.Has("locked") }, "path lock held when the state is read")
	}
	if fn := needFn(e, r, "R05.2", "stage.(*Stage).finalize"); fn != nil {
		lock := "call(stage.(*Stage).getPathLock)(p0, p1.path)"
		cls := labeler(
			C("(call(stage.(*Stage).getFileState)(p0, p1.path) == "+sc.validated+")", "isValidated"),
			I("call(sync.(*RWMutex).Lock)("+lock+")", "locked"),
			IK("call(sync.(*RWMutex).Unlock)("+lock+")", "locked"),
		)
		n := e.Guarded(r, "R05.2", "stage.(*Stage).finalize: deliverer call", fn, e.instrMatch("call(stage.(*Stage).putFileAway)(§)"), cls,
			func(l LabelSet) bool { return l.HasAll("isValidated", "locked") }, "state == validated under the path lock")
		n += e.Guarded(r, "R05.2", "stage.(*Stage).finalize: state read under the lock", fn, e.instrMatch("call(stage.(*Stage).getFileState)(p0, p1.path)"), cls,
			func(l LabelSet) bool { return l.Has("locked") }, "path lock held when the state is read")
		r.Min("R05.2", "guarded effects of finalize", n, 2)
	}
	if fn := needFn(e, r, "R05.2", "stage.(*Stage).finalizeHandler"); fn != nil {
		var cls Classifier = CF(EvCond, "(call(stage.(*Stage).getFileState)(p0, «(.*)».path) == "+sc.validated+")", func(m []string) string { return "validated:" + m[1] })
		for _, in := range e.findInstrs(fn, "call(stage.(*Stage).«(isFileReady|finalize)»)(p0, §)", false) {
			arg := e.Canon(in.(ssa.CallInstruction).Common().Args[1])
			e.Guarded(r, "R05.2", "stage.(*Stage).finalizeHandler: "+e.CalleeKey(in.(ssa.CallInstruction).Common()), fn, only(in), cls,
				func(l LabelSet) bool { return l.Has("validated:" + arg) }, "getFileState(f.path) == validated for the same f")
		}
	}

	// ---------------------------------------------------------------- R05.3
	r.Rule("R05.3", "a stale companion is removed by initStageFile only when the file is unknown or failed; the partial is (re)created/truncated only when no partial of the announced size exists")
	if fn := needFn(e, r, "R05.3", "stage.(*Stage).initStageFile"); fn != nil {
		cls := labeler(
			C("(call(stage.(*Stage).getFileState)(p0, p1) == "+sc.unknown+")", "unknown"),
			C("(call(stage.(*Stage).getFileState)(p0, p1) == "+sc.failed+")", "failed"),
			C(`(call(os.Stat)((p1 + ".part"))#1 != nil)`, "noPartial"),
			C(`(invoke(os.FileInfo.Size)(call(os.Stat)((p1 + ".part"))#0) != p2)`, "otherSize"),
		)
		n := e.Guarded(r, "R05.3", "stage.(*Stage).initStageFile: os.Remove[Cmp]", fn, e.instrMatch(`call(os.Remove)((p1 + ".cmp"))`), cls,
			func(l LabelSet) bool { return l.HasAny("unknown", "failed") }, "state unknown or failed")
		r.Min("R05.3", "stale-companion removals", n, 1)
		n2 := e.Guarded(r, "R05.3", "stage.(*Stage).initStageFile: os.Create[Part] (truncates)", fn, e.instrMatch(`call(os.Create)((p1 + ".part"))`), cls,
			func(l LabelSet) bool { return l.HasAny("noPartial", "otherSize") }, "no partial of that size exists")
		r.Min("R05.3", "partial creations", n2, 1)
		var others []string
		for _, in := range e.findInstrs(fn, "call(os.«(Remove|RemoveAll|Rename|Truncate|Create|WriteFile|OpenFile)»)§", false) {
			s := e.InstrStr(in)
			if s == `call(os.Remove)((p1 + ".cmp"))` || s == `call(os.Create)((p1 + ".part"))` {
				continue
			}
			others = append(others, s)
		}
		r.Check(len(others) == 0, "R05.3", "stage.(*Stage).initStageFile: no other destructive effect", e.Pos(fn.Pos()),
			"initStageFile removes/creates something outside the table: "+strings.Join(others, "; "), 1)
	}

	// ---------------------------------------------------------------- R05.4
	r.Rule("R05.4", "`part already received?` answers yes only (a) for an unknown file whose on-disk companion has equal rename, hash and predecessor and whose recorded ranges contain the queried slice, or (b) for a known, not failed file with equal hash and rename; the descriptor compared is built from the queried part's own getters")
	e.checkPartReceived(r, "R05.4", sc)
	e.checkReceivedLeading(r, "R05.4")

	// ---------------------------------------------------------------- R05.5
	r.Rule("R05.5", "ReceiveLogger.Received has exactly one call site, in the deliverer, outside any loop")
	rs := e.InvokeSites("sts", "ReceiveLogger", "Received")
	var rsMod []Site
	for _, s := range rs {
		if !strings.HasPrefix(e.ShortName(s.Fn), "log.") {
			rsMod = append(rsMod, s)
		}
	}
	okOne := len(rsMod) == 1
	pos := ""
	if okOne {
		s := rsMod[0]
		pos = e.InstrPos(s.Instr)
		okOne = len(e.findInstrs(s.Fn, "call(fileutil.Move)(§)", false)) == 1 && !e.fnInfo(s.Fn).cyclic[s.Instr.Block()]
	}
	r.Check(okOne, "R05.5", "call sites of ReceiveLogger.Received", pos,
		"the receive log is written from "+strings.Join(siteKeys(e, rsMod), ", ")+" (expected: once, in the function that moves the file, not in a loop)", len(rs), siteKeys(e, rsMod)...)

	// ---------------------------------------------------------------- R05.6
	r.Rule("R05.6", "verdict and duplicate queries refill the cache from the receive log before they read it: buildCache precedes the first cache read in GetFileStatus and partReceived")
	for _, name := range []string{"stage.(*Stage).GetFileStatus", "stage.(*Stage).partReceived"} {
		if fn := needFn(e, r, "R05.6", name); fn != nil {
			cls := labeler(I("call(stage.(*Stage).buildCache)(p0, §)", "built"))
			n := e.Guarded(r, "R05.6", name+": cache read after buildCache", fn,
				e.instrMatch("call(stage.(*Stage).«(getFileState|fromCache|getFileHash)»)(p0, §)"), cls,
				func(l LabelSet) bool { return l.Has("built") }, "buildCache(<time of the file>) already passed")
			r.Min("R05.6", "cache reads in "+name, n, 1)
		}
	}
	if fn := needFn(e, r, "R05.6", "stage.(*Stage).GetFileStatus"); fn != nil {
		ok := len(e.findInstrs(fn, "call(stage.(*Stage).buildCache)(p0, p2)", false)) == 1
		r.Check(ok, "R05.6", "stage.(*Stage).GetFileStatus: cache refilled back to the polled file's send time", e.Pos(fn.Pos()),
			"GetFileStatus no longer refills the cache from the time the sender gave", 1)
	}
	e.checkRefillKeepsLive(r, "R05.6")

	// ---------------------------------------------------------------- R05.7
	r.Rule("R05.7", "the sender asks before re-sending: in the send loop every path from a failed Transmitter call back to the next Transmitter call passes handleSendError with the same payload and the count the answer carried")
	if fn := needFn(e, r, "R05.7", "client.(*Broker).startSend"); fn != nil {
		tx := e.findInstrs(fn, "dyn(p0.Conf.Transmitter)(§)", false)
		r.Min("R05.7", "Transmitter calls in the send loop", len(tx), 1)
		for _, t := range tx {
			tv := e.Canon(t.(ssa.Value))
			cls := labeler(I("call(client.(*Broker).handleSendError)(p0, §, "+tv+"#0)", "asked"))
			_, backs := innermostLoop(t)
			r.Min("R05.7", "back edges of the retry loop", len(backs), 1)
			for _, ed := range e.ifEdges(fn, "("+tv+"#1 != nil)") {
				nb := e.GuardedFrom(r, "R05.7", "client.(*Broker).startSend: retry after a failed request", fn,
					FlowOpts{Classify: cls, Target: anyOf(backs), StartEdge: ed.B, StartSucc: ed.Succ},
					func(l LabelSet) bool { return l.Has("asked") }, "handleSendError(payload, n) passed before the next attempt")
				r.Min("R05.7", "retry paths reaching the back edge", nb, 1)
			}
		}
	}
	// ---------------------------------------------------------------- R05.8
	r.Rule("R05.8", "the cache's coverage claim follows evictions: in every function of package stage that deletes entries from Stage.cache, every path that passes a delete also passes an unconditional-on-that-path store to Stage.cacheTime (otherwise the receiver keeps claiming that the cache covers the log back to the old start, never refills it, and a delivered file that aged out of memory is received and delivered again)")
	nEv := 0
	for _, fn := range e.FuncsIn("stage") {
		dels := e.findInstrs(fn, "builtin(delete)(p0.cache, §)", false)
		if len(dels) == 0 {
			continue
		}
		nEv++
		cls := labeler(I("builtin(delete)(p0.cache, §)", "evicted"), I("store(p0.cacheTime = §)", "claimUpdated"))
		e.GuardedFrom(r, "R05.8", e.ShortName(fn)+": exits after evicting cache entries", fn,
			FlowOpts{Classify: cls, Target: isReturn, Sticky: []string{"evicted", "claimUpdated"}},
			func(l LabelSet) bool { return !l.Has("evicted") || l.Has("claimUpdated") }, "store to Stage.cacheTime on every path that evicts")
	}
	r.Min("R05.8", "functions evicting from the receive cache", nEv, 1)
	// ---------------------------------------------------------------- R05.10
	r.Rule("R05.10", "the refill reads every day of the range: buildCache hands Parse the range [from, now]; Parse offers every day file of the range through each(), which visits the day of the current position BEFORE testing the range's end (so today's records - the closing day - are read also when `from` has a later time of day than now), advances by one day, and shares the path function with the writer (as R18.5)")
	e.checkDayLoop(r, "R05.10")
	if fn := needFn(e, r, "R05.10", "stage.(*Stage).buildCache"); fn != nil {
		ps := e.findInstrs(fn, "invoke(sts.ReceiveLogger.Parse)(p0.logger, §, p1, var(cacheTime))", false)
		r.Check(len(ps) == 1, "R05.10", "stage.(*Stage).buildCache: Parse(handler, from, <cache start or now>)", e.Pos(fn.Pos()), "the refill does not read the log from the time asked for up to the cache's start", 1)
		var vals []string
		for _, in := range e.findInstrs(fn, "store(var(cacheTime) = §)", false) {
			vals = append(vals, e.Canon(in.(*ssa.Store).Val))
		}
		sort.Strings(vals)
		r.Check(len(vals) == 2 && vals[0] == "call(time.Now)()" && vals[1] == "p0.cacheTime", "R05.10", "stage.(*Stage).buildCache: the range ends at the cache's start time, or now when it was never built", e.Pos(fn.Pos()),
			"the end of the refill range is "+strings.Join(vals, " | "), 1, vals...)
	}
	if fn := needFn(e, r, "R05.10", "log.(*FileIO).Parse"); fn != nil {
		ea := e.findInstrs(fn, "call(log.(*rollingFile).eachLine)(p0.logger, §, p2, p3)", false)
		r.Check(len(ea) == 1, "R05.10", "log.(*FileIO).Parse: every line of the caller's range", e.Pos(fn.Pos()), "Parse does not iterate the caller's range", 1)
		if el := needFn(e, r, "R05.10", "log.(*rollingFile).eachLine"); el != nil {
			ec := e.findInstrs(el, "call(log.(*rollingFile).each)(p0, §, p2, p3)", false)
			r.Check(len(ec) == 1, "R05.10", "log.(*rollingFile).eachLine: each(reader, start, stop)", e.Pos(el.Pos()), "the line reader is not run over the day files of the caller's range", 1)
		}
	}

	// ---------------------------------------------------------------- R05.9
	r.Rule("R05.9", "the log refill is skipped only when the cache provably covers the time asked for: buildCache returns without consulting the log only for a zero `from`, or when the cache start time is NON-ZERO and not after `from`; a never-built cache (zero start time, as after a restart) always refills")
	if fn := needFn(e, r, "R05.9", "stage.(*Stage).buildCache"); fn != nil {
		var test *ssa.Function
		for _, cf := range fn.AnonFuncs {
			if len(cf.Params) == 2 && isBool(cf.Signature.Results().At(0).Type()) {
				test = cf
			}
		}
		cover := func(l LabelSet) bool {
			return l.Has("startKnown") && l.HasAny("startBefore", "startEqual", "startNotAfter")
		}
		mk := func(recv, t string) Classifier {
			return labeler(
				C("!call(time.(Time).IsZero)("+recv+".cacheTime)", "startKnown"),
				C("call(time.(Time).Before)("+recv+".cacheTime, "+t+")", "startBefore"),
				C("call(time.(Time).Equal)("+recv+".cacheTime, "+t+")", "startEqual"),
				C("!call(time.(Time).After)("+recv+".cacheTime, "+t+")", "startNotAfter"),
				C("call(time.(Time).IsZero)("+t+")", "noTimeAsked"),
			)
		}
		if test != nil {
			n := 0
			for _, rw := range e.returnWorlds(r, "R05.9", test, mk("p0", "p1")) {
				if rw.W.Has("ret0=true") {
					n++
					r.Check(cover(rw.W), "R05.9", e.ShortName(test)+": `already covered` "+rw.W.String(), e.InstrPos(rw.In),
						"the refill from the receive log is skipped although the cache start time may be zero (never built) or after the time asked for: deliveries known only from the log are not recognised", 1, rw.W.String())
				}
			}
			r.Min("R05.9", "`already covered` path classes", n, 1)
			cl := e.findInstrs(fn, "call("+e.ShortName(test)+")(p0, p1)", false)
			r.Check(len(cl) == 1, "R05.9", "stage.(*Stage).buildCache: the coverage test is applied to (this stage, the time asked for)", e.Pos(fn.Pos()), "the coverage test is called with other operands", 1)
		}
		// returns of buildCache itself that skip Parse
		cls := both(mk("p0", "p1"), labeler(I("invoke(sts.ReceiveLogger.Parse)(p0.logger, §)", "refilled")))
		if test != nil {
			cls = both(cls, labeler(C("call("+e.ShortName(test)+")(p0, p1)", "coveredByTest")))
		}
		n := 0
		for _, rw := range e.returnWorlds(r, "R05.9", fn, cls) {
			if rw.W.Has("refilled") {
				continue
			}
			n++
			r.Check(rw.W.Has("noTimeAsked") || rw.W.Has("coveredByTest") || cover(rw.W), "R05.9", fmt.Sprintf("stage.(*Stage).buildCache: return without refill b%d %s", rw.In.Block().Index, rw.W.String()), e.InstrPos(rw.In),
				"buildCache gives up without reading the log and without the coverage test", 1, rw.W.String())
		}
		r.Min("R05.9", "returns of buildCache without a refill", n, 2)
		st := e.findInstrs(fn, "store(p0.cacheTime = p1)", false)
		r.Check(len(st) == 1, "R05.9", "stage.(*Stage).buildCache: after a refill the cache start time is the time asked for", e.Pos(fn.Pos()), "the coverage claim is not moved back to `from` after reading the log from there", 1)
		if len(st) == 1 {
			e.Guarded(r, "R05.9", "stage.(*Stage).buildCache: the claim moves only after the log was read", fn, only(st[0]), labeler(I("invoke(sts.ReceiveLogger.Parse)(p0.logger, §)", "refilled")),
				func(l LabelSet) bool { return l.Has("refilled") }, "ReceiveLogger.Parse called first")
		}
	}
	// ---------------------------------------------------------------- R05.11
	r.Rule("R05.11", "after a restart the cache reaches back as far as anything left on the stage: while walking the stage Recover compares the modification time of EVERY companion it could read with the oldest seen so far and lowers it when older - complete or not (a stray incomplete companion is exactly the file whose remaining parts may complete it) - and then refills the cache from (oldest - a day)")
	if top := needFn(e, r, "R05.11", "stage.(*Stage).Recover"); top != nil {
		var walk *ssa.Function
		for _, cf := range WithClosures(top) {
			if cf != top && len(e.findInstrs(cf, "call(stage.readLocalCompanion)(§)", false)) > 0 {
				walk = cf
			}
		}
		if walk == nil {
			r.Unresolved("R05.11", "the walk callback of Recover that reads companions")
		} else {
			rd := e.findInstrs(walk, "call(stage.readLocalCompanion)(§)", false)[0]
			rv := e.Canon(rd.(ssa.Value))
			edges := e.ifEdges(walk, "("+rv+"#1 == nil)")
			r.Min("R05.11", "`companion read` edges in the walk", len(edges), 1)
			nxt := e.findInstrs(walk, "call(strings.TrimSuffix)(p0, §)", false)
			r.Min("R05.11", "case split after the age bookkeeping", len(nxt), 1)
			mt := "invoke(os.FileInfo.ModTime)(p1)"
			cls := labeler(
				I("call(time.(Time).Before)("+mt+", ^var(oldest))", "compared"),
				C("call(time.(Time).Before)("+mt+", ^var(oldest))", "older"),
				I("store(^&var(oldest) = "+mt+")", "lowered"),
			)
			for _, ed := range edges {
				if len(nxt) == 0 {
					break
				}
				e.GuardedFrom(r, "R05.11", e.ShortName(walk)+": every companion read moves `oldest` when it is older", walk,
					FlowOpts{Classify: cls, Target: only(nxt[0]), StartEdge: ed.B, StartSucc: ed.Succ},
					func(l LabelSet) bool { return l.Has("compared") && (!l.Has("older") || l.Has("lowered")) }, "ModTime compared with oldest, and stored when older")
			}
			bc := e.findInstrs(top, "call(stage.(*Stage).buildCache)(p0, call(time.(Time).Add)(var(oldest), §))", false)
			okb := len(bc) == 1
			if okb {
				d := e.Canon(bc[0].(ssa.CallInstruction).Common().Args[1])
				okb = strings.Contains(d, "-86400000000000") || strings.Contains(d, "* -1")
			}
			r.Check(okb, "R05.11", "stage.(*Stage).Recover: cache refilled from (oldest - cacheAgeLogged)", e.Pos(top.Pos()), "the refill after recovery does not start a day before the oldest companion", 1)
		}
	}
	// ---------------------------------------------------------------- R05.12
	r.Rule("R05.12", "one version, one record: the record that finalize() logs and delivers is the one the cache holds (the version validated last) - a newer version of a parked file replaces the parked record, and a stale record is dropped - so that the receive log, which duplicate suppression falls back on after a restart, carries the hash of the bytes that were delivered")
	e.checkCurrentVersionFinalized(r, "R05.12")
	// ---------------------------------------------------------------- R05.13
	e.shareRule(r, "C18", "R18.6", "R05.13", "a delivery is on record where the refill will read it: the receive log re-opens its day file when the file has vanished from its path (log housekeeping), so records of later deliveries do not go to an unlinked inode - after a restart those deliveries would be unknown and their retransmissions delivered again")
	// ---------------------------------------------------------------- R05.14
	r.Rule("R05.14", "a late part cannot touch a file that has moved on: every write into a staged partial (io.Copy / Write / Truncate on a handle opened on <path>.part) is made while the lock of <path> is held, in the function itself or by every caller - completion, validation and delivery (a rename: same inode) run under the exclusive lock, so a write outside it continues through its handle into the validated or delivered file")
	e.checkStagedWritesUnderLock(r, "R05.14")
	// ---------------------------------------------------------------- R05.15
	r.Rule("R05.15", "a question about old parts is answered from the log of that time: partReceived refills the delivered-files cache back to the part's file time, clamped to now and to a horizon of no less than 30 days (frozen: the value on the tree; a shorter horizon makes a delivery older than it look unknown - the sender re-sends the version and Receive, which never consults the log, delivers it again)")
	if fn := needFn(e, r, "R05.15", "stage.(*Stage).partReceived"); fn != nil {
		calls := e.findInstrs(fn, "call(stage.(*Stage).buildCache)(p0, §)", false)
		r.Min("R05.15", "buildCache calls in partReceived", len(calls), 1)
		horizon := regexp.MustCompile(`^call\(time\.\(Time\)\.Add\)\(call\(time\.Now\)\(\), -(\d+)\)$`)
		for _, in := range calls {
			hasTime, ok := false, true
			var facts []string
			for _, leaf := range e.phiLeaves(in.(*ssa.Call).Call.Args[1]) {
				s := e.Canon(leaf)
				switch {
				case s == "invoke(sts.Binned.GetFileTime)(p1)":
					hasTime = true
				case s == "call(time.Now)()":
				default:
					m := horizon.FindStringSubmatch(s)
					var ns int64
					if m != nil {
						fmt.Sscan(m[1], &ns)
					}
					if m == nil || ns < int64(30*24*time.Hour) {
						ok = false
					}
					facts = append(facts, "horizon "+s)
				}
			}
			r.Check(ok && hasTime, "R05.15", "stage.(*Stage).partReceived: the cache is refilled back to the part's file time (horizon >= 30 d)", e.InstrPos(in),
				"the refill does not reach back to the part's file time or is cut off at less than 30 days: "+strings.Join(facts, "; "), 1, facts...)
		}
	}
	// ---------------------------------------------------------------- R05.16
	r.Rule("R05.16", "recovery does not take a delivered version for a new arrival: Recover enters a staged body (.full, or a complete .part it has promoted) as `received` - overwriting whatever the receive log has just put into the cache for that path - only on paths where the cache knows nothing of the path, or a state before `finalized`, or another hash; what is left of a duplicate that was being discarded when the receiver went down is thrown away, not validated, logged and moved a second time")
	if top := needFn(e, r, "R05.16", "stage.(*Stage).Recover"); top != nil {
		n := 0
		for _, fn := range WithClosures(top) {
			for _, in := range e.findInstrs(fn, "call(stage.(*Stage).toCache)(«\\^?p0», §, "+sc.received+")", false) {
				n++
				x := e.Canon(in.(*ssa.Call).Call.Args[1])
				known := "call(stage.(*Stage).fromCache)(«\\^?p0», " + x + ".path)"
				cls := labeler(
					C("("+known+" == nil)", "unknown"),
					C("("+known+".state < "+sc.finalized+")", "undelivered"),
					C("("+sc.finalized+" > "+known+".state)", "undelivered"),
					C("("+known+".hash != "+x+".hash)", "otherHash"),
					C("("+x+".hash != "+known+".hash)", "otherHash"),
				)
				e.Guarded(r, "R05.16", fmt.Sprintf("%s: toCache(received) #%d not for a version already delivered", e.ShortName(fn), n), fn, only(in), cls,
					func(l LabelSet) bool { return l.HasAny("unknown", "undelivered", "otherHash") }, "cache lookup: unknown | state < finalized | other hash")
			}
		}
		r.Min("R05.16", "toCache(received) sites in Recover", n, 1)
	}
	// ---------------------------------------------------------------- R05.17
	r.Rule("R05.17", "one record per delivery attempt chain: the deliverer writes the receive-log record only for a file whose `logged` stamp is still zero and stamps it right after - the move that follows can fail and is tried again with the same object, and only a crash, not a retry, may repeat the record")
	if fn := needFn(e, r, "R05.17", "stage.(*Stage).putFileAway"); fn != nil {
		rec := "invoke(sts.ReceiveLogger.Received)(p0.logger, p1)"
		cls := labeler(C("call(time.(Time).IsZero)(p1.logged)", "unstamped"))
		n := e.Guarded(r, "R05.17", "stage.(*Stage).putFileAway: the record is written for an unstamped file only", fn, e.instrMatch(rec), cls,
			func(l LabelSet) bool { return l.Has("unstamped") }, "file.logged.IsZero()")
		r.Min("R05.17", "receive-log writes in the deliverer", n, 1)
		// ... and the stamp follows before the move
		for _, in := range e.findInstrs(fn, rec, false) {
			cls2 := labeler(I("store(p1.logged = §)", "stamped"))
			res := e.Flow(fn, FlowOpts{Classify: cls2, StartAfter: in, Target: e.instrMatch("call(fileutil.Move)(§)")})
			e.judge(r, "R05.17", "stage.(*Stage).putFileAway: the stamp is set between the record and the move", fn, res,
				func(l LabelSet) bool { return l.Has("stamped") }, "store of file.logged")
		}
	}
}

func nameOr(m map[string]string, k string) string {
	if v, ok := m[k]; ok {
		return v
	}
	return k
}

type fieldStore struct {
	val string
	pos string
	lit bool // store into a freshly allocated composite literal
}

// fieldStoresIn lists stores to field `field` of struct type typ in fn.
func (e *Engine) fieldStoresIn(fn *ssa.Function, typ, field string) []fieldStore {
	var out []fieldStore
	Instrs(fn, func(in ssa.Instruction) {
		st, ok := in.(*ssa.Store)
		if !ok {
			return
		}
		fa, ok := st.Addr.(*ssa.FieldAddr)
		if !ok {
			return
		}
		f := fieldVar(fa.X, fa.Field)
		if f == nil || f.Name() != field {
			return
		}
		if !strings.HasSuffix(strings.TrimPrefix(e.typeShort(fa.X.Type()), "*"), typ) {
			return
		}
		_, lit := fa.X.(*ssa.Alloc)
		out = append(out, fieldStore{val: e.Canon(st.Val), pos: e.InstrPos(st), lit: lit})
	})
	return out
}

// checkReceivedLeading: GateKeeper.Received counts only the leading parts on
// record (the count is incremented only after partReceived == true and never
// after a miss).
func (e *Engine) checkReceivedLeading(r *Report, rule string) {
	if fn := needFn(e, r, rule, "stage.(*Stage).Received"); fn != nil {
		// the count stops at the first part that is not on record
		cls := labeler(C("!call(stage.(*Stage).partReceived)(p0, §)", "miss"), C("call(stage.(*Stage).partReceived)(p0, §)", "hit"))
		incs := 0
		Instrs(fn, func(in ssa.Instruction) {
			bo, ok := in.(*ssa.BinOp)
			if !ok || bo.Op != token.ADD {
				return
			}
			if k, ok := bo.Y.(*ssa.Const); !ok || constStr(k) != "1" {
				return
			}
			if !flowsToReturn(bo) {
				return // the range index, not the count
			}
			incs++
			e.GuardedFrom(r, rule, "stage.(*Stage).Received: count incremented only for leading parts on record", fn,
				FlowOpts{Classify: cls, Target: only(bo), Sticky: []string{"miss"}},
				func(l LabelSet) bool { return l.Has("hit") && !l.Has("miss") }, "partReceived(part) == true on this iteration and no earlier part was missing")
		})
		r.Min(rule, "increments of the received count", incs, 1)
	}
}

// checkPartReceived: the receiver claims to hold a part only through a
// matching companion range or a matching known, non-failed file of the SAME
// hash (shared by C05 and C02).
func (e *Engine) checkPartReceived(r *Report, rule string, sc stageConsts) {
	if fn := needFn(e, r, rule, "stage.(*Stage).partReceived"); fn != nil {
		fin := "&new(stage.finalFile)"
		ex := "call(stage.(*Stage).fromCache)(p0, " + fin + ".path)"
		cmp := "call(stage.readLocalCompanion)((call(filepath.Join)([p0.rootDir, invoke(sts.Binned.GetName)(p1)]) + \".cmp\"), " + fin + ".name)#0"
		eq := func(a, b, label string) []L {
			return []L{C("("+a+" == "+b+")", label), C("("+b+" == "+a+")", label)}
		}
		var ls []L
		ls = append(ls, C("("+ex+" == nil)", "unknown"), C("("+ex+" != nil)", "known"), C("("+ex+".state != "+sc.failed+")", "notFailed"),
			C("("+cmp+" != nil)", "cmpFound"),
			C("call(stage.companionPartExists)("+cmp+", invoke(sts.Binned.GetSlice)(p1)#0, invoke(sts.Binned.GetSlice)(p1)#1)", "rangeOnRecord"))
		ls = append(ls, eq(fin+".renamed", cmp+".Renamed", "cmpRenamed")...)
		ls = append(ls, eq(fin+".hash", cmp+".Hash", "cmpHash")...)
		ls = append(ls, eq(fin+".prev", cmp+".Prev", "cmpPrev")...)
		ls = append(ls, eq(fin+".hash", ex+".hash", "exHash")...)
		ls = append(ls, eq(fin+".renamed", ex+".renamed", "exRenamed")...)
		nT := 0
		for _, rw := range e.returnWorlds(r, rule, fn, labeler(ls...)) {
			if !rw.W.Has("ret0=true") {
				continue
			}
			nT++
			a := rw.W.HasAll("unknown", "cmpFound", "cmpRenamed", "cmpHash", "cmpPrev", "rangeOnRecord")
			b := rw.W.HasAll("known", "notFailed", "exHash", "exRenamed")
			r.Check(a || b, rule, "stage.(*Stage).partReceived: return true "+rw.W.String(), e.InstrPos(rw.In),
				"a part is reported as already received although neither a matching companion range nor a matching known file backs it (the sender would skip it)", 1, rw.W.String())
		}
		r.Min(rule, "return-true path classes", nT, 2)
		// descriptor fields come from the queried part
		for fld, want := range map[string]string{
			"path":    "call(filepath.Join)([p0.rootDir, invoke(sts.Binned.GetName)(p1)])",
			"renamed": "invoke(sts.Binned.GetRenamed)(p1)", "name": "invoke(sts.Binned.GetName)(p1)",
			"hash": "invoke(sts.Binned.GetFileHash)(p1)", "prev": "invoke(sts.Binned.GetPrev)(p1)",
		} {
			vals := e.fieldStoreVals(fn, "stage.finalFile", fld)
			r.Check(len(vals) == 1 && vals[0] == want, rule, "stage.(*Stage).partReceived: descriptor."+fld+" ← "+want, e.Pos(fn.Pos()),
				"the descriptor compared with the record is not built from the queried part: "+strings.Join(vals, " | "), 1, vals...)
		}
	}
}

// checkRefillKeepsLive: the cache refill from the receive log never replaces
// an entry that is already there (a live entry carries the verdict of the
// version in flight: failed / received / validated; a log record is about an
// older delivery of that name).  The look-up that guards the insert must be
// on the same map and the SAME key as the insert.  Shared by R05.6, R01.12
// and R02.9.
func (e *Engine) checkRefillKeepsLive(r *Report, rule string) {
	fn := needFn(e, r, rule, "stage.(*Stage).buildCache")
	if fn == nil {
		return
	}
	cl := e.closureOfCall(fn, "invoke(sts.ReceiveLogger.Parse)", 0)
	if cl == nil {
		r.Unresolved(rule, "closure passed to ReceiveLogger.Parse in buildCache")
		return
	}
	n := 0
	Instrs(cl, func(in ssa.Instruction) {
		mu, ok := in.(*ssa.MapUpdate)
		if !ok {
			return
		}
		n++
		m, k := e.Canon(mu.Map), e.Canon(mu.Key)
		ent := m + "[" + k + "]#0"
		logged, _ := e.ConstVal("stage", "stateLogged")
		cls := labeler(
			C("!"+m+"["+k+"]#1", "absent"),
			C("("+ent+".state == "+logged+")", "fromLog"),
			C("call(time.(Time).Before)("+ent+".logged, p4)", "olderRecord"),
			C("call(time.(Time).After)(p4, "+ent+".logged)", "olderRecord"),
		)
		res := e.Flow(cl, FlowOpts{Classify: cls, Target: only(mu)})
		okGuard, replaces := !res.Undecided, false
		var facts []string
		for _, ws := range res.At {
			for _, w := range ws {
				facts = append(facts, w.String())
				if w.Has("absent") {
					continue
				}
				if w.HasAll("fromLog", "olderRecord") {
					replaces = true
					continue
				}
				okGuard = false
			}
		}
		r.Check(okGuard, rule, e.ShortName(cl)+": cache insert from the log", e.InstrPos(mu),
			"a log record can replace a cache entry that is neither absent nor an older record loaded from the log itself: the live verdict of a version in flight is overwritten", 1+res.Evals, facts...)
		r.Check(replaces, rule, e.ShortName(cl)+": a later record of a name replaces the earlier one loaded from the log", e.InstrPos(mu),
			"the refill reads the log oldest first and skips every name it already holds: of two deliveries of one name the cache keeps the FIRST one's hash, so a retransmission of the version delivered last is not recognised after a restart", 1, facts...)
		r.Check(strings.HasPrefix(k, "call(filepath.Join)([^p0.rootDir, "), rule, e.ShortName(cl)+": the refill files entries under <stage root>/<name>, the key every other cache user reads", e.InstrPos(in),
			"log records are cached under a key other than the staged path: "+k, 1, k)
	})
	r.Min(rule, "cache inserts in the log refill", n, 1)
}

// checkCurrentVersionFinalized: what is logged and delivered is the version
// the cache holds.  A newer version of a parked file replaces the parked
// record (toWait), and finalize() goes on only with the very record that is
// in the cache - a stale record of an older version (parked under another
// predecessor, or re-queued by an old timer) is dropped (F24).  Shared by
// R05.12 and R18.7.
func (e *Engine) checkCurrentVersionFinalized(r *Report, rule string) {
	if fn := needFn(e, r, rule, "stage.(*Stage).toWait"); fn != nil {
		slot := "p0.wait[p1]#0[§]"
		cls := labeler(
			C("("+slot+".path == p2.path)", "samePath"), C("(p2.path == "+slot+".path)", "samePath"),
			C("("+slot+" == p2)", "sameRecord"), C("(p2 == "+slot+")", "sameRecord"),
			I("store("+slot+" = p2)", "replaced"),
		)
		n := 0
		for _, rw := range e.returnWorlds(r, rule, fn, cls) {
			if !rw.W.Has("samePath") {
				continue
			}
			n++
			r.Check(rw.W.HasAny("replaced", "sameRecord"), rule, "stage.(*Stage).toWait: a record already parked for the same path is replaced by the new one "+rw.W.String(), e.InstrPos(rw.In),
				"when a newer version of a parked file is parked, the OLD record (old hash, old predecessor) is kept: finalize later logs the old version's hash for the new version's bytes", 1, rw.W.String())
		}
		r.Min(rule, "returns of toWait on finding the path already parked", n, 1)
	}
	if fn := needFn(e, r, rule, "stage.(*Stage).finalize"); fn != nil {
		cur := "call(stage.(*Stage).fromCache)(p0, p1.path)"
		cls := labeler(C("("+cur+" == p1)", "current"), C("(p1 == "+cur+")", "current"))
		n := e.Guarded(r, rule, "stage.(*Stage).finalize: only the record that is in the cache is logged and delivered", fn, e.instrMatch("call(stage.(*Stage).putFileAway)(p0, p1)"), cls,
			func(l LabelSet) bool { return l.Has("current") }, "fromCache(file.path) == file")
		r.Min(rule, "deliveries in finalize", n, 1)
	}
}
