package main

import (
	"fmt"
	"go/constant"
	"go/token"
	"go/types"
	"sort"
	"strings"

	"golang.org/x/tools/go/ssa"
)

// Event is what a classifier sees: either a branch condition that holds on the
// edge being taken (Kind == EvCond; Str is canonical with polarity applied) or
// an instruction with an effect that is being passed (Kind == EvInstr).
type Event struct {
	Kind  int
	Str   string
	Instr ssa.Instruction
	Val   ssa.Value
	Pol   bool
	Fn    *ssa.Function
}

const (
	EvCond = iota
	EvInstr
)

// Classifier maps events to labels to add / kill in the current path world.
type Classifier func(ev *Event) (add, kill []string)

// LabelSet is the set of labels holding on one class of paths.
type LabelSet map[string]bool

func (l LabelSet) Has(s string) bool { return l[s] }
func (l LabelSet) HasAny(ss ...string) bool {
	for _, s := range ss {
		if l[s] {
			return true
		}
	}
	return false
}
func (l LabelSet) HasAll(ss ...string) bool {
	for _, s := range ss {
		if !l[s] {
			return false
		}
	}
	return true
}
func (l LabelSet) HasPrefix(p string) bool {
	for s := range l {
		if strings.HasPrefix(s, p) {
			return true
		}
	}
	return false
}
func (l LabelSet) String() string {
	var ss []string
	for s := range l {
		ss = append(ss, s)
	}
	sort.Strings(ss)
	return "{" + strings.Join(ss, ", ") + "}"
}

// world is one class of paths: the labels collected, the current symbolic
// value of every tracked phi node, and facts (truth of conditions over values
// that are computed at most once per invocation, so they cannot go stale).
type world struct {
	labels LabelSet
	phis   map[*ssa.Phi]ssa.Value
	facts  map[string]bool
}

func (w *world) key() string {
	var ss []string
	for s := range w.labels {
		ss = append(ss, s)
	}
	sort.Strings(ss)
	var ps []string
	for p, v := range w.phis {
		ps = append(ps, fmt.Sprintf("%s=%s/%p", p.Name(), v.Name(), v))
	}
	sort.Strings(ps)
	var fs []string
	for f, t := range w.facts {
		fs = append(fs, fmt.Sprintf("%s:%v", f, t))
	}
	sort.Strings(fs)
	return strings.Join(ss, ",") + "|" + strings.Join(ps, ",") + "|" + strings.Join(fs, ",")
}

func (w *world) clone() *world {
	n := &world{labels: LabelSet{}, phis: map[*ssa.Phi]ssa.Value{}, facts: map[string]bool{}}
	for k := range w.labels {
		n.labels[k] = true
	}
	for k, v := range w.phis {
		n.phis[k] = v
	}
	for k, v := range w.facts {
		n.facts[k] = v
	}
	return n
}

// FlowOpts configures one label-set dataflow run over a function.
type FlowOpts struct {
	Classify     Classifier
	Target       func(in ssa.Instruction) bool // instructions at which worlds are recorded (state just before)
	StartAfter   ssa.Instruction               // if set: start just after this instruction instead of at entry
	StartEdge    *ssa.BasicBlock               // if set together with StartSucc: start on that out-edge of an If block
	StartSucc    int
	Init         []string   // labels in the initial world
	Sticky       []string   // labels that survive loop back edges ("happened at least once" facts)
	StopAtTarget bool       // paths end at the first target they reach
	Track        []*ssa.Phi // additional phis whose per-path value is tracked
	// Probe is called for every world reaching a target; it may resolve values
	// in that world (tracked phis, spilled locals) and returns extra labels.
	Probe     func(in ssa.Instruction, resolve func(ssa.Value) ssa.Value) []string
	MaxWorlds int
}

// FlowResult holds the recorded worlds.
type FlowResult struct {
	At        map[ssa.Instruction][]LabelSet
	Evals     int  // number of (block, world) evaluations
	Undecided bool // cap exceeded
}

const defaultMaxWorlds = 40000

// Flow runs the path-sensitive label analysis.  Every acyclic and cyclic path
// is covered: worlds are merged when they carry the same labels, phi values and
// facts, and iteration continues to a fixed point.
func (e *Engine) Flow(fn *ssa.Function, o FlowOpts) *FlowResult {
	genBlocks := map[string]map[int]bool{}
	for iter := 0; iter < 20; iter++ {
		res, grew := e.flowOnce(fn, o, genBlocks)
		if !grew {
			return res
		}
	}
	return &FlowResult{At: map[ssa.Instruction][]LabelSet{}, Undecided: true}
}

type fnInfo struct {
	tracked   map[*ssa.Phi]bool
	cyclic    map[*ssa.BasicBlock]bool
	factRoots map[ssa.Value]bool
}

func (e *Engine) fnInfo(fn *ssa.Function) *fnInfo {
	if fi, ok := e.fnInfos[fn]; ok {
		return fi
	}
	fi := &fnInfo{tracked: map[*ssa.Phi]bool{}, cyclic: map[*ssa.BasicBlock]bool{}, factRoots: map[ssa.Value]bool{}}
	// cyclic blocks: b reaches b
	for _, b := range fn.Blocks {
		seen := map[*ssa.BasicBlock]bool{}
		var st []*ssa.BasicBlock
		st = append(st, b.Succs...)
		for len(st) > 0 {
			x := st[len(st)-1]
			st = st[:len(st)-1]
			if x == b {
				fi.cyclic[b] = true
				break
			}
			if seen[x] {
				continue
			}
			seen[x] = true
			st = append(st, x.Succs...)
		}
	}
	// tracked phis and roots of conditions
	rootCount := map[ssa.Value]int{}
	rootCyclic := map[ssa.Value]bool{}
	for _, b := range fn.Blocks {
		if len(b.Instrs) == 0 {
			continue
		}
		var conds []ssa.Value
		switch t := b.Instrs[len(b.Instrs)-1].(type) {
		case *ssa.If:
			conds = append(conds, t.Cond)
		case *ssa.Return:
			conds = append(conds, t.Results...)
		}
		for _, c := range conds {
			roots := map[ssa.Value]bool{}
			e.condRoots(c, fi.tracked, roots, map[ssa.Value]bool{}, 0)
			for r := range roots {
				rootCount[r]++
				if fi.cyclic[b] {
					rootCyclic[r] = true
				}
			}
		}
	}
	for r, n := range rootCount {
		if n >= 2 || rootCyclic[r] {
			fi.factRoots[r] = true
		}
	}
	e.fnInfos[fn] = fi
	return fi
}

// condRoots walks a condition through negations, comparisons, phis and
// spilled locals; marks phis as tracked and collects the leaf values.
func (e *Engine) condRoots(v ssa.Value, tracked map[*ssa.Phi]bool, roots map[ssa.Value]bool, seen map[ssa.Value]bool, depth int) {
	if seen[v] || depth > 30 {
		return
	}
	seen[v] = true
	switch x := v.(type) {
	case *ssa.Const:
		return
	case *ssa.Phi:
		tracked[x] = true
		for _, ed := range x.Edges {
			e.condRoots(ed, tracked, roots, seen, depth+1)
		}
		return
	case *ssa.UnOp:
		if x.Op == token.NOT {
			e.condRoots(x.X, tracked, roots, seen, depth+1)
			return
		}
		if x.Op == token.MUL {
			if a, ok := x.X.(*ssa.Alloc); ok {
				vals, exact := e.ReachingStores(a, x)
				if exact && len(vals) == 1 && vals[0] != nil {
					e.condRoots(vals[0], tracked, roots, seen, depth+1)
					return
				}
			}
		}
	case *ssa.BinOp:
		if _, cmp := negOp[x.Op]; cmp {
			e.condRoots(x.X, tracked, roots, seen, depth+1)
			e.condRoots(x.Y, tracked, roots, seen, depth+1)
			return
		}
	case *ssa.ChangeType:
		e.condRoots(x.X, tracked, roots, seen, depth+1)
		return
	case *ssa.MakeInterface:
		e.condRoots(x.X, tracked, roots, seen, depth+1)
		return
	}
	roots[v] = true
}

func isBool(t types.Type) bool {
	b, ok := t.Underlying().(*types.Basic)
	return ok && b.Info()&types.IsBoolean != 0
}

func (e *Engine) flowOnce(fn *ssa.Function, o FlowOpts, genBlocks map[string]map[int]bool) (*FlowResult, bool) {
	res := &FlowResult{At: map[ssa.Instruction][]LabelSet{}}
	maxW := o.MaxWorlds
	if maxW == 0 {
		maxW = defaultMaxWorlds
	}
	grew := false
	noteGen := func(label string, b *ssa.BasicBlock) {
		m := genBlocks[label]
		if m == nil {
			m = map[int]bool{}
			genBlocks[label] = m
		}
		if !m[b.Index] {
			m[b.Index] = true
			grew = true
		}
	}
	fi := e.fnInfo(fn)
	for _, p := range o.Track {
		fi.tracked[p] = true
	}
	type item struct {
		b     *ssa.BasicBlock
		start int
		w     *world
	}
	seen := map[string]bool{}
	recorded := map[ssa.Instruction]map[string]bool{}
	var work []item
	push := func(b *ssa.BasicBlock, start int, w *world) {
		k := fmt.Sprintf("%d:%d:%s", b.Index, start, w.key())
		if seen[k] {
			return
		}
		seen[k] = true
		work = append(work, item{b, start, w})
	}
	apply := func(w *world, ev *Event, b *ssa.BasicBlock) {
		if o.Classify == nil {
			return
		}
		add, kill := o.Classify(ev)
		for _, k := range kill {
			if strings.HasSuffix(k, "*") {
				p := strings.TrimSuffix(k, "*")
				for l := range w.labels {
					if strings.HasPrefix(l, p) {
						delete(w.labels, l)
					}
				}
			} else {
				delete(w.labels, k)
			}
		}
		for _, a := range add {
			w.labels[a] = true
			noteGen(a, b)
		}
	}
	enter := func(from, to *ssa.BasicBlock, w *world) {
		// parallel evaluation of the tracked phis of `to`
		type upd struct {
			p *ssa.Phi
			v ssa.Value
		}
		var ups []upd
		for _, in := range to.Instrs {
			p, ok := in.(*ssa.Phi)
			if !ok {
				break
			}
			if fi.tracked[p] {
				for i, pr := range to.Preds {
					if pr == from && i < len(p.Edges) {
						ups = append(ups, upd{p, e.resolveVal(p.Edges[i], w)})
						break
					}
				}
			}
		}
		for _, u := range ups {
			w.phis[u.p] = u.v
		}
		// back edge: drop labels generated inside the loop headed by `to`
		if from != nil && to.Dominates(from) {
			for l := range w.labels {
				if isSticky(o.Sticky, l) {
					continue
				}
				for bi := range genBlocks[l] {
					if to.Dominates(fn.Blocks[bi]) {
						delete(w.labels, l)
						break
					}
				}
			}
		}
		push(to, 0, w)
	}

	init := &world{labels: LabelSet{}, phis: map[*ssa.Phi]ssa.Value{}, facts: map[string]bool{}}
	for _, l := range o.Init {
		init.labels[l] = true
	}
	switch {
	case o.StartAfter != nil:
		b := o.StartAfter.Block()
		push(b, indexIn(b, o.StartAfter)+1, init)
	case o.StartEdge != nil:
		enter(o.StartEdge, o.StartEdge.Succs[o.StartSucc], init)
	default:
		if len(fn.Blocks) == 0 {
			return res, false
		}
		push(fn.Blocks[0], 0, init)
	}

	for len(work) > 0 {
		it := work[len(work)-1]
		work = work[:len(work)-1]
		res.Evals++
		if len(seen) > maxW {
			res.Undecided = true
			return res, false
		}
		ws := []*world{it.w.clone()}
		b := it.b
		for idx := it.start; idx < len(b.Instrs); idx++ {
			in := b.Instrs[idx]
			// Return: resolve result values into labels (may split worlds)
			if ret, ok := in.(*ssa.Return); ok {
				var nws []*world
				for _, w := range ws {
					nws = append(nws, e.splitReturn(fn, fi, ret, w, apply, b)...)
				}
				ws = nws
			}
			if o.Target != nil && o.Target(in) {
				for _, w := range ws {
					if recorded[in] == nil {
						recorded[in] = map[string]bool{}
					}
					ls := LabelSet{}
					for l := range w.labels {
						ls[l] = true
					}
					if o.Probe != nil {
						cw := w
						for _, l := range o.Probe(in, func(v ssa.Value) ssa.Value { return e.resolveVal(v, cw) }) {
							ls[l] = true
						}
					}
					lk := ls.String()
					if !recorded[in][lk] {
						recorded[in][lk] = true
						res.At[in] = append(res.At[in], ls)
					}
				}
			}
			if o.StopAtTarget && o.Target != nil && o.Target(in) {
				ws = nil
				break
			}
			switch t := in.(type) {
			case *ssa.If:
				for _, w := range ws {
					for si, pol := range []bool{true, false} {
						nw := w.clone()
						if e.applyCond(fn, fi, t, t.Cond, pol, nw, apply, b) {
							enter(b, b.Succs[si], nw)
						}
					}
				}
				ws = nil
			case *ssa.Jump:
				for _, w := range ws {
					enter(b, b.Succs[0], w.clone())
				}
				ws = nil
			case *ssa.Return, *ssa.Panic:
				ws = nil
			case *ssa.Phi, *ssa.DebugRef:
			default:
				if hasEffect(in) {
					ev := &Event{Kind: EvInstr, Instr: in, Fn: fn}
					ev.Str = e.InstrStr(in)
					for _, w := range ws {
						apply(w, ev, b)
					}
				}
			}
		}
	}
	return res, grew
}

func hasEffect(in ssa.Instruction) bool {
	switch in.(type) {
	case *ssa.Call, *ssa.Go, *ssa.Defer, *ssa.Store, *ssa.Send, *ssa.MapUpdate, *ssa.RunDefers, *ssa.Select:
		return true
	}
	return false
}

// resolveVal follows tracked phis (current symbolic value in this world),
// spilled locals with a unique reaching store, and type-only conversions.
func (e *Engine) resolveVal(v ssa.Value, w *world) ssa.Value {
	for d := 0; d < 12; d++ {
		switch x := v.(type) {
		case *ssa.Phi:
			if w != nil {
				if nv, ok := w.phis[x]; ok && nv != v {
					return nv // stored values are already resolved
				}
			}
			return v
		case *ssa.UnOp:
			if x.Op == token.MUL {
				if a, ok := x.X.(*ssa.Alloc); ok {
					vals, exact := e.ReachingStores(a, x)
					if exact && len(vals) == 1 && vals[0] != nil {
						v = vals[0]
						continue
					}
				}
			}
			return v
		case *ssa.ChangeType:
			v = x.X
			continue
		}
		return v
	}
	return v
}

// once reports whether v is computed at most once per invocation of fn
// (constants, parameters, captured variables, instructions outside cycles).
func (fi *fnInfo) once(v ssa.Value) bool {
	switch x := v.(type) {
	case *ssa.Const, *ssa.Parameter, *ssa.FreeVar, *ssa.Global, *ssa.Function:
		return true
	case ssa.Instruction:
		if x.Block() == nil {
			return true
		}
		return !fi.cyclic[x.Block()]
	}
	return false
}

// applyCond adds the labels implied by cond having truth value pol; returns
// false when the edge is infeasible in this world.
func (e *Engine) applyCond(fn *ssa.Function, fi *fnInfo, at ssa.Instruction, v ssa.Value, pol bool, w *world,
	apply func(*world, *Event, *ssa.BasicBlock), b *ssa.BasicBlock) bool {
	str, rv, rpol, feasible, known, stable, rooted := e.evalCond(fi, v, pol, w, 0)
	if known {
		return feasible
	}
	// facts: a condition over once-values that was decided earlier on this path
	key, kpol := str, true
	if strings.HasPrefix(str, "!") {
		key, kpol = str[1:], false
	}
	if stable {
		// normalise comparisons to their positive operator for the key
		if t, ok := w.facts[key]; ok {
			if t != kpol {
				return false
			}
		} else if neg, ok2 := negateCmpStr(key); ok2 {
			if t, ok := w.facts[neg]; ok && t == kpol {
				return false
			}
		}
		if rooted {
			w.facts[key] = kpol
		}
	}
	ev := &Event{Kind: EvCond, Instr: at, Val: rv, Pol: rpol, Fn: fn, Str: str}
	apply(w, ev, b)
	return true
}

// negateCmpStr turns "(a == b)" into "(a != b)" etc. (top-level operator only
// when unambiguous); used to relate facts recorded under either polarity.
func negateCmpStr(s string) (string, bool) {
	for _, p := range [][2]string{{" == ", " != "}, {" != ", " == "}} {
		if strings.Count(s, p[0]) == 1 && !strings.Contains(s, p[1]) {
			return strings.Replace(s, p[0], p[1], 1), true
		}
	}
	return "", false
}

// evalCond resolves a condition in a world.  It returns the canonical string
// (polarity applied), the resolved value and polarity, and whether the truth
// value is already known (constant) in this world.
func (e *Engine) evalCond(fi *fnInfo, v ssa.Value, pol bool, w *world, depth int) (str string, rv ssa.Value, rpol bool, feasible, known, stable, rooted bool) {
	v = e.resolveVal(v, w)
	if depth > 12 {
		return e.CondStr(v, pol), v, pol, true, false, false, false
	}
	switch x := v.(type) {
	case *ssa.Const:
		if x.Value != nil && x.Value.Kind() == constant.Bool {
			return "", v, pol, constant.BoolVal(x.Value) == pol, true, true, false
		}
	case *ssa.UnOp:
		if x.Op == token.NOT {
			return e.evalCond(fi, x.X, !pol, w, depth+1)
		}
	case *ssa.BinOp:
		if _, cmp := negOp[x.Op]; cmp {
			lx, ly := e.resolveVal(x.X, w), e.resolveVal(x.Y, w)
			// bool compared with a bool constant
			if (x.Op == token.EQL || x.Op == token.NEQ) && isBool(lx.Type()) {
				if k, ok := ly.(*ssa.Const); ok && k.Value != nil && k.Value.Kind() == constant.Bool {
					p := pol
					if constant.BoolVal(k.Value) != (x.Op == token.EQL) {
						p = !p
					}
					return e.evalCond(fi, lx, p, w, depth+1)
				}
			}
			kx, okx := lx.(*ssa.Const)
			ky, oky := ly.(*ssa.Const)
			if okx && oky {
				if t, ok := compareConsts(kx, ky, x.Op); ok {
					return "", v, pol, t == pol, true, true, false
				}
			}
			// refinement: on an edge where `V == nil` holds, every tracked phi
			// whose current value is V is known to be nil from here on
			if w != nil && (x.Op == token.EQL || x.Op == token.NEQ) && pol == (x.Op == token.EQL) {
				var nilC *ssa.Const
				var other ssa.Value
				if oky && ky.Value == nil && !okx {
					nilC, other = ky, lx
				} else if okx && kx.Value == nil && !oky {
					nilC, other = kx, ly
				}
				if nilC != nil && isNilable(other.Type()) {
					for p, cur := range w.phis {
						if cur == other {
							w.phis[p] = nilC
						}
					}
					if p, ok := other.(*ssa.Phi); ok && fi.tracked[p] {
						w.phis[p] = nilC
					}
				}
			}
			s := e.cmpStr(x.Op, lx, ly, pol)
			return s, v, pol, true, false, fi.once(lx) && fi.once(ly), fi.factRoots[lx] || fi.factRoots[ly] || fi.factRoots[x.X] || fi.factRoots[x.Y]
		}
	}
	s := e.Canon(v)
	if !pol {
		s = "!" + s
	}
	return s, v, pol, true, false, fi.once(v), fi.factRoots[v]
}

func compareConsts(a, b *ssa.Const, op token.Token) (bool, bool) {
	if a.Value == nil || b.Value == nil {
		// nil / zero constants
		if a.Value == nil && b.Value == nil {
			an, bn := constStr(a), constStr(b)
			switch op {
			case token.EQL:
				return an == bn, true
			case token.NEQ:
				return an != bn, true
			}
		}
		return false, false
	}
	if a.Value.Kind() != b.Value.Kind() && !(isNumKind(a.Value.Kind()) && isNumKind(b.Value.Kind())) {
		return false, false
	}
	return constant.Compare(a.Value, op, b.Value), true
}

func isNumKind(k constant.Kind) bool { return k == constant.Int || k == constant.Float }

var negOp = map[token.Token]token.Token{
	token.EQL: token.NEQ, token.NEQ: token.EQL,
	token.LSS: token.GEQ, token.GEQ: token.LSS,
	token.GTR: token.LEQ, token.LEQ: token.GTR,
}

// CondStr renders a condition with polarity applied.  Comparisons are
// normalised: negation folded into the operator, > and >= rewritten as < and
// <= with swapped operands, constants on the right for ==/!=.
func (e *Engine) CondStr(v ssa.Value, pol bool) string {
	if bo, ok := v.(*ssa.BinOp); ok {
		if _, cmp := negOp[bo.Op]; cmp {
			return e.cmpStr(bo.Op, bo.X, bo.Y, pol)
		}
	}
	if u, ok := v.(*ssa.UnOp); ok && u.Op == token.NOT {
		return e.CondStr(u.X, !pol)
	}
	s := e.Canon(v)
	if !pol {
		return "!" + s
	}
	return s
}

func (e *Engine) cmpStr(op token.Token, X, Y ssa.Value, pol bool) string {
	if !pol {
		op = negOp[op]
	}
	x, y := e.Canon(X), e.Canon(Y)
	switch op {
	case token.GTR:
		x, y, op = y, x, token.LSS
	case token.GEQ:
		x, y, op = y, x, token.LEQ
	case token.EQL, token.NEQ:
		_, xc := X.(*ssa.Const)
		_, yc := Y.(*ssa.Const)
		if xc && !yc {
			x, y = y, x
		} else if !xc && !yc && y < x {
			x, y = y, x
		}
	}
	return "(" + x + " " + op.String() + " " + y + ")"
}

// splitReturn turns result values into labels ret<i>=<value>.  Boolean results
// that are not constant in this world are treated as conditions: the world is
// split into a ret=true world (with the condition's labels) and a ret=false one.
func (e *Engine) splitReturn(fn *ssa.Function, fi *fnInfo, ret *ssa.Return, w *world,
	apply func(*world, *Event, *ssa.BasicBlock), b *ssa.BasicBlock) []*world {
	ws := []*world{w}
	for i, r := range ret.Results {
		var next []*world
		for _, cw := range ws {
			if isBool(r.Type()) {
				for _, want := range []bool{true, false} {
					nw := cw.clone()
					if e.applyCond(fn, fi, ret, r, want, nw, apply, b) {
						nw.labels[fmt.Sprintf("ret%d=%v", i, want)] = true
						next = append(next, nw)
					}
				}
				continue
			}
			rv := e.resolveVal(r, cw)
			if k, ok := rv.(*ssa.Const); ok {
				cw.labels[fmt.Sprintf("ret%d=%s", i, constStr(k))] = true
			}
			next = append(next, cw)
		}
		ws = next
	}
	return ws
}

// AllWorlds gathers the recorded worlds of all targets.
func (r *FlowResult) AllWorlds() []LabelSet {
	var out []LabelSet
	for _, ws := range r.At {
		out = append(out, ws...)
	}
	return out
}

func isSticky(sticky []string, l string) bool {
	for _, s := range sticky {
		if s == l {
			return true
		}
	}
	return false
}

func isNilable(t types.Type) bool {
	switch t.Underlying().(type) {
	case *types.Pointer, *types.Interface, *types.Map, *types.Chan, *types.Slice, *types.Signature:
		return true
	}
	return false
}
