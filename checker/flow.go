package main

import (
	"fmt"
	"go/constant"
	"go/token"
	"go/types"
	"sort"
	"strings"

	"golang.org/x/tools/go/ssa"
)

// Event is what a classifier sees: either a branch condition that holds on the
// edge being taken (Kind == EvCond; Str is canonical with polarity applied) or
// an instruction with an effect that is being passed (Kind == EvInstr).
type Event struct {
	Kind  int
	Str   string
	Instr ssa.Instruction
	Val   ssa.Value
	Pol   bool
	Fn    *ssa.Function
}

const (
	EvCond = iota
	EvInstr
)

// Classifier maps events to labels to add / kill in the current path world.
type Classifier func(ev *Event) (add, kill []string)

// LabelSet is the set of labels holding on one class of paths.
type LabelSet map[string]bool

func (l LabelSet) Has(s string) bool { return l[s] }
func (l LabelSet) HasAny(ss ...string) bool {
	for _, s := range ss {
		if l[s] {
			return true
		}
	}
	return false
}
func (l LabelSet) HasAll(ss ...string) bool {
	for _, s := range ss {
		if !l[s] {
			return false
		}
	}
	return true
}
func (l LabelSet) HasPrefix(p string) bool {
	for s := range l {
		if strings.HasPrefix(s, p) {
			return true
		}
	}
	return false
}
func (l LabelSet) String() string {
	var ss []string
	for s := range l {
		ss = append(ss, s)
	}
	sort.Strings(ss)
	return "{" + strings.Join(ss, ", ") + "}"
}

type world struct {
	labels LabelSet
	phis   map[*ssa.Phi]int
}

func (w *world) key() string {
	var ss []string
	for s := range w.labels {
		ss = append(ss, s)
	}
	sort.Strings(ss)
	var ps []string
	for p, i := range w.phis {
		ps = append(ps, fmt.Sprintf("%s=%d", p.Name(), i))
	}
	sort.Strings(ps)
	return strings.Join(ss, ",") + "|" + strings.Join(ps, ",")
}

func (w *world) clone() *world {
	n := &world{labels: LabelSet{}, phis: map[*ssa.Phi]int{}}
	for k := range w.labels {
		n.labels[k] = true
	}
	for k, v := range w.phis {
		n.phis[k] = v
	}
	return n
}

// FlowOpts configures one label-set dataflow run over a function.
type FlowOpts struct {
	Classify   Classifier
	Target     func(in ssa.Instruction) bool // instructions at which worlds are recorded (state just before)
	StartAfter ssa.Instruction               // if set: start just after this instruction instead of at entry
	StartEdge  *ssa.BasicBlock               // if set together with StartSucc: start on that out-edge of an If block
	StartSucc  int
	Init       []string // labels in the initial world
	MaxWorlds  int
}

// FlowResult holds the recorded worlds.
type FlowResult struct {
	At        map[ssa.Instruction][]LabelSet
	Evals     int  // number of (block, world) evaluations
	Undecided bool // cap exceeded
}

const defaultMaxWorlds = 20000

// Flow runs the path-sensitive label analysis.  Every acyclic and cyclic path
// is covered: worlds are merged when they carry the same labels and the same
// choices for tracked phi nodes, and iteration continues to a fixed point.
func (e *Engine) Flow(fn *ssa.Function, o FlowOpts) *FlowResult {
	genBlocks := map[string]map[int]bool{}
	for iter := 0; iter < 20; iter++ {
		res, grew := e.flowOnce(fn, o, genBlocks)
		if !grew {
			return res
		}
	}
	return &FlowResult{At: map[ssa.Instruction][]LabelSet{}, Undecided: true}
}

func (e *Engine) trackedPhis(fn *ssa.Function) map[*ssa.Phi]bool {
	tr := map[*ssa.Phi]bool{}
	var visit func(v ssa.Value)
	visit = func(v ssa.Value) {
		switch x := v.(type) {
		case *ssa.Phi:
			if tr[x] {
				return
			}
			tr[x] = true
			for _, ed := range x.Edges {
				visit(ed)
			}
		case *ssa.UnOp:
			if x.Op == token.NOT {
				visit(x.X)
			}
		case *ssa.BinOp:
			if x.Op == token.EQL || x.Op == token.NEQ {
				if _, ok := x.Y.(*ssa.Const); ok {
					if isBool(x.X.Type()) {
						visit(x.X)
					}
				}
			}
		}
	}
	for _, b := range fn.Blocks {
		if len(b.Instrs) == 0 {
			continue
		}
		switch t := b.Instrs[len(b.Instrs)-1].(type) {
		case *ssa.If:
			visit(t.Cond)
		case *ssa.Return:
			for _, r := range t.Results {
				visit(r)
			}
		}
	}
	return tr
}

func isBool(t types.Type) bool {
	b, ok := t.Underlying().(*types.Basic)
	return ok && b.Info()&types.IsBoolean != 0
}

func (e *Engine) flowOnce(fn *ssa.Function, o FlowOpts, genBlocks map[string]map[int]bool) (*FlowResult, bool) {
	res := &FlowResult{At: map[ssa.Instruction][]LabelSet{}}
	maxW := o.MaxWorlds
	if maxW == 0 {
		maxW = defaultMaxWorlds
	}
	grew := false
	noteGen := func(label string, b *ssa.BasicBlock) {
		m := genBlocks[label]
		if m == nil {
			m = map[int]bool{}
			genBlocks[label] = m
		}
		if !m[b.Index] {
			m[b.Index] = true
			grew = true
		}
	}
	tracked := e.trackedPhis(fn)
	type item struct {
		b     *ssa.BasicBlock
		start int
		w     *world
	}
	seen := map[string]bool{}
	recorded := map[ssa.Instruction]map[string]bool{}
	var work []item
	push := func(b *ssa.BasicBlock, start int, w *world) {
		k := fmt.Sprintf("%d:%d:%s", b.Index, start, w.key())
		if seen[k] {
			return
		}
		seen[k] = true
		work = append(work, item{b, start, w})
	}
	apply := func(w *world, ev *Event, b *ssa.BasicBlock) {
		if o.Classify == nil {
			return
		}
		add, kill := o.Classify(ev)
		for _, k := range kill {
			if strings.HasSuffix(k, "*") {
				p := strings.TrimSuffix(k, "*")
				for l := range w.labels {
					if strings.HasPrefix(l, p) {
						delete(w.labels, l)
					}
				}
			} else {
				delete(w.labels, k)
			}
		}
		for _, a := range add {
			w.labels[a] = true
			noteGen(a, b)
		}
	}
	enter := func(from, to *ssa.BasicBlock, w *world) {
		// phi choices
		for _, in := range to.Instrs {
			p, ok := in.(*ssa.Phi)
			if !ok {
				break
			}
			if tracked[p] {
				for i, pr := range to.Preds {
					if pr == from {
						w.phis[p] = i
						break
					}
				}
			}
		}
		// back edge: drop labels generated inside the loop headed by `to`
		if from != nil && to.Dominates(from) {
			for l := range w.labels {
				for bi := range genBlocks[l] {
					if to.Dominates(fn.Blocks[bi]) {
						delete(w.labels, l)
						break
					}
				}
			}
			for p := range w.phis {
				if p.Block() != to && to.Dominates(p.Block()) {
					delete(w.phis, p)
				}
			}
		}
		push(to, 0, w)
	}

	init := &world{labels: LabelSet{}, phis: map[*ssa.Phi]int{}}
	for _, l := range o.Init {
		init.labels[l] = true
	}
	switch {
	case o.StartAfter != nil:
		b := o.StartAfter.Block()
		push(b, indexIn(b, o.StartAfter)+1, init)
	case o.StartEdge != nil:
		enter(o.StartEdge, o.StartEdge.Succs[o.StartSucc], init)
	default:
		if len(fn.Blocks) == 0 {
			return res, false
		}
		push(fn.Blocks[0], 0, init)
	}

	for len(work) > 0 {
		it := work[len(work)-1]
		work = work[:len(work)-1]
		res.Evals++
		if len(seen) > maxW {
			res.Undecided = true
			return res, false
		}
		ws := []*world{it.w.clone()}
		b := it.b
		for idx := it.start; idx < len(b.Instrs); idx++ {
			in := b.Instrs[idx]
			// Return: resolve result values into labels (may split worlds)
			if ret, ok := in.(*ssa.Return); ok {
				var nws []*world
				for _, w := range ws {
					nws = append(nws, e.splitReturn(fn, ret, w, apply, b)...)
				}
				ws = nws
			}
			if o.Target != nil && o.Target(in) {
				for _, w := range ws {
					k := w.key()
					if recorded[in] == nil {
						recorded[in] = map[string]bool{}
					}
					ls := LabelSet{}
					for l := range w.labels {
						ls[l] = true
					}
					lk := ls.String()
					_ = k
					if !recorded[in][lk] {
						recorded[in][lk] = true
						res.At[in] = append(res.At[in], ls)
					}
				}
			}
			switch t := in.(type) {
			case *ssa.If:
				for _, w := range ws {
					for si, pol := range []bool{true, false} {
						nw := w.clone()
						if e.applyCond(fn, t, t.Cond, pol, nw, apply, b) {
							enter(b, b.Succs[si], nw)
						}
					}
				}
				ws = nil
			case *ssa.Jump:
				for _, w := range ws {
					enter(b, b.Succs[0], w.clone())
				}
				ws = nil
			case *ssa.Return, *ssa.Panic:
				ws = nil
			case *ssa.Phi, *ssa.DebugRef:
			default:
				if hasEffect(in) {
					ev := &Event{Kind: EvInstr, Instr: in, Fn: fn}
					ev.Str = e.InstrStr(in)
					for _, w := range ws {
						apply(w, ev, b)
					}
				}
			}
		}
	}
	return res, grew
}

func hasEffect(in ssa.Instruction) bool {
	switch in.(type) {
	case *ssa.Call, *ssa.Go, *ssa.Defer, *ssa.Store, *ssa.Send, *ssa.MapUpdate, *ssa.RunDefers, *ssa.Select:
		return true
	}
	return false
}

// applyCond adds the labels implied by cond having truth value pol; returns
// false when the edge is infeasible in this world.
func (e *Engine) applyCond(fn *ssa.Function, at ssa.Instruction, v ssa.Value, pol bool, w *world,
	apply func(*world, *Event, *ssa.BasicBlock), b *ssa.BasicBlock) bool {
	v, pol, feasible, known := e.resolveCond(v, pol, w, 0)
	if known {
		return feasible
	}
	ev := &Event{Kind: EvCond, Instr: at, Val: v, Pol: pol, Fn: fn}
	ev.Str = e.CondStr(v, pol)
	apply(w, ev, b)
	return true
}

// resolveCond strips negations / bool-const comparisons / tracked phis / spilled
// locals.  known==true means the truth value is a constant in this world.
func (e *Engine) resolveCond(v ssa.Value, pol bool, w *world, depth int) (ssa.Value, bool, bool, bool) {
	if depth > 12 {
		return v, pol, true, false
	}
	switch x := v.(type) {
	case *ssa.Const:
		if x.Value != nil && x.Value.Kind() == constant.Bool {
			return v, pol, constant.BoolVal(x.Value) == pol, true
		}
	case *ssa.UnOp:
		if x.Op == token.NOT {
			return e.resolveCond(x.X, !pol, w, depth+1)
		}
		if x.Op == token.MUL {
			if a, ok := x.X.(*ssa.Alloc); ok {
				vals, exact := e.ReachingStores(a, x)
				if exact && len(vals) == 1 && vals[0] != nil {
					return e.resolveCond(vals[0], pol, w, depth+1)
				}
			}
		}
	case *ssa.BinOp:
		if (x.Op == token.EQL || x.Op == token.NEQ) && isBool(x.X.Type()) {
			if k, ok := x.Y.(*ssa.Const); ok && k.Value != nil && k.Value.Kind() == constant.Bool {
				p := pol
				if constant.BoolVal(k.Value) != (x.Op == token.EQL) {
					p = !p
				}
				return e.resolveCond(x.X, p, w, depth+1)
			}
		}
	case *ssa.Phi:
		if w != nil {
			if i, ok := w.phis[x]; ok && i < len(x.Edges) {
				return e.resolveCond(x.Edges[i], pol, w, depth+1)
			}
		}
	}
	return v, pol, true, false
}

var negOp = map[token.Token]token.Token{
	token.EQL: token.NEQ, token.NEQ: token.EQL,
	token.LSS: token.GEQ, token.GEQ: token.LSS,
	token.GTR: token.LEQ, token.LEQ: token.GTR,
}

// CondStr renders a condition with polarity applied.  Comparisons are
// normalised: negation folded into the operator, > and >= rewritten as < and
// <= with swapped operands, constants on the right for ==/!=.
func (e *Engine) CondStr(v ssa.Value, pol bool) string {
	if bo, ok := v.(*ssa.BinOp); ok {
		if _, cmp := negOp[bo.Op]; cmp {
			op := bo.Op
			if !pol {
				op = negOp[op]
			}
			x, y := e.Canon(bo.X), e.Canon(bo.Y)
			switch op {
			case token.GTR:
				x, y, op = y, x, token.LSS
			case token.GEQ:
				x, y, op = y, x, token.LEQ
			case token.EQL, token.NEQ:
				_, xc := bo.X.(*ssa.Const)
				_, yc := bo.Y.(*ssa.Const)
				if xc && !yc {
					x, y = y, x
				} else if !xc && !yc && y < x {
					x, y = y, x
				}
			}
			return "(" + x + " " + op.String() + " " + y + ")"
		}
	}
	s := e.Canon(v)
	if !pol {
		return "!" + s
	}
	return s
}

// splitReturn turns result values into labels ret<i>=<value>.  Boolean results
// that are not constant in this world are treated as conditions: the world is
// split into a ret=true world (with the condition's labels) and a ret=false one.
func (e *Engine) splitReturn(fn *ssa.Function, ret *ssa.Return, w *world,
	apply func(*world, *Event, *ssa.BasicBlock), b *ssa.BasicBlock) []*world {
	ws := []*world{w}
	for i, r := range ret.Results {
		var next []*world
		for _, cw := range ws {
			if isBool(r.Type()) {
				v, pol, feasible, known := e.resolveCond(r, true, cw, 0)
				if known {
					val := feasible // cond==true feasible => value true
					cw.labels[fmt.Sprintf("ret%d=%v", i, val)] = true
					next = append(next, cw)
					continue
				}
				for _, want := range []bool{true, false} {
					nw := cw.clone()
					p := pol
					if !want {
						p = !p
					}
					ev := &Event{Kind: EvCond, Instr: ret, Val: v, Pol: p, Fn: fn}
					ev.Str = e.CondStr(v, p)
					apply(nw, ev, b)
					nw.labels[fmt.Sprintf("ret%d=%v", i, want)] = true
					next = append(next, nw)
				}
				continue
			}
			rv := r
			for d := 0; d < 8; d++ {
				if p, ok := rv.(*ssa.Phi); ok {
					if j, ok := cw.phis[p]; ok && j < len(p.Edges) {
						rv = p.Edges[j]
						continue
					}
				}
				break
			}
			if k, ok := rv.(*ssa.Const); ok {
				cw.labels[fmt.Sprintf("ret%d=%s", i, constStr(k))] = true
			}
			next = append(next, cw)
		}
		ws = next
	}
	return ws
}

// AllWorlds gathers the recorded worlds of all targets.
func (r *FlowResult) AllWorlds() []LabelSet {
	var out []LabelSet
	for _, ws := range r.At {
		out = append(out, ws...)
	}
	return out
}
