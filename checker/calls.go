package main

import (
	"go/types"
	"regexp"
	"strings"

	"golang.org/x/tools/go/ssa"
)

// Site is one call-like instruction in the module.
type Site struct {
	Fn    *ssa.Function
	Instr ssa.CallInstruction
	Str   string // canonical rendering
	Kind  string // "call", "go", "defer"
}

// CalleeKey renders the callee of a call: "pkg.Func", "pkg.(*T).M",
// "invoke(pkg.Iface.M)" or "dyn(<canon of func value>)".
func (e *Engine) CalleeKey(cc *ssa.CallCommon) string {
	c := &canoner{e: e, seen: map[ssa.Value]bool{}}
	s := c.calleeName(cc, 9)
	if strings.HasPrefix(s, "call(") {
		return s[5 : len(s)-1]
	}
	return s
}

// AllSites lists every call/go/defer in the module (closures included).
func (e *Engine) AllSites() []Site {
	var out []Site
	for _, fn := range e.Funcs {
		out = append(out, e.SitesIn(fn)...)
	}
	return out
}

func (e *Engine) SitesIn(fn *ssa.Function) []Site {
	var out []Site
	for _, b := range fn.Blocks {
		for _, in := range b.Instrs {
			if ci, ok := in.(ssa.CallInstruction); ok {
				k := "call"
				switch in.(type) {
				case *ssa.Go:
					k = "go"
				case *ssa.Defer:
					k = "defer"
				}
				out = append(out, Site{Fn: fn, Instr: ci, Kind: k})
			}
		}
	}
	return out
}

// SitesOf returns call sites whose callee key matches re (in the given functions, or the whole module if fns==nil).
func (e *Engine) SitesOf(re *regexp.Regexp, fns []*ssa.Function) []Site {
	var out []Site
	if fns == nil {
		fns = e.Funcs
	}
	for _, fn := range fns {
		for _, s := range e.SitesIn(fn) {
			if re.MatchString(e.CalleeKey(s.Instr.Common())) {
				s.Str = e.InstrStr(s.Instr)
				out = append(out, s)
			}
		}
	}
	return out
}

// InvokeSites returns call sites that dispatch method `method` on interface
// type iface (named type of the module) or on any concrete type implementing
// it (static calls to the implementations' methods are included).
func (e *Engine) InvokeSites(ifacePkg, ifaceName, method string) []Site {
	it := e.Type(ifacePkg, ifaceName)
	var out []Site
	if it == nil {
		return nil
	}
	iface, _ := it.Underlying().(*types.Interface)
	for _, fn := range e.Funcs {
		for _, s := range e.SitesIn(fn) {
			cc := s.Instr.Common()
			if cc.IsInvoke() {
				if cc.Method.Name() != method {
					continue
				}
				rt := cc.Value.Type()
				if types.Identical(rt, it) || (iface != nil && isIfaceSuper(rt, iface, method)) {
					s.Str = e.InstrStr(s.Instr)
					out = append(out, s)
				}
				continue
			}
			if f, ok := cc.Value.(*ssa.Function); ok && f.Signature.Recv() != nil && f.Name() == method && iface != nil {
				rt := f.Signature.Recv().Type()
				if types.Implements(rt, iface) {
					s.Str = e.InstrStr(s.Instr)
					out = append(out, s)
				}
			}
		}
	}
	return out
}

// isIfaceSuper: receiver interface type rt embeds / is a superset containing the same method as iface
func isIfaceSuper(rt types.Type, iface *types.Interface, method string) bool {
	ri, ok := rt.Underlying().(*types.Interface)
	if !ok {
		return false
	}
	// same method object (embedding) or rt implements iface
	if types.Implements(rt, iface) {
		return true
	}
	for i := 0; i < ri.NumMethods(); i++ {
		if ri.Method(i).Name() == method {
			for j := 0; j < iface.NumMethods(); j++ {
				if iface.Method(j) == ri.Method(i) {
					return true
				}
			}
		}
	}
	return false
}

// EnclosingTop returns the outermost named function containing fn.
func EnclosingTop(fn *ssa.Function) *ssa.Function {
	for fn.Parent() != nil {
		fn = fn.Parent()
	}
	return fn
}

// ClosureArgOf returns the anonymous function passed (as MakeClosure or bare
// function) at argument index i of call c, if any.
func ClosureArgOf(c ssa.CallInstruction, i int) *ssa.Function {
	cc := c.Common()
	args := cc.Args
	if i >= len(args) {
		return nil
	}
	v := args[i]
	for {
		switch x := v.(type) {
		case *ssa.MakeClosure:
			if f, ok := x.Fn.(*ssa.Function); ok {
				return f
			}
			return nil
		case *ssa.Function:
			return x
		case *ssa.ChangeType:
			v = x.X
			continue
		case *ssa.MakeInterface:
			v = x.X
			continue
		}
		return nil
	}
}

// Instrs iterates over all instructions of fn.
func Instrs(fn *ssa.Function, f func(in ssa.Instruction)) {
	for _, b := range fn.Blocks {
		for _, in := range b.Instrs {
			f(in)
		}
	}
}
