package main

import (
	"fmt"
	"regexp"
	"sort"
	"strings"

	"golang.org/x/tools/go/ssa"
)

func init() { register("C08", rulesC08) }

func rulesC08(e *Engine, r *Report) {
	// ---------------------------------------------------------------- R08.1
	r.Rule("R08.1", "the receiver's count decides the split: every value that can reach the argument of Payload.Split in the send-error handler is the count the failed Transmitter call returned (the handler's parameter) or the first result of TxRecoverer; the parameter does reach it; Split and the forwarding of the head happen only under err == nil and n > 0; TxRecoverer is asked for the payload being handled")
	if fn := needFn(e, r, "R08.1", "client.(*Broker).handleSendError"); fn != nil {
		splits := e.findInstrs(fn, "invoke(sts.Payload.Split)(§)", false)
		r.Min("R08.1", "Split calls in the send-error handler", len(splits), 1)
		for _, in := range splits {
			cc := in.(ssa.CallInstruction).Common()
			var leaves []string
			usesParam := false
			ok := true
			for _, lv := range e.phiLeaves(cc.Args[0]) {
				s := e.Canon(lv)
				leaves = append(leaves, s)
				switch {
				case s == "p2":
					usesParam = true
				case pat("dyn(p0.Conf.TxRecoverer)(p1)#0").MatchString(s):
				default:
					ok = false
				}
			}
			sort.Strings(leaves)
			r.Check(ok, "R08.1", "client.(*Broker).handleSendError: Split(n) - every source of n is receiver-derived", e.InstrPos(in),
				"the split position can be a value the receiver never reported: "+strings.Join(leaves, " | "), len(leaves), leaves...)
			r.Check(usesParam, "R08.1", "client.(*Broker).handleSendError: nPartsReceived reaches Split", e.InstrPos(in),
				"the count carried by the 206 answer is never used as the split position (the acknowledged head would be sent again)", 1, leaves...)
			r.Check(e.Canon(cc.Value) == "p1", "R08.1", "client.(*Broker).handleSendError: the payload split is the one that failed", e.InstrPos(in),
				"Split is applied to another payload: "+e.Canon(cc.Value), 1)
			n := "phi(dyn(p0.Conf.TxRecoverer)(p1)#0|phi(p2|phi#))"
			_ = n
			cls := both(
				CF(EvCond, "(0 < «(.*)»)", func(m []string) string { return "pos:" + m[1] }),
				labeler(
					C("(dyn(p0.Conf.TxRecoverer)(p1)#1 == nil)", "recoveryOK"),
					IK("dyn(p0.Conf.TxRecoverer)(p1)", "recoveryOK"),
					I("dyn(p0.Conf.TxRecoverer)(p1)", "asked"),
				),
			)
			arg := e.Canon(cc.Args[0])
			e.Guarded(r, "R08.1", "client.(*Broker).handleSendError: Split only under err == nil and n > 0", fn, only(in), cls,
				func(l LabelSet) bool {
					errNil := l.Has("recoveryOK") || !l.Has("asked")
					return errNil && (l.Has("pos:dyn(p0.Conf.TxRecoverer)(p1)#0") || l.Has("pos:p2") || l.Has("pos:"+arg))
				}, "(no recovery request was needed | it succeeded) and 0 < n for the n passed to Split")
		}
		rec := e.findInstrs(fn, "dyn(p0.Conf.TxRecoverer)(§)", false)
		okr := len(rec) >= 1
		for _, in := range rec {
			if e.InstrStr(in) != "dyn(p0.Conf.TxRecoverer)(p1)" {
				okr = false
			}
		}
		r.Check(okr, "R08.1", "client.(*Broker).handleSendError: TxRecoverer asked about the failed payload", e.Pos(fn.Pos()), "the recovery request is not made for the payload being handled", len(rec))
		// returns: the tail after Split, or the unchanged payload
		for _, rw := range e.returnWorlds(r, "R08.1", fn, nil) {
			rt := rw.In.(*ssa.Return)
			okv := true
			var lv []string
			for _, l := range e.phiLeaves(rt.Results[0]) {
				s := e.Canon(l)
				lv = append(lv, s)
				if s != "p1" && !strings.HasPrefix(s, "invoke(sts.Payload.Split)(p1, ") {
					okv = false
				}
			}
			r.Check(okv, "R08.1", "client.(*Broker).handleSendError: returns the untouched payload or the tail after Split", e.InstrPos(rt),
				"the handler returns something else to be re-sent: "+strings.Join(lv, " | "), 1, lv...)
			break
		}
	}

	// ---------------------------------------------------------------- R08.2
	r.Rule("R08.2", "only acknowledged payloads reach the tracker: the senders on chTransmitted are the send loop - only on paths where the last Transmitter call returned err == nil - and the send-error handler - the head after Split(n), n > 0; nobody else")
	{
		var senders []string
		okAll := true
		n := 0
		for _, fn := range e.FuncsIn("client") {
			for _, in := range e.findInstrs(fn, "«(call\\(client\\.sendCh\\[.*\\]\\)\\(.*|send\\()»§chTransmitted§", false) {
				s := e.InstrStr(in)
				if !strings.Contains(s, ".chTransmitted,") && !strings.Contains(s, ".chTransmitted)") {
					continue
				}
				n++
				senders = append(senders, e.ShortName(fn))
				switch e.ShortName(fn) {
				case "client.(*Broker).startSend":
					cls := labeler(
						C("(dyn(p0.Conf.Transmitter)(§)#1 == nil)", "acked"),
						IK("dyn(p0.Conf.Transmitter)(§)", "acked"),
					)
					e.GuardedFrom(r, "R08.2", "client.(*Broker).startSend: payload forwarded to the tracker", fn,
						FlowOpts{Classify: cls, Target: only(in), Sticky: []string{"acked"}},
						func(l LabelSet) bool { return l.Has("acked") }, "the last Transmitter call on this path returned err == nil")
				case "client.(*Broker).handleSendError":
					cls := labeler(I("invoke(sts.Payload.Split)(p1, §)", "split"))
					e.Guarded(r, "R08.2", "client.(*Broker).handleSendError: head forwarded to the tracker", fn, only(in), cls,
						func(l LabelSet) bool { return l.Has("split") }, "after Split(n) of the failed payload")
					r.Check(strings.Contains(s, ".chTransmitted, p1,"), "R08.2", "client.(*Broker).handleSendError: what is forwarded is the (now head-only) failed payload", e.InstrPos(in),
						"another payload is forwarded as transmitted: "+s, 1)
				default:
					okAll = false
				}
			}
		}
		sort.Strings(senders)
		r.Check(okAll, "R08.2", "senders on chTransmitted", "", "a function outside {startSend, handleSendError} sends on chTransmitted: "+strings.Join(senders, ", "), n, senders...)
		r.Min("R08.2", "send sites on chTransmitted", n, 2)
	}
	if fn := needFn(e, r, "R08.2", "client.(*Broker).startSend"); fn != nil {
		// the value forwarded: nil-checked phi of the acknowledged payload
		ch := e.findInstrs(fn, "call(client.sendCh[§])(§, p0.chTransmitted, §)", false)
		for _, in := range ch {
			item := in.(ssa.CallInstruction).Common().Args[2]
			var lv []string
			okv := true
			for _, l := range e.phiLeaves(item) {
				s := e.Canon(l)
				lv = append(lv, s)
				if !(s == "nil" || strings.HasPrefix(s, "recv(p0.chTransmit)#0") || strings.HasPrefix(s, "call(client.(*Broker).handleSendError)(p0, ")) {
					okv = false
				}
			}
			r.Check(okv, "R08.2", "client.(*Broker).startSend: the forwarded value is the payload taken from chTransmit or its re-sent tail", e.InstrPos(in),
				"something else is forwarded as transmitted: "+strings.Join(lv, " | "), 1, lv...)
		}
	}

	// ---------------------------------------------------------------- R08.3
	r.Rule("R08.3", "`sent` is logged and polled only when complete: in the tracker SendLogger.Sent and the hand-over to chValidate are reached only under size <= sent of that file; sent grows only by the length of a part taken from a transmitted payload (GetSlice()#1) and is reset only when the hash changes")
	if fn := needFn(e, r, "R08.3", "client.(*Broker).startTrack"); fn != nil {
		cls := CF(EvCond, "(«(.*)».size <= «(.*)».sent)", func(m []string) string {
			if m[1] == m[2] {
				return "complete:" + m[1]
			}
			return ""
		})
		n := 0
		for _, in := range e.findInstrs(fn, "invoke(sts.SendLogger.Sent)(p0.Conf.Logger, §)", false) {
			n++
			f := e.Canon(in.(ssa.CallInstruction).Common().Args[0])
			e.Guarded(r, "R08.3", "client.(*Broker).startTrack: Logger.Sent(file)", fn, only(in), cls,
				func(l LabelSet) bool { return l.Has("complete:" + f) }, "file.size <= file.sent for the file being logged")
		}
		r.Min("R08.3", "Sent records written by the tracker", n, 1)
		n = 0
		Instrs(fn, func(in ssa.Instruction) {
			sel, ok := in.(*ssa.Select)
			if !ok {
				return
			}
			for _, st := range sel.States {
				if st.Send != nil && strings.HasSuffix(e.Canon(st.Chan), ".chValidate") {
					n++
					f := e.Canon(st.Send)
					e.Guarded(r, "R08.3", "client.(*Broker).startTrack: file offered to the validator", fn, only(in), cls,
						func(l LabelSet) bool { return l.Has("complete:" + f) }, "file.size <= file.sent for the file offered")
				}
			}
		})
		r.Min("R08.3", "hand-overs to chValidate", n, 1)
		// who sends on chValidate at all
		var others []string
		for _, f2 := range e.FuncsIn("client") {
			if f2 == fn {
				continue
			}
			for _, in := range e.findInstrs(f2, "«.*»chValidate«[,)].*»", false) {
				if _, isSend := in.(*ssa.Send); isSend || strings.HasPrefix(e.InstrStr(in), "call(client.sendCh") {
					others = append(others, e.ShortName(f2))
				}
			}
		}
		r.Check(len(others) == 0, "R08.3", "only the tracker feeds chValidate", "", "other senders on chValidate: "+strings.Join(others, ", "), 1)
		// stores to progressFile.sent
		var bad []string
		ns := 0
		for _, st := range e.fieldStoresIn(fn, "client.progressFile", "sent") {
			ns++
			okv := st.val == "0" || pat("(§.sent + invoke(sts.Binned.GetSlice)(§)#1)").MatchString(st.val)
			if !okv {
				bad = append(bad, st.val+" @"+st.pos)
			}
		}
		r.Check(len(bad) == 0 && ns >= 2, "R08.3", "client.(*Broker).startTrack: sent advances by GetSlice()#1 only", e.Pos(fn.Pos()),
			"the acknowledged-byte counter is advanced by something else than the length of a transmitted part: "+strings.Join(bad, "; "), ns)
		// the reset is guarded by a hash change
		for _, in := range e.findInstrs(fn, "store(§.sent = 0)", false) {
			conds := e.domConds(in.Block())
			r.Check(hasStr(conds, "(invoke(sts.Binned.GetFileHash)(§) != §.hash)") || hasStr(conds, "(§.hash != invoke(sts.Binned.GetFileHash)(§))"), "R08.3",
				"client.(*Broker).startTrack: progress reset only for a new hash", e.InstrPos(in), "the progress of a file is reset although its hash did not change", 1, conds...)
		}
		// size of a tracked file is what has to be sent (GetSendSize)
		var sz []string
		for _, st := range e.fieldStoresIn(fn, "client.progressFile", "size") {
			sz = append(sz, st.val)
			r.Check(pat("invoke(sts.Binned.GetSendSize)(§)").MatchString(st.val), "R08.3", "client.(*Broker).startTrack: size ← GetSendSize() #"+fmt.Sprint(len(sz)), st.pos,
				"the completion threshold is not the number of bytes that have to be sent: "+st.val, 1)
		}
		r.Min("R08.3", "stores to progressFile.size", len(sz), 2)
	}

	// ---------------------------------------------------------------- R08.4
	r.Rule("R08.4", "the receiver counts only recorded leading parts: in the data route the part index is incremented only on the err == nil edge of GateKeeper.Receive; on the error edge the answer carries X-STS-PartCount = index and status 206 and the loop ends; 200 is written only when the decoder reported the end; the recovery route answers with GateKeeper.Received(parts)")
	if fn := needFn(e, r, "R08.4", "http.(*Server).routeData"); fn != nil {
		rcv := e.findInstrs(fn, "invoke(sts.GateKeeper.Receive)(§)", false)
		r.Min("R08.4", "Receive calls in the data route", len(rcv), 1)
		for _, in := range rcv {
			rv := e.Canon(in.(ssa.Value))
			cls := labeler(C("("+rv+" == nil)", "recorded"), C("("+rv+" != nil)", "failed"),
				I("call(http.(Header).Add)(invoke(http.ResponseWriter.Header)(p1), "+e.constOr("http", "HeaderPartCount")+", call(strconv.Itoa)(§))", "countSent"),
				I("invoke(http.ResponseWriter.WriteHeader)(p1, 206)", "partial"),
				C("invoke(sts.PayloadDecoder.Next)(§)#1", "eof"),
			)
			// index increments
			ninc := 0
			Instrs(fn, func(i2 ssa.Instruction) {
				bo, ok := i2.(*ssa.BinOp)
				if !ok || bo.Op.String() != "+" {
					return
				}
				if k, ok := bo.Y.(*ssa.Const); !ok || constStr(k) != "1" {
					return
				}
				if _, isPhi := bo.X.(*ssa.Phi); !isPhi {
					return
				}
				// only the loop-carried index (feeds a phi)
				feeds := false
				if bo.Referrers() != nil {
					for _, ref := range *bo.Referrers() {
						if _, ok := ref.(*ssa.Phi); ok {
							feeds = true
						}
					}
				}
				if !feeds {
					return
				}
				ninc++
				e.Guarded(r, "R08.4", "http.(*Server).routeData: index++ only after Receive == nil", fn, only(bo), cls,
					func(l LabelSet) bool { return l.Has("recorded") }, "err == nil edge of GateKeeper.Receive in this iteration")
			})
			r.Min("R08.4", "increments of the part index", ninc, 1)
			for _, ed := range e.ifEdges(fn, "("+rv+" != nil)") {
				e.GuardedFrom(r, "R08.4", "http.(*Server).routeData: error edge answers 206 with the count", fn,
					FlowOpts{Classify: cls, Target: isReturn, StartEdge: ed.B, StartSucc: ed.Succ},
					func(l LabelSet) bool { return l.HasAll("countSent", "partial") }, "X-STS-PartCount set and 206 written before returning")
			}
			n200 := e.Guarded(r, "R08.4", "http.(*Server).routeData: 200 only at the end of the payload", fn, e.instrMatch("invoke(http.ResponseWriter.WriteHeader)(p1, 200)"), cls,
				func(l LabelSet) bool { return l.Has("eof") && !l.Has("failed") }, "decoder.Next() reported the end")
			r.Min("R08.4", "200 answers in the data route", n200, 1)
			// the count header carries the index
			for _, h := range e.findInstrs(fn, "call(http.(Header).Add)(§, "+e.constOr("http", "HeaderPartCount")+", §)", false) {
				s := e.InstrStr(h)
				r.Check(pat("§, call(strconv.Itoa)(phi(§)))").MatchString(s), "R08.4", "http.(*Server).routeData: X-STS-PartCount carries the loop index", e.InstrPos(h),
					"the count sent back is not the number of parts recorded so far: "+s, 1, s)
			}
		}
	}
	e.checkReceivedLeading(r, "R08.4")
	r.Rule("R08.6", "the receiver's answer to `how many of these parts did you get` is about these parts: a part counts as on record only through a companion range of equal rename, hash and predecessor, or a known, non-failed file of the SAME hash and rename (an older delivered version of the name must not stand in for the parts of a new one, else the sender skips parts the receiver never recorded)")
	if sc8 := e.stageConsts(r, "R08.6"); sc8.ok {
		e.checkPartReceived(r, "R08.6", sc8)
	}
	if fn := needFn(e, r, "R08.4", "http.(*Server).routeDataRecovery"); fn != nil {
		got := e.findInstrs(fn, "call(http.(Header).Add)(invoke(http.ResponseWriter.Header)(p1), "+e.constOr("http", "HeaderPartCount")+", call(strconv.Itoa)(invoke(sts.GateKeeper.Received)(§, invoke(sts.PayloadDecoder.GetParts)(§))))", false)
		r.Check(len(got) == 1, "R08.4", "http.(*Server).routeDataRecovery: answers X-STS-PartCount = GateKeeper.Received(decoded parts)", e.Pos(fn.Pos()),
			"the recovery route does not report the gatekeeper's count of leading parts on record", 1)
	}

	// ---------------------------------------------------------------- R08.5
	r.Rule("R08.5", "the client's reading of the answer: Transmit returns err == nil only for status 200 (206 and everything else is an error), takes the count from the X-STS-PartCount header on 206; RecoverTransmission returns err == nil only for 200 and reads the same header")
	if fn := needFn(e, r, "R08.5", "http.(*Client).Transmit"); fn != nil {
		hdr := e.constOr("http", "HeaderPartCount")
		cls := both(labeler(
			C("(§.StatusCode == 200)", "ok200"),
			C("(§.StatusCode == 206)", "is206"),
			C("(§.StatusCode != 206)", "not206"),
			C("(§.StatusCode != 200)", "not200"),
		), CF(EvCond, "(«(.*)» == nil)", func(m []string) string { return "nil:" + m[1] }))
		nOK := 0
		for _, rw := range e.returnWorlds(r, "R08.5", fn, cls) {
			rt := rw.In.(*ssa.Return)
			if len(rt.Results) != 2 {
				continue
			}
			errv := e.Canon(rt.Results[1])
			if errv == "nil" || rw.W.Has("ret1=nil") || rw.W.Has("nil:"+errv) {
				nOK++
				r.Check(rw.W.Has("ok200") && !rw.W.Has("is206"), "R08.5", "http.(*Client).Transmit: success return "+rw.W.String(), e.InstrPos(rt),
					"Transmit reports success for an answer that is not 200", 1, rw.W.String())
				n0 := e.Canon(rt.Results[0])
				r.Check(strings.HasPrefix(n0, "builtin(len)(invoke(sts.Payload.GetParts)(p1))"), "R08.5", "http.(*Client).Transmit: success count = all parts", e.InstrPos(rt), "on success the count is "+n0, 1)
			}
			if rw.W.Has("is206") {
				n0 := e.Canon(rt.Results[0])
				r.Check(pat("call(strconv.Atoi)(call(http.(Header).Get)(§.Header, "+hdr+"))#0").MatchString(n0) && strings.HasPrefix(errv, "call(fmt.Errorf)"), "R08.5", "http.(*Client).Transmit: 206 → (count from X-STS-PartCount, error)", e.InstrPos(rt),
					"a partial-content answer is not turned into (receiver's count, error): n="+n0+" err="+errv, 1)
			}
		}
		r.Min("R08.5", "success returns of Transmit", nOK, 1)
	}
	if fn := needFn(e, r, "R08.5", "http.(*Client).RecoverTransmission"); fn != nil {
		hdr := e.constOr("http", "HeaderPartCount")
		cls := both(labeler(C("(§.StatusCode == 200)", "ok200")), CF(EvCond, "(«(.*)» == nil)", func(m []string) string { return "nil:" + m[1] }))
		nOK := 0
		for _, rw := range e.returnWorlds(r, "R08.5", fn, cls) {
			rt := rw.In.(*ssa.Return)
			if len(rt.Results) != 2 {
				continue
			}
			errv := e.Canon(rt.Results[1])
			if errv == "nil" || rw.W.Has("ret1=nil") || rw.W.Has("nil:"+errv) {
				nOK++
				n0 := e.Canon(rt.Results[0])
				r.Check(rw.W.Has("ok200") && pat("call(strconv.Atoi)(call(http.(Header).Get)(§.Header, "+hdr+"))#0").MatchString(n0), "R08.5",
					"http.(*Client).RecoverTransmission: success return "+rw.W.String(), e.InstrPos(rt),
					"the recovery answer is accepted for a status other than 200 or the count is not read from X-STS-PartCount: n="+n0, 1, rw.W.String())
			}
		}
		r.Min("R08.5", "success returns of RecoverTransmission", nOK, 1)
	}
	// ---------------------------------------------------------------- R08.7
	r.Rule("R08.7", "`every byte acknowledged` is measured against the bytes to be sent: the chunk's send size is getSendSize() of the very queue node the chunk was cut from (Σ missing ranges for a resumed file, else the file size) - shared with R03.8")
	e.checkSendSize(r, "R08.7")
	// ---------------------------------------------------------------- R08.8
	r.Rule("R08.8", "the tracker's target for a resumed file is all of its missing bytes: recoverFile.GetSendSize sums End-Beg over the whole list of missing ranges (the queue asks for it after it has allocated the chunk, i.e. after the cursor into that list has moved; a sum from the cursor on shrinks with every range used up, and the chunk that finishes range k would declare the file sent while later ranges are still out)")
	if fn := needFn(e, r, "R08.8", "client.(*recoverFile).GetSendSize"); fn != nil {
		re := regexp.MustCompile(`^phi\(\(phi# \+ \(p0\.left\[(.+)\]\.End - p0\.left\[(.+)\]\.Beg\)\)\|0\)$`)
		n, ok := 0, true
		var got []string
		Instrs(fn, func(in ssa.Instruction) {
			if rt, isRet := in.(*ssa.Return); isRet && len(rt.Results) == 1 {
				n++
				s := e.Canon(rt.Results[0])
				got = append(got, s)
				m := re.FindStringSubmatch(s)
				if m == nil || m[1] != m[2] {
					ok = false
					return
				}
				// the index runs over the whole list
				conds := 0
				for _, b := range fn.Blocks {
					if t, isIf := b.Instrs[len(b.Instrs)-1].(*ssa.If); isIf {
						c := e.Canon(t.Cond)
						if c == "("+m[1]+" < builtin(len)(p0.left))" {
							conds++
						}
					}
				}
				if conds == 0 || !(strings.HasPrefix(m[1], "(phi((phi# + 1)|-1) + 1)") || strings.HasPrefix(m[1], "phi((phi# + 1)|0)")) {
					ok = false
				}
			}
		})
		r.Check(ok && n == 1, "R08.8", "client.(*recoverFile).GetSendSize: sum of End-Beg over all of p0.left", e.Pos(fn.Pos()),
			"the send size of a resumed file is not the sum over the whole list of missing ranges: "+strings.Join(got, "; "), 1, got...)
	}
	// ---------------------------------------------------------------- R08.9
	r.Rule("R08.9", "what counts as already held is held of this version: the sender skips byte ranges after a restart only on the strength of a receiver's partial with the same hash as the file to be sent (same check as R07.11)")
	checkResumeSameVersion(e, r, "R08.9")
	// ---------------------------------------------------------------- R08.10
	e.shareRule(r, "C11", "R11.3", "R08.10", "the remainder after a partial success is split off for every count below the number of parts: Split(n) refuses only n < 1 and n >= len(parts) - refusing len(parts)-1 as well makes `all but the last part received` look like `all received`, and the last part is never sent again")
	// ---------------------------------------------------------------- R08.11
	r.Rule("R08.11", "after the split only the remainder goes back to the sender: handleSendError returns the payload it was given only on paths that never reached Split (a stop before the count was known); once Split was called its result is what is returned - nil when the receiver holds every part - because the payload itself has by then been handed to the tracker as transmitted; and the count Split is called with includes the answer of the recovery request, not only the count the failed request carried")
	if fn := needFn(e, r, "R08.11", "client.(*Broker).handleSendError"); fn != nil {
		splits := e.findInstrs(fn, "invoke(sts.Payload.Split)(p1, §)", false)
		r.Min("R08.11", "Split calls in handleSendError", len(splits), 1)
		for _, sp := range splits {
			arg := e.Canon(sp.(*ssa.Call).Call.Args[0])
			r.Check(strings.Contains(arg, "dyn(p0.Conf.TxRecoverer)(p1)#0"), "R08.11", "client.(*Broker).handleSendError: Split is called with the count that includes the recovery answer", e.InstrPos(sp),
				"Split is called with `"+shorten(arg)+"`, which does not include what the recovery request answered: after a lost connection the count is 0 and the whole payload is booked as transmitted", 1, arg)
			// returns: a parameter leaf only over edges not reachable from the Split
			okRet, nRet := true, 0
			var walk func(v ssa.Value, seen map[ssa.Value]bool)
			walk = func(v ssa.Value, seen map[ssa.Value]bool) {
				ph, isPhi := v.(*ssa.Phi)
				if !isPhi || seen[v] {
					return
				}
				seen[v] = true
				for i, ed := range ph.Edges {
					if p, isParam := ed.(*ssa.Parameter); isParam && p == fn.Params[1] {
						pred := ph.Block().Preds[i]
						if pred == sp.Block() || reaches(sp.Block(), pred, nil) {
							// ... unless the hand-over to the tracker was refused because of a stop:
							// nothing is sent any more then
							stopped := false
							for _, c := range e.domConds(pred) {
								if strings.HasPrefix(c, "!call(client.sendCh[") {
									stopped = true
								}
							}
							if t, isIf := pred.Instrs[len(pred.Instrs)-1].(*ssa.If); isIf {
								if strings.HasPrefix(e.CondStr(t.Cond, pred.Succs[0] == ph.Block()), "!call(client.sendCh[") {
									stopped = true
								}
							}
							if !stopped {
								okRet = false
							}
						}
					}
					walk(ed, seen)
				}
			}
			Instrs(fn, func(in ssa.Instruction) {
				if rt, ok := in.(*ssa.Return); ok && len(rt.Results) == 1 && rt.Block().Comment != "recover" {
					nRet++
					if p, isParam := rt.Results[0].(*ssa.Parameter); isParam && p == fn.Params[1] && (rt.Block() == sp.Block() || reaches(sp.Block(), rt.Block(), nil)) {
						okRet = false
					}
					walk(rt.Results[0], map[ssa.Value]bool{})
				}
			})
			r.Check(okRet && nRet > 0, "R08.11", "client.(*Broker).handleSendError: after Split the result of Split is returned", e.InstrPos(sp),
				"a path that has called Split returns the payload it was given: when the receiver holds every part (Split answers nil) the whole payload is sent, and counted, a second time", 1)
		}
	}
	// ---------------------------------------------------------------- R08.12
	r.Rule("R08.12", "a receipt is the answer to the request that carried the payload: Transmit books parts as received (the full count on 200, the announced count on 206) only on paths where the response's own request has the method of the request that was sent, or the response names no request - Go's client follows a 301/302/303 to a PUT as a body-less GET, and the 200 of whatever page that leads to is not the receiver's")
	if fn := needFn(e, r, "R08.12", "http.(*Client).Transmit"); fn != nil {
		resp := "call(http.(*BandwidthLoggingClient).Do)(p0.client, §)#0"
		cls := labeler(
			C("("+resp+".Request.Method == §.Method)", "sameRequest"),
			C("(§.Method == "+resp+".Request.Method)", "sameRequest"),
			C("("+resp+".Request == nil)", "noRequest"),
		)
		n := 0
		for _, pat := range []string{"store(var(n) = builtin(len)(invoke(sts.Payload.GetParts)(p1)))", "store(var(n) = call(strconv.Atoi)(§)#0)"} {
			n += e.Guarded(r, "R08.12", "http.(*Client).Transmit: `"+shorten(pat)+"` only for an answer to the request that was sent", fn, e.instrMatch(pat), cls,
				func(l LabelSet) bool { return l.HasAny("sameRequest", "noRequest") }, "resp.Request.Method == req.Method (no redirect was followed as another request)")
		}
		r.Min("R08.12", "places where Transmit books parts as received", n, 2)
	}
}

// constOr renders a package-level string constant as a canonical literal.
func (e *Engine) constOr(pkg, name string) string {
	if v, ok := e.ConstVal(pkg, name); ok {
		return v
	}
	return "<unresolved " + pkg + "." + name + ">"
}
