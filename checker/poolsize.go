package main

import (
	"fmt"
	"go/token"
	"regexp"
	"sort"
	"strconv"
	"strings"

	"golang.org/x/tools/go/ssa"
)

// poolSize is one counted loop that starts goroutines: `for i := 0; i < N; i++ { go … }`.
type poolSize struct {
	Fn    *ssa.Function
	Go    *ssa.Go
	Bound ssa.Value
}

// countedGoLoops finds the goroutine pools whose size is a run-time number
// (range loops over a collection are sized by the collection and not meant).
func (e *Engine) countedGoLoops(pkgs ...string) []poolSize {
	var out []poolSize
	for _, pkg := range pkgs {
		for _, fn := range e.FuncsIn(pkg) {
			Instrs(fn, func(in ssa.Instruction) {
				g, ok := in.(*ssa.Go)
				if !ok {
					return
				}
				h, _ := innermostLoop(in)
				if h == nil {
					return
				}
				t, ok := h.Instrs[len(h.Instrs)-1].(*ssa.If)
				if !ok {
					return
				}
				b, ok := t.Cond.(*ssa.BinOp)
				if !ok || b.Op != token.LSS {
					return
				}
				if _, isPhi := b.X.(*ssa.Phi); !isPhi {
					return
				}
				if strings.HasPrefix(e.Canon(b.Y), "builtin(len)") {
					return
				}
				out = append(out, poolSize{fn, g, b.Y})
			})
		}
	}
	return out
}

// sizeSources follows a pool size to where it comes from: through parameters
// to the arguments of every call of the function (closures included).
func (e *Engine) sizeSources(fn *ssa.Function, v ssa.Value, depth int) (srcs []string, unresolved []string) {
	if p, ok := v.(*ssa.Parameter); ok && depth < 4 {
		idx := -1
		for i, q := range fn.Params {
			if q == p {
				idx = i
			}
		}
		name := e.ShortName(fn)
		n := 0
		for _, s := range e.AllSites() {
			cc := s.Instr.Common()
			if e.CalleeKey(cc) != name {
				continue
			}
			args := cc.Args
			if cc.IsInvoke() || idx < 0 || idx >= len(args) {
				continue
			}
			n++
			a, u := e.sizeSources(s.Fn, args[idx], depth+1)
			srcs = append(srcs, a...)
			unresolved = append(unresolved, u...)
		}
		if n == 0 {
			unresolved = append(unresolved, name+": no call site found for parameter "+p.Name())
		}
		return
	}
	return []string{e.Canon(v)}, nil
}

var confFieldRe = regexp.MustCompile(`^(?:p0|\^\w+)\.Conf\.(\w+)$`)

// checkPoolSizesPositive: every goroutine pool of the sender is sized by a
// constant >= 1 or by a field of client.Conf which package main fills from an
// option that setDefaults leaves positive (or refuses) on every success path.
func (e *Engine) checkPoolSizesPositive(r *Report, rule string) {
	pools := e.countedGoLoops("client")
	fields := map[string][]string{}
	for _, p := range pools {
		srcs, unres := e.sizeSources(p.Fn, p.Bound, 0)
		for _, u := range unres {
			r.Unresolved(rule, u)
		}
		for _, s := range uniq(srcs) {
			construct := fmt.Sprintf("%s: pool `%s` sized by %s", e.ShortName(p.Fn), shorten(e.InstrStr(p.Go)), shorten(s))
			if m := confFieldRe.FindStringSubmatch(s); m != nil {
				fields[m[1]] = append(fields[m[1]], construct)
				r.Ok(rule, construct, e.InstrPos(p.Go), 1, "a field of client.Conf: followed into package main below")
				continue
			}
			if v, err := strconv.ParseInt(s, 10, 64); err == nil {
				r.Check(v >= 1, rule, construct, e.InstrPos(p.Go), "a pool of no workers: whatever is handed to it is never taken", 1)
				continue
			}
			r.Bad(rule, construct, e.InstrPos(p.Go), "the size of this pool is neither a constant nor a client.Conf field: nothing shows that it is positive", 1)
		}
	}
	r.Min(rule, "counted goroutine pools in package client", len(pools), 2)
	var names []string
	for f := range fields {
		names = append(names, f)
	}
	sort.Strings(names)
	setDef := needFn(e, r, rule, "main.(*clientApp).setDefaults")
	for _, f := range names {
		// where main fills the field
		var opts []string
		var filler *ssa.Function
		var fillIn ssa.Instruction
		for _, fn := range e.FuncsIn("main") {
			Instrs(fn, func(in ssa.Instruction) {
				st, ok := in.(*ssa.Store)
				if !ok {
					return
				}
				fa, ok := st.Addr.(*ssa.FieldAddr)
				if !ok {
					return
				}
				fv := fieldVar(fa.X, fa.Field)
				if fv == nil || fv.Name() != f || !strings.HasSuffix(strings.TrimPrefix(fa.X.Type().String(), "*"), "client.Conf") {
					return
				}
				opts = append(opts, e.Canon(st.Val))
				filler, fillIn = fn, in
			})
		}
		construct := "client.Conf." + f + " is filled from an option that is positive"
		if len(opts) != 1 || filler == nil {
			r.Bad(rule, construct, "main", fmt.Sprintf("expected exactly one store into client.Conf.%s in package main, found %d", f, len(opts)), 1)
			continue
		}
		opt := opts[0]
		if !strings.HasPrefix(opt, "p0.conf.") || setDef == nil {
			r.Bad(rule, construct, e.InstrPos(fillIn), "client.Conf."+f+" is filled from `"+opt+"`, not from an option of the source configuration", 1)
			continue
		}
		// the filler runs setDefaults first
		e.Guarded(r, rule, "client.Conf."+f+" is filled after setDefaults succeeded", filler, only(fillIn),
			labeler(C("(call(main.(*clientApp).setDefaults)(p0) == nil)", "defaulted")),
			func(l LabelSet) bool { return l.Has("defaulted") }, "setDefaults() == nil")
		// setDefaults leaves it positive on every success path
		q := regexp.QuoteMeta(opt)
		posCond := regexp.MustCompile(`^\((?:` + q + ` != 0|0 != ` + q + `|` + q + ` > 0|0 < ` + q + `|` + q + ` >= 1|1 <= ` + q + `)\)$`)
		posStore := regexp.MustCompile(`^store\(` + q + ` = ([1-9][0-9]*)\)$`)
		anyStore := regexp.MustCompile(`^store\(` + q + ` = `)
		nonNil := regexp.MustCompile(`^\((.*) != nil\)$`)
		cls := func(ev *Event) (add, kill []string) {
			switch ev.Kind {
			case EvCond:
				if posCond.MatchString(ev.Str) {
					add = append(add, "positive")
				}
				if m := nonNil.FindStringSubmatch(ev.Str); m != nil {
					add = append(add, "nonnil:"+m[1])
				}
			case EvInstr:
				if posStore.MatchString(ev.Str) {
					add = append(add, "positive")
				} else if anyStore.MatchString(ev.Str) {
					kill = append(kill, "positive")
				}
			}
			return
		}
		res := e.Flow(setDef, FlowOpts{Classify: cls, Target: isReturn})
		if res.Undecided {
			r.Bad(rule, construct, e.Pos(setDef.Pos()), "undecided: path-world cap exceeded", res.Evals)
			continue
		}
		okAll, nSucc, nErr := true, 0, 0
		var where string
		for in, ws := range res.At {
			ret := in.(*ssa.Return)
			rv := ""
			if len(ret.Results) > 0 {
				rv = e.Canon(ret.Results[len(ret.Results)-1])
			}
			for _, w := range ws {
				if strings.HasPrefix(rv, "call(fmt.Errorf)") || strings.HasPrefix(rv, "call(errors.New)") || w.Has("nonnil:"+rv) {
					nErr++
					continue
				}
				nSucc++
				if !w.Has("positive") {
					okAll = false
					where = e.InstrPos(in)
				}
			}
		}
		r.Check(okAll && nSucc > 0, rule, construct, e.Pos(setDef.Pos()),
			fmt.Sprintf("setDefaults can return without an error (%s) with %s still zero: `%s` omitted leaves the sender with a pool of no workers - the first scan blocks handing its files to the hash workers and nothing is ever sent", where, opt, strings.ToLower(f)),
			res.Evals, fmt.Sprintf("%d success path classes (each must carry `%s > 0`), %d refusing path classes", nSucc, opt, nErr))
	}
}

// checkOptionPositive: package main fills client.Conf.<field> from an option
// that setDefaults leaves positive on every success path (same three links as
// checkPoolSizesPositive, for an option that sizes something other than a pool).
func (e *Engine) checkOptionPositive(r *Report, rule, field, why string) {
	setDef := needFn(e, r, rule, "main.(*clientApp).setDefaults")
	if setDef == nil {
		return
	}
	var opts []string
	for _, fn := range e.FuncsIn("main") {
		Instrs(fn, func(in ssa.Instruction) {
			st, ok := in.(*ssa.Store)
			if !ok {
				return
			}
			fa, ok := st.Addr.(*ssa.FieldAddr)
			if !ok {
				return
			}
			fv := fieldVar(fa.X, fa.Field)
			if fv == nil || fv.Name() != field || !strings.HasSuffix(strings.TrimPrefix(fa.X.Type().String(), "*"), "client.Conf") {
				return
			}
			opts = append(opts, e.Canon(st.Val))
		})
	}
	construct := "client.Conf." + field + " is filled from an option that is positive"
	if len(opts) != 1 || !strings.HasPrefix(opts[0], "p0.conf.") {
		r.Bad(rule, construct, "main", fmt.Sprintf("expected exactly one store of a source option into client.Conf.%s, found %v", field, opts), 1)
		return
	}
	opt := opts[0]
	q := regexp.QuoteMeta(opt)
	posCond := regexp.MustCompile(`^\((?:` + q + ` != 0|0 != ` + q + `|` + q + ` > 0|0 < ` + q + `|` + q + ` >= 1|1 <= ` + q + `)\)$`)
	posStore := regexp.MustCompile(`^store\(` + q + ` = ([1-9][0-9]*)\)$`)
	anyStore := regexp.MustCompile(`^store\(` + q + ` = `)
	nonNil := regexp.MustCompile(`^\((.*) != nil\)$`)
	cls := func(ev *Event) (add, kill []string) {
		switch ev.Kind {
		case EvCond:
			if posCond.MatchString(ev.Str) {
				add = append(add, "positive")
			}
			if m := nonNil.FindStringSubmatch(ev.Str); m != nil {
				add = append(add, "nonnil:"+m[1])
			}
		case EvInstr:
			if posStore.MatchString(ev.Str) {
				add = append(add, "positive")
			} else if anyStore.MatchString(ev.Str) {
				kill = append(kill, "positive")
			}
		}
		return
	}
	res := e.Flow(setDef, FlowOpts{Classify: cls, Target: isReturn})
	okAll, nSucc := !res.Undecided, 0
	for in, ws := range res.At {
		ret := in.(*ssa.Return)
		rv := ""
		if len(ret.Results) > 0 {
			rv = e.Canon(ret.Results[len(ret.Results)-1])
		}
		for _, w := range ws {
			if strings.HasPrefix(rv, "call(fmt.Errorf)") || strings.HasPrefix(rv, "call(errors.New)") || w.Has("nonnil:"+rv) {
				continue
			}
			nSucc++
			if !w.Has("positive") {
				okAll = false
			}
		}
	}
	r.Check(okAll && nSucc > 0, rule, construct, e.Pos(setDef.Pos()),
		"setDefaults can return without an error with "+opt+" still zero: "+why, res.Evals, fmt.Sprintf("%d success path classes (each must carry `%s > 0`)", nSucc, opt))
}
