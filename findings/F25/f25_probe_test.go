package stage

import (
	"os"
	"path/filepath"
	"testing"
	"time"

	"github.com/arm-doe/sts/log"
	"github.com/arm-doe/sts/mock"
)

// F25: the receive log holds two records of one name - version 1, later
// version 2.  The cache refill reads the log oldest first and skips a record
// whose name is already cached, so after a restart (or once the entry aged
// out) the cache knows the name with version 1's hash.  A retransmission of
// version 2 - the version that was delivered last - is then not recognised as
// a duplicate (hash differs) and is validated, logged and delivered again.
func TestProbeF25RefillKeepsTheLatestRecord(t *testing.T) {
	log.InitExternal(&mock.Logger{DebugMode: false})
	root := t.TempDir()
	stageDir := filepath.Join(root, "stage")
	os.MkdirAll(stageDir, 0o755)
	logger := log.NewFileIO(filepath.Join(root, "log"), nil, nil, false)
	name := "d/x.dat"
	base := filepath.Join(stageDir, name)
	logger.Received(&finalFile{path: base, name: name, hash: "H1", size: 4})
	time.Sleep(1100 * time.Millisecond) // records carry whole seconds
	logger.Received(&finalFile{path: base, name: name, hash: "H2", size: 5})
	s := New("probe", stageDir, filepath.Join(root, "final"), logger, nil, nil)
	s.buildCache(time.Now().Add(-time.Hour))
	f := s.fromCache(base)
	if f == nil {
		t.Fatal("the name is not in the cache after the refill")
	}
	if f.hash != "H2" || f.size != 5 {
		t.Errorf("after the refill the cache knows %s with hash %s size %d; the version delivered last is H2 (5 bytes): a retransmission of H2 would be accepted and delivered a second time", name, f.hash, f.size)
	}
}
