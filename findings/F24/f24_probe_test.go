package stage

import (
	"bytes"
	"crypto/md5"
	"fmt"
	"io"
	"os"
	"path/filepath"
	"strings"
	"testing"
	"time"

	"github.com/arm-doe/sts"
	"github.com/arm-doe/sts/log"
	"github.com/arm-doe/sts/marshal"
	"github.com/arm-doe/sts/mock"
)

type xPart struct {
	name, renamed, prev, hash string
	size, beg, end           int64
	t                        time.Time
}

func (p *xPart) GetName() string          { return p.name }
func (p *xPart) GetRenamed() string       { return p.renamed }
func (p *xPart) GetPrev() string          { return p.prev }
func (p *xPart) GetFileTime() time.Time   { return p.t }
func (p *xPart) GetFileHash() string      { return p.hash }
func (p *xPart) GetFileSize() int64       { return p.size }
func (p *xPart) GetSendSize() int64       { return p.size }
func (p *xPart) GetSlice() (int64, int64) { return p.beg, p.end }

func xMD5(b []byte) string { return fmt.Sprintf("%x", md5.Sum(b)) }

func xSend(s *Stage, name, prev, hash string, content []byte, beg, end int64, r io.Reader) error {
	p := &xPart{name: name, prev: prev, hash: hash, size: int64(len(content)), beg: beg, end: end, t: time.Now()}
	s.Prepare([]sts.Binned{p})
	if r == nil {
		r = bytes.NewReader(content[beg:end])
	}
	return s.Receive(&sts.Partial{
		Name: name, Prev: prev, Size: int64(len(content)), Hash: hash, Source: "src",
		Time:  marshal.NanoTime{Time: p.t},
		Parts: []*sts.ByteRange{{Beg: beg, End: end}},
	}, r)
}

func xWait(t *testing.T, what string, cond func() bool) {
	t.Helper()
	deadline := time.Now().Add(10 * time.Second)
	for time.Now().Before(deadline) {
		if cond() {
			return
		}
		time.Sleep(5 * time.Millisecond)
	}
	t.Fatalf("timed out waiting for %s", what)
}

func xLogLines(t *testing.T, dir string) (lines []string) {
	filepath.Walk(dir, func(p string, info os.FileInfo, err error) error {
		if err == nil && !info.IsDir() {
			b, _ := os.ReadFile(p)
			for _, l := range strings.Split(string(b), "\n") {
				if l != "" {
					lines = append(lines, l)
				}
			}
		}
		return nil
	})
	return
}

func xNew(t *testing.T) (s *Stage, stageDir, finalDir, logDir string) {
	log.InitExternal(&mock.Logger{DebugMode: false})
	root := t.TempDir()
	stageDir = filepath.Join(root, "stage")
	finalDir = filepath.Join(root, "final")
	logDir = filepath.Join(root, "logs")
	os.MkdirAll(stageDir, 0775)
	os.MkdirAll(finalDir, 0775)
	s = New("x", stageDir, finalDir, log.NewFileIO(logDir, nil, nil, true), nil, nil)
	return
}

// E1: duplicate part blocked mid-stream writes into the delivered inode

// F24: version 1 of f is validated and parked behind its predecessor p; a
// version 2 of f (other content) arrives, is validated and takes the place of
// f.wait.  toWait de-duplicates by path and keeps the OLD object, so when p
// is delivered finalize() works with version 1's record: the receive log says
// hash(v1) was delivered while the file in the final directory is v2.
func TestProbeF24TheRecordOfTheDeliveredVersion(t *testing.T) {
	s, _, finalDir, logDir := xNew(t)
	v1 := bytes.Repeat([]byte("1"), 50)
	v2 := bytes.Repeat([]byte("2"), 50)
	p := bytes.Repeat([]byte("P"), 20)
	if err := xSend(s, "p", "", xMD5(p), p, 0, 10, nil); err != nil { // first half only: p stays in progress
		t.Fatal(err)
	}
	if err := xSend(s, "f", "p", xMD5(v1), v1, 0, 50, nil); err != nil {
		t.Fatal(err)
	}
	xWait(t, "f (v1) waiting", func() bool { return s.GetFileStatus("f", time.Now()) == sts.ConfirmWaiting })
	if err := xSend(s, "f", "p", xMD5(v2), v2, 0, 50, nil); err != nil {
		t.Fatal(err)
	}
	xWait(t, "f (v2) validated", func() bool {
		f := s.fromCache(filepath.Join(s.rootDir, "f"))
		return f != nil && f.hash == xMD5(v2) && f.state == stateValidated
	})
	time.Sleep(200 * time.Millisecond) // let the finalize chain park it
	if err := xSend(s, "p", "", xMD5(p), p, 10, 20, nil); err != nil {
		t.Fatal(err)
	}
	xWait(t, "f delivered", func() bool { _, err := os.Stat(filepath.Join(finalDir, "f")); return err == nil })
	time.Sleep(200 * time.Millisecond)
	b, _ := os.ReadFile(filepath.Join(finalDir, "f"))
	var logged string
	for _, l := range xLogLines(t, logDir) {
		if strings.HasPrefix(l, "f:") {
			logged = l
		}
	}
	if !strings.Contains(logged, xMD5(b)) {
		t.Errorf("delivered content has hash %s (v1=%s v2=%s) but the receive log says %q", xMD5(b), xMD5(v1), xMD5(v2), logged)
	}
}
