package sts

import (
	"encoding/json"
	"testing"
)

// F32: a server hands a managed client its configuration by decoding every
// source document on its own and encoding them together.  MarshalJSON cuts
// both pattern lists out of one joined slice, so an OMITTED list (nil) is
// written as "[]" as soon as the other list is present; the client then takes
// it for an explicitly empty list and does not inherit the preceding
// source's.  The same two documents parsed directly do inherit.
func TestProbeF32HandOverKeepsOmittedListsOmitted(t *testing.T) {
	docA := `{"name":"a","target":{"name":"t","http-host":"h:1"},"include":["^keep/"],"ignore":["\\.tmp$"],"tags":[{"pattern":"DEFAULT"}]}`
	docB := `{"name":"b","target":{"name":"t","http-host":"h:1"},"include":["^other/"]}`
	// direct: one document with both sources
	var direct ClientConf
	if err := json.Unmarshal([]byte(`{"sources":[`+docA+`,`+docB+`]}`), &direct); err != nil {
		t.Fatal(err)
	}
	// hand-over: each source decoded on its own, then encoded together, then parsed by the client
	var a, b SourceConf
	if err := json.Unmarshal([]byte(docA), &a); err != nil {
		t.Fatal(err)
	}
	if err := json.Unmarshal([]byte(docB), &b); err != nil {
		t.Fatal(err)
	}
	enc, err := json.Marshal(&ClientConf{Sources: []*SourceConf{&a, &b}})
	if err != nil {
		t.Fatal(err)
	}
	var handed ClientConf
	if err := json.Unmarshal(enc, &handed); err != nil {
		t.Fatal(err)
	}
	pats := func(s *SourceConf) (out []string) {
		for _, p := range s.Ignore {
			out = append(out, p.String())
		}
		return
	}
	d, h := pats(direct.Sources[1]), pats(handed.Sources[1])
	if len(d) != 1 || d[0] != `\.tmp$` {
		t.Fatalf("direct parse: source b ignore = %v, want the inherited [\\.tmp$]", d)
	}
	if len(h) != len(d) || (len(h) > 0 && h[0] != d[0]) {
		t.Errorf("after the hand-over source b ignores %v, parsed directly it ignores %v (encoded: %s)", h, d, enc)
	}
}
