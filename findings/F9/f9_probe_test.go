package sts

import (
	"testing"

	yaml "gopkg.in/yaml.v2"
)

// F9: an explicit `false` for include-hidden (source level) and for the QUIC
// booleans (target level) of a later source is overridden by the preceding
// source's `true`, because these booleans have no "explicitly set" marker.
func TestProbeF9ExplicitFalseIsKept(t *testing.T) {
	doc := `
OUT:
  dirs: {cache: c, logs: l, out: o}
  sources:
    - name: one
      include-hidden: true
      target: {name: t1, http-host: "h:1", quic-disable-0rtt: true, quic-enable-datagrams: true, quic-disable-path-mtu-discovery: true}
      tags:
        - {pattern: DEFAULT}
    - name: two
      include-hidden: false
      target: {name: t2, http-host: "h:2", quic-disable-0rtt: false, quic-enable-datagrams: false, quic-disable-path-mtu-discovery: false}
`
	var conf Conf
	if err := yaml.Unmarshal([]byte(doc), &conf); err != nil {
		t.Fatal(err)
	}
	s := conf.Client.Sources
	if !s[0].IncludeHidden || s[1].IncludeHidden {
		t.Errorf("include-hidden: source one=%v (want true), source two=%v (explicit false, want false)", s[0].IncludeHidden, s[1].IncludeHidden)
	}
	if s[1].Target.QUICDisable0RTT {
		t.Errorf("quic-disable-0rtt: source two has an explicit false but inherited true from source one")
	}
	if s[1].Target.QUICEnableDatagrams {
		t.Errorf("quic-enable-datagrams: source two has an explicit false but inherited true from source one")
	}
	if s[1].Target.QUICDisablePathMTUDiscovery {
		t.Errorf("quic-disable-path-mtu-discovery: source two has an explicit false but inherited true from source one")
	}
}
