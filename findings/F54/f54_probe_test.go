package payload

import (
	"bytes"
	"errors"
	"io"
	"testing"
	"time"

	"github.com/arm-doe/sts"
	"github.com/arm-doe/sts/mock"
)

type f54File struct {
	*mock.File
	alloc int64
}

func (f *f54File) GetPrev() string              { return "" }
func (f *f54File) GetSlice() (int64, int64)     { return 0, f.Size }
func (f *f54File) GetSendSize() int64           { return f.Size }
func (f *f54File) GetNextAlloc() (int64, int64) { return f.alloc, f.Size }
func (f *f54File) AddAlloc(n int64)             { f.alloc += n }
func (f *f54File) IsAllocated() bool            { return f.alloc == f.Size }

// f54Handle yields `good` bytes and then fails with an I/O error.
type f54Handle struct {
	data []byte
	good int
	pos  int
}

func (h *f54Handle) Read(p []byte) (int, error) {
	if h.pos >= h.good {
		return 0, errors.New("input/output error")
	}
	n := copy(p, h.data[h.pos:h.good])
	h.pos += n
	return n, nil
}
func (h *f54Handle) Seek(off int64, whence int) (int64, error) { h.pos = int(off); return off, nil }
func (h *f54Handle) Close() error                               { return nil }

// F54: a read error that is not the end of the file - an I/O error half-way
// through a part - is overwritten when the part's announced length happens to
// be used up by the same Read: the bytes that were never read go out as
// whatever the caller's buffer held (the previous part's bytes, with io.Copy),
// the next part follows, and the stream ends cleanly.
func TestProbeF54AReadErrorEndsTheTransmission(t *testing.T) {
	a := bytes.Repeat([]byte("A"), 10)
	b := bytes.Repeat([]byte("B"), 10)
	opener := func(f sts.File) (sts.Readable, error) {
		if f.GetName() == "a.dat" {
			return &f54Handle{data: a, good: 6}, nil
		}
		return &f54Handle{data: b, good: 10}, nil
	}
	bin := NewBin(1<<20, opener, nil).(*Bin)
	for _, n := range []string{"a.dat", "b.dat"} {
		bin.Add(&f54File{File: &mock.File{Name: n, Path: n, Size: 10, Time: time.Unix(1700000000, 0), Hash: "h"}})
	}
	enc := bin.GetEncoder()
	buf := bytes.Repeat([]byte("#"), 64)
	var out bytes.Buffer
	var encErr error
	for i := 0; i < 100; i++ {
		n, err := enc.Read(buf)
		out.Write(buf[:n])
		if err != nil {
			if err != io.EOF {
				encErr = err
			}
			break
		}
	}
	if encErr == nil {
		t.Errorf("a.dat could be read for 6 of its 10 bytes only; the encoder reports no error and streams %q", out.String())
	}
}
