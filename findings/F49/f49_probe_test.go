package store

import (
	"os"
	"path/filepath"
	"testing"
	"time"

	"github.com/arm-doe/sts/log"
	"github.com/arm-doe/sts/mock"
)

// F49: the minimum age keeps a file that is still being written out of the
// scan.  For a symbolic link the test looks at the LINK's own modification time
// - and then everything that is sent (size, time, content) is the target's.  A
// link that has been there for a while to a file that is being written right
// now is queued: what goes out is whatever the writer had got to.
func TestProbeF49MinAgeIsTheAgeOfWhatIsSent(t *testing.T) {
	log.InitExternal(&mock.Logger{DebugMode: false})
	root := t.TempDir()
	out := filepath.Join(root, "out")
	os.MkdirAll(out, 0o755)
	target := filepath.Join(root, "elsewhere.dat")
	os.WriteFile(target, []byte("begun"), 0o644)
	if err := os.Symlink(target, filepath.Join(out, "l.dat")); err != nil {
		t.Fatal(err)
	}
	time.Sleep(2200 * time.Millisecond)
	os.WriteFile(target, []byte("begun ... and still being written"), 0o644) // the target is touched now
	dir := &Local{Root: out, MinAge: 2 * time.Second}
	files, _, err := dir.Scan(nil)
	if err != nil {
		t.Fatal(err)
	}
	for _, f := range files {
		if age := time.Since(f.GetTime()); age < dir.MinAge {
			t.Errorf("%s is queued: its content was modified %v ago, the minimum age is %v", f.GetName(), age.Round(time.Millisecond), dir.MinAge)
		}
	}
}
