package client

import (
	"testing"
	"time"

	"github.com/arm-doe/sts"
	"github.com/arm-doe/sts/log"
	"github.com/arm-doe/sts/mock"
)

type f20Store struct{}

func (f20Store) Scan(func(sts.File) bool) ([]sts.File, time.Time, error) {
	return nil, time.Time{}, nil
}
func (f20Store) GetOpener() sts.Open             { return nil }
func (f20Store) Remove(sts.File) error           { return nil }
func (f20Store) Sync(sts.File) (sts.File, error) { return nil, nil } // unchanged
func (f20Store) IsNotExist(error) bool           { return false }
func (f20Store) ShouldIgnore(sts.File) bool      { return false }

// F20: the receiver's record of a partly received file may list ranges that
// overlap (stage/companion.go says so itself: a part re-sent with other
// boundaries replaces only the first range it conflicts with).  The gap scan
// of the sender's start-up recovery assumes disjoint ranges: for [0,10) and
// [5,20) it emits the "missing" range {Beg:10, End:5} - a range of negative
// length that Allocate turns into a chunk of negative size.
func TestProbeF20GapScanWithOverlappingParts(t *testing.T) {
	log.InitExternal(&mock.Logger{DebugMode: false})
	cache := mock.NewCache()
	cache.Add(&mock.File{Name: "a.dat", Path: "/out/a.dat", Size: 30, Time: time.Unix(1700000000, 0), Hash: "H"})
	b := &Broker{Conf: &Conf{
		Name:         "probe",
		Store:        f20Store{},
		Cache:        cache,
		PollMaxCount: 100,
		Recoverer: func() ([]*sts.Partial, error) {
			return []*sts.Partial{{Name: "a.dat", Hash: "H", Size: 30, Parts: []*sts.ByteRange{{Beg: 0, End: 10}, {Beg: 5, End: 20}}}}, nil
		},
		Validator: func(p []sts.Pollable) ([]sts.Polled, error) { return nil, nil },
	}}
	send, err := b.recover()
	if err != nil {
		t.Fatal(err)
	}
	if len(send) != 1 {
		t.Fatalf("want the one partly received file, got %d", len(send))
	}
	rf, ok := send[0].(*recoverFile)
	if !ok {
		t.Fatalf("not resumed: %T", send[0])
	}
	var total int64
	for _, c := range rf.left {
		if c.End <= c.Beg {
			t.Errorf("missing range [%d,%d) is empty or inverted", c.Beg, c.End)
		}
		total += c.End - c.Beg
	}
	if len(rf.left) != 1 || rf.left[0].Beg != 20 || rf.left[0].End != 30 {
		t.Errorf("missing ranges %v, want exactly [20,30)", fmtRanges(rf.left))
	}
	if rf.GetSendSize() != 10 {
		t.Errorf("send size %d, want 10", rf.GetSendSize())
	}
}

func fmtRanges(c chunks) (out [][2]int64) {
	for _, r := range c {
		out = append(out, [2]int64{r.Beg, r.End})
	}
	return
}
