package client

import (
	"io"
	"sync"
	"testing"
	"time"

	"github.com/arm-doe/sts"
	"github.com/arm-doe/sts/log"
	"github.com/arm-doe/sts/mock"
)

type f11Part struct{ name string }

func (p *f11Part) GetName() string          { return p.name }
func (p *f11Part) GetRenamed() string       { return "" }
func (p *f11Part) GetPrev() string          { return "" }
func (p *f11Part) GetFileTime() time.Time   { return time.Unix(1, 0) }
func (p *f11Part) GetFileHash() string      { return "h" }
func (p *f11Part) GetFileSize() int64       { return 10 }
func (p *f11Part) GetSendSize() int64       { return 10 }
func (p *f11Part) GetSlice() (int64, int64) { return 0, 10 }

type f11Payload struct{ parts []sts.Binned }

func (p *f11Payload) Add(sts.Binnable) bool         { return false }
func (p *f11Payload) Remove(sts.Binned)             {}
func (p *f11Payload) IsFull() bool                  { return true }
func (p *f11Payload) Split(int) sts.Payload         { return nil }
func (p *f11Payload) GetSize() int64                { return 10 }
func (p *f11Payload) GetParts() []sts.Binned        { return p.parts }
func (p *f11Payload) EncodeHeader() ([]byte, error) { return nil, nil }
func (p *f11Payload) GetEncoder() io.ReadCloser     { return nil }
func (p *f11Payload) GetStarted() time.Time         { return time.Now().Add(-time.Second) }
func (p *f11Payload) GetCompleted() time.Time       { return time.Now() }

type f11Logger struct{}

func (f11Logger) Sent(sts.Sent)                                     {}
func (f11Logger) WasSent(string, string, time.Time, time.Time) bool { return false }

// F11: graceful drain of the tracker.  The input closes while a completed file
// could not yet be handed to the (busy) validator; once the validator takes it
// the tracker has nothing left to do and must return.
func TestProbeF11TrackerDrainTerminates(t *testing.T) {
	log.InitExternal(&mock.Logger{DebugMode: false})
	b := &Broker{Conf: &Conf{Logger: f11Logger{}}}
	b.chTransmitted = make(chan sts.Payload, 2)
	b.chValidate = make(chan sts.Pollable) // validator busy: nobody receives yet
	var wg sync.WaitGroup
	wg.Add(1)
	go b.startTrack(&wg)
	b.chTransmitted <- &f11Payload{parts: []sts.Binned{&f11Part{name: "a.dat"}}}
	time.Sleep(200 * time.Millisecond) // tracker has the complete file, cannot hand it over
	close(b.chTransmitted)             // upstream is done (graceful stop)
	time.Sleep(1500 * time.Millisecond)
	select { // the validator becomes free and takes the file
	case f := <-b.chValidate:
		if f.GetName() != "a.dat" {
			t.Fatalf("unexpected file %s", f.GetName())
		}
	case <-time.After(5 * time.Second):
		t.Fatal("tracker never offered the completed file")
	}
	done := make(chan bool)
	go func() { wg.Wait(); close(done) }()
	select {
	case <-done:
	case <-time.After(5 * time.Second):
		t.Fatal("tracker did not terminate after its input closed and its backlog was drained: Start() would wait for ever on wgValidate")
	}
}
