package main

import (
	"path/filepath"
	"testing"

	"github.com/arm-doe/sts"
	"github.com/arm-doe/sts/log"
	"github.com/arm-doe/sts/store"
	yaml "gopkg.in/yaml.v2"
)

// F18: the transfer method defaults to http - setDefaults says so for every
// tag it visits - but its loop stops at the default tag, which by convention
// (and for inheritance) comes FIRST.  With no `method` written anywhere the
// patterned tags keep method "" and init() treats them as "not http": their
// patterns go onto the store's ignore list and their files are never sent.
func TestProbeF18TagWithoutMethodIsSent(t *testing.T) {
	tmp := t.TempDir()
	doc := `
OUT:
  dirs: {cache: ` + filepath.Join(tmp, "c") + `, logs: ` + filepath.Join(tmp, "l") + `, out: ` + filepath.Join(tmp, "o") + `}
  sources:
    - name: one
      threads: 1
      target: {name: t1, http-host: "localhost:1"}
      tags:
        - {pattern: DEFAULT, priority: 0}
        - {pattern: '^urgent/', priority: 5}
`
	var conf sts.Conf
	if err := yaml.Unmarshal([]byte(doc), &conf); err != nil {
		t.Fatal(err)
	}
	log.Init(filepath.Join(tmp, "msg"), false, nil, nil)
	src := conf.Client.Sources[0]
	src.OutDir = filepath.Join(tmp, "o", src.Name)
	src.LogDir = filepath.Join(tmp, "l", src.Name)
	a := &clientApp{conf: src, dirCache: filepath.Join(tmp, "c")}
	if err := a.init(); err != nil {
		t.Fatal(err)
	}
	st := a.broker.Conf.Store.(*store.Local)
	for _, p := range st.Ignore {
		if p.String() == "^urgent/" {
			t.Errorf("the store ignores ^urgent/: files of that tag (no method given, i.e. http) are never sent")
		}
	}
	for _, tg := range src.Tags {
		if tg.Method != sts.MethodHTTP {
			n := "DEFAULT"
			if tg.Pattern != nil {
				n = tg.Pattern.String()
			}
			t.Errorf("tag %s: effective method %q, want the default %q", n, tg.Method, sts.MethodHTTP)
		}
	}
}
