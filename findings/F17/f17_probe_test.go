package http

import (
	"net/http/httptest"
	"sync"
	"testing"
	"time"

	"github.com/arm-doe/sts"
)

type f17gk struct{ sts.GateKeeper }

// F17: two requests that are the first ones for a source and arrive together
// each get their OWN gatekeeper: getGateKeeper looks the table up under the
// read lock, releases it, builds a gatekeeper and only then takes the write
// lock to file it - without looking again.  Two stages then work on the same
// directories with separate per-file locks, caches and validators.
func TestProbeF17OneGateKeeperPerSource(t *testing.T) {
	var mu sync.Mutex
	built := 0
	inFactory := make(chan struct{}, 2)
	release := make(chan struct{})
	s := &Server{
		GateKeepers: map[string]sts.GateKeeper{},
		GateKeeperFactory: func(source string) sts.GateKeeper {
			mu.Lock()
			built++
			mu.Unlock()
			inFactory <- struct{}{}
			<-release
			return &f17gk{}
		},
	}
	var wg sync.WaitGroup
	got := make([]sts.GateKeeper, 2)
	for i := 0; i < 2; i++ {
		wg.Add(1)
		go func(i int) {
			defer wg.Done()
			r := httptest.NewRequest("PUT", "/data", nil)
			r.Header.Set(HeaderSourceName, "fresh")
			got[i] = s.getGateKeeper(r)
		}(i)
	}
	// let both requests get as far as they can, then let the factory finish
	for n := 0; n < 2; n++ {
		select {
		case <-inFactory:
		case <-time.After(2 * time.Second):
			n = 2 // the second request is (correctly) waiting for the first
		}
	}
	close(release)
	wg.Wait()
	if built != 1 {
		t.Errorf("the gatekeeper factory ran %d times for one source", built)
	}
	if got[0] != got[1] {
		t.Errorf("two concurrent first requests of one source were handed different gatekeepers")
	}
}
