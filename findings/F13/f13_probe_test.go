package stage

import (
	"testing"

	"github.com/arm-doe/sts"
)

// F13: parts of a 30-byte file are received as [0,10) and [10,20), then - after a
// re-send with other boundaries - as [5,15).  The companion now holds the
// overlapping ranges [5,15) and [10,20).  The question "do you hold [8,25)?" is
// answered yes, because the overlaps 7 + 10 happen to add up to the length 17,
// although bytes [20,25) were never received.
func TestProbeF13OverlapSumIsNotCoverage(t *testing.T) {
	cmp := &sts.Partial{Name: "f", Size: 30}
	addCompanionPart(cmp, 0, 10)
	addCompanionPart(cmp, 10, 20)
	addCompanionPart(cmp, 5, 15)
	var held [30]bool
	for _, p := range cmp.Parts {
		for i := p.Beg; i < p.End; i++ {
			held[i] = true
		}
	}
	for _, q := range [][2]int64{{8, 25}, {0, 20}, {5, 20}, {6, 21}} {
		want := true
		for i := q[0]; i < q[1]; i++ {
			if !held[i] {
				want = false
			}
		}
		if got := companionPartExists(cmp, q[0], q[1]); got != want {
			t.Errorf("companionPartExists(%v) with ranges %v,%v = %v, but the bytes on record say %v", q, *cmp.Parts[0], *cmp.Parts[1], got, want)
		}
	}
}
