package http

import "testing"

// F23: filepath.IsLocal also accepts names that resolve to the directory
// itself ("." , "./", "a/..").  Joined under <stage>/<source> such a name IS
// the source's directory: the partial and the companion are created as
// <stage>/<source>.part and <stage>/<source>.cmp - next to, not inside, the
// directory belonging to the source - and the delivery targets <final>/<source>
// itself.
func TestProbeF23NamesThatResolveToTheRootAreRefused(t *testing.T) {
	for _, name := range []string{".", "./", "a/..", "a/b/../..", "./."} {
		if err := validateNames(name); err == nil {
			t.Errorf("file name %q accepted: it names the source's directory itself", name)
		}
		if err := validateNames("ok.dat", name, ""); err == nil {
			t.Errorf("rename target %q accepted", name)
		}
		if err := validateNames("ok.dat", "", name); err == nil {
			t.Errorf("predecessor %q accepted", name)
		}
	}
	for _, name := range []string{"a", "a/b.dat", "a/../b.dat", "./a"} {
		if err := validateNames(name); err != nil {
			t.Errorf("legitimate name %q refused: %v", name, err)
		}
	}
}
