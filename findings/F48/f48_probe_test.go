package payload

import (
	"bytes"
	"io"
	"os"
	"path/filepath"
	"testing"
	"time"

	"github.com/arm-doe/sts"
	"github.com/arm-doe/sts/mock"
	"github.com/arm-doe/sts/store"
)

type f48File struct {
	*mock.File
	alloc int64
}

func (f *f48File) GetPrev() string              { return "" }
func (f *f48File) GetSlice() (int64, int64)     { return 0, f.Size }
func (f *f48File) GetSendSize() int64           { return f.Size }
func (f *f48File) GetNextAlloc() (int64, int64) { return f.alloc, f.Size }
func (f *f48File) AddAlloc(n int64)             { f.alloc += n }
func (f *f48File) IsAllocated() bool            { return f.alloc == f.Size }

var _ sts.Binnable = (*f48File)(nil)

// F48: the header of a payload promises end-beg bytes for every part, and the
// receiver finds the parts by counting.  a.dat (1000 bytes when it was scanned)
// has shrunk to 400 when the payload is read - through a buffer smaller than
// the part, as io.Copy's is for any part above 32 KiB.  At the early end of
// the file the encoder moves on to the next part although it has emitted only
// the first bufferful: everything behind is shifted, b.dat's and c.dat's bytes
// are decoded as a.dat's and b.dat's.
func TestProbeF48AShrunkFileDoesNotShiftTheParts(t *testing.T) {
	dir := t.TempDir()
	specs := []struct {
		name string
		fill byte
		size int
	}{{"a.dat", 'A', 1000}, {"b.dat", 'B', 500}, {"c.dat", 'C', 300}}
	bin := NewBin(1<<20, (&store.Local{}).Open, nil).(*Bin)
	for _, s := range specs {
		path := filepath.Join(dir, s.name)
		os.WriteFile(path, bytes.Repeat([]byte{s.fill}, s.size), 0o644)
		if !bin.Add(&f48File{File: &mock.File{Name: s.name, Path: path, Size: int64(s.size), Time: time.Unix(1700000000, 0), Hash: "h-" + s.name}}) {
			t.Fatal("not binned")
		}
	}
	header, err := bin.EncodeHeader()
	if err != nil {
		t.Fatal(err)
	}
	os.Truncate(filepath.Join(dir, "a.dat"), 400)
	enc := bin.GetEncoder()
	var body bytes.Buffer
	buf := make([]byte, 256)
	var encErr error
	for i := 0; i < 10000; i++ {
		n, err := enc.Read(buf)
		body.Write(buf[:n])
		if err != nil {
			if err != io.EOF {
				encErr = err
			}
			break
		}
	}
	if encErr != nil {
		return // the transmission is aborted: fine
	}
	dec, err := NewDecoder(len(header), "", io.MultiReader(bytes.NewReader(header), &body))
	if err != nil {
		t.Fatal(err)
	}
	for _, s := range specs {
		r, eof := dec.Next()
		if eof {
			t.Fatalf("%s: no such part", s.name)
		}
		got, _ := io.ReadAll(r)
		if s.name == "a.dat" {
			continue // whatever stands in for the missing bytes, a.dat fails its validation
		}
		if !bytes.Equal(got, bytes.Repeat([]byte{s.fill}, s.size)) {
			t.Errorf("%s: %d bytes decoded, %d of them its own (first bytes %q)", s.name, len(got), bytes.Count(got, []byte{s.fill}), got[:min(8, len(got))])
		}
	}
}
