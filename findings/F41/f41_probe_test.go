package client

import (
	"os"
	"path/filepath"
	"testing"
	"time"

	"github.com/arm-doe/sts"
	"github.com/arm-doe/sts/cache"
	"github.com/arm-doe/sts/log"
	"github.com/arm-doe/sts/mock"
	"github.com/arm-doe/sts/store"
)

type f41polled struct{ sts.Pollable }

func (p f41polled) NotFound() bool { return true }
func (p f41polled) Waiting() bool  { return false }
func (p f41polled) Failed() bool   { return false }
func (p f41polled) Received() bool { return false }

type f41logger struct{}

func (f41logger) Sent(sts.Sent)                                     {}
func (f41logger) WasSent(n, h string, a, b time.Time) bool { return false }

// F41: after a restart the sender pairs what the receiver holds partly with its
// own cache entries BY NAME.  The receiver still holds ranges 0-100 and 500-600
// of a 1000-byte version (hash H1) of f; meanwhile f was rewritten - 300 bytes,
// hash H2 - scanned and cached, and the sender went down before sending it.  The
// restart "resumes" H2 with H1's gaps: 100-500 and 600-300(!) of a 300-byte
// file - bytes 0-100 are never sent, one range reaches beyond the end of the
// file.  The receiver starts a fresh record for H2 which can never complete;
// the file is polled `not found` until the attempts run out and only then sent
// whole.
func TestProbeF41ResumeOnlyTheVersionTheReceiverHolds(t *testing.T) {
	log.InitExternal(&mock.Logger{DebugMode: false})
	root := t.TempDir()
	out := filepath.Join(root, "out")
	cdir := filepath.Join(root, "cache")
	os.MkdirAll(out, 0o755)
	os.MkdirAll(cdir, 0o755)
	st := &store.Local{Root: out}
	c, err := cache.NewJSON(cdir, out, "")
	if err != nil {
		t.Fatal(err)
	}
	p := filepath.Join(out, "f.dat")
	os.WriteFile(p, make([]byte, 300), 0o644)
	old := time.Now().Add(-time.Hour)
	os.Chtimes(p, old, old)
	files, _, err := st.Scan(nil)
	if err != nil || len(files) != 1 {
		t.Fatal(err, len(files))
	}
	c.Add(&hashFile{File: files[0], hash: "H2"})
	b := &Broker{Conf: &Conf{Name: "probe", Store: st, Cache: c, Logger: f41logger{},
		Tagger:       func(string) string { return "" },
		Tags:         []*FileTag{{Name: ""}},
		PollMaxCount: 100,
		Recoverer: func() ([]*sts.Partial, error) {
			return []*sts.Partial{{Name: "f.dat", Hash: "H1", Size: 1000,
				Parts: []*sts.ByteRange{{Beg: 0, End: 100}, {Beg: 500, End: 600}}}}, nil
		},
		Validator: func(in []sts.Pollable) (out []sts.Polled, err error) {
			for _, p := range in {
				out = append(out, f41polled{p})
			}
			return
		},
	}}
	b.tagMap = map[string]*FileTag{"": b.Conf.Tags[0]}
	send, err := b.recover()
	if err != nil {
		t.Fatal(err)
	}
	if len(send) != 1 {
		t.Fatalf("%d files to send, want 1", len(send))
	}
	rf, resumed := send[0].(*recoverFile)
	if !resumed {
		return // sent whole: fine
	}
	var covered int64
	for _, r := range rf.left {
		if r.Beg < 0 || r.End > 300 || r.End <= r.Beg {
			t.Errorf("range %d-%d of a 300-byte file", r.Beg, r.End)
		}
		covered += r.End - r.Beg
	}
	if covered != 300 {
		t.Errorf("the receiver holds nothing of version H2, but only %d of its 300 bytes are to be sent (ranges %v)", covered, rf.left)
	}
}
