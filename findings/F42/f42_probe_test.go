package stage

import (
	"bytes"
	"crypto/md5"
	"fmt"
	"io"
	"os"
	"path/filepath"
	"strings"
	"testing"
	"time"

	"github.com/arm-doe/sts"
	"github.com/arm-doe/sts/log"
	"github.com/arm-doe/sts/marshal"
	"github.com/arm-doe/sts/mock"
)

type g42Part struct {
	name, renamed, prev, hash string
	size, beg, end           int64
	t                        time.Time
}

func (p *g42Part) GetName() string          { return p.name }
func (p *g42Part) GetRenamed() string       { return p.renamed }
func (p *g42Part) GetPrev() string          { return p.prev }
func (p *g42Part) GetFileTime() time.Time   { return p.t }
func (p *g42Part) GetFileHash() string      { return p.hash }
func (p *g42Part) GetFileSize() int64       { return p.size }
func (p *g42Part) GetSendSize() int64       { return p.size }
func (p *g42Part) GetSlice() (int64, int64) { return p.beg, p.end }

func g42MD5(b []byte) string { return fmt.Sprintf("%x", md5.Sum(b)) }

func g42Send(s *Stage, name, prev, hash string, content []byte, beg, end int64, r io.Reader) error {
	p := &g42Part{name: name, prev: prev, hash: hash, size: int64(len(content)), beg: beg, end: end, t: time.Now()}
	s.Prepare([]sts.Binned{p})
	if r == nil {
		r = bytes.NewReader(content[beg:end])
	}
	return s.Receive(&sts.Partial{
		Name: name, Prev: prev, Size: int64(len(content)), Hash: hash, Source: "src",
		Time:  marshal.NanoTime{Time: p.t},
		Parts: []*sts.ByteRange{{Beg: beg, End: end}},
	}, r)
}

func g42Wait(t *testing.T, what string, cond func() bool) {
	t.Helper()
	deadline := time.Now().Add(10 * time.Second)
	for time.Now().Before(deadline) {
		if cond() {
			return
		}
		time.Sleep(5 * time.Millisecond)
	}
	t.Fatalf("timed out waiting for %s", what)
}

func g42LogLines(t *testing.T, dir string) (lines []string) {
	filepath.Walk(dir, func(p string, info os.FileInfo, err error) error {
		if err == nil && !info.IsDir() {
			b, _ := os.ReadFile(p)
			for _, l := range strings.Split(string(b), "\n") {
				if l != "" {
					lines = append(lines, l)
				}
			}
		}
		return nil
	})
	return
}

func g42New(t *testing.T) (s *Stage, stageDir, finalDir, logDir string) {
	log.InitExternal(&mock.Logger{DebugMode: false})
	root := t.TempDir()
	stageDir = filepath.Join(root, "stage")
	finalDir = filepath.Join(root, "final")
	logDir = filepath.Join(root, "logs")
	os.MkdirAll(stageDir, 0775)
	os.MkdirAll(finalDir, 0775)
	s = New("x", stageDir, finalDir, log.NewFileIO(logDir, nil, nil, true), nil, nil)
	return
}


// F42: f was delivered and logged.  A retransmission of f (the sender lost the
// answer) is being discarded as a duplicate - Prepare has created f.part again,
// Receive has written the part and the companion and is about to remove both -
// when the receiver dies.  On restart Recover finds a partial with a complete
// companion, promotes it, and OVERWRITES the `logged` entry the receive log has
// just put into the cache with `received`: the file is validated, logged and
// moved into the final directory a second time.
func TestProbeF42LeftoversOfADiscardedDuplicateAreNotDeliveredAgain(t *testing.T) {
	s, stageDir, finalDir, logDir := g42New(t)
	content := bytes.Repeat([]byte("A"), 40)
	hash := g42MD5(content)
	if err := g42Send(s, "f", "", hash, content, 0, 40, nil); err != nil {
		t.Fatal(err)
	}
	g42Wait(t, "f delivered", func() bool { _, err := os.Stat(filepath.Join(finalDir, "f")); return err == nil })
	time.Sleep(200 * time.Millisecond)
	os.Remove(filepath.Join(finalDir, "f")) // taken away by whoever consumes the final directory
	// the crash image of `duplicate being discarded`: partial and complete companion are still there
	os.WriteFile(filepath.Join(stageDir, "f"+partExt), content, 0o600)
	cmp := &sts.Partial{Name: "f", Size: 40, Hash: hash, Source: "src", Parts: []*sts.ByteRange{{Beg: 0, End: 40}}}
	if err := writeCompanion(filepath.Join(stageDir, "f"), cmp); err != nil {
		t.Fatal(err)
	}
	s2 := New("x", stageDir, finalDir, log.NewFileIO(logDir, nil, nil, true), nil, nil)
	s2.Recover()
	time.Sleep(700 * time.Millisecond)
	if _, err := os.Stat(filepath.Join(finalDir, "f")); err == nil {
		t.Errorf("f was moved into the final directory a second time")
	}
	n := 0
	for _, l := range g42LogLines(t, logDir) {
		if strings.HasPrefix(l, "f:") {
			n++
		}
	}
	if n != 1 {
		t.Errorf("%d receive records for f, want 1", n)
	}
	if st := s2.GetFileStatus("f", time.Now().Add(-time.Hour)); st != sts.ConfirmPassed {
		t.Errorf("a poll for f is answered %d, want passed (%d)", st, sts.ConfirmPassed)
	}
}
