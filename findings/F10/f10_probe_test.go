package stage

import (
	"os"
	"path/filepath"
	"testing"
	"time"

	"github.com/arm-doe/sts"
	"github.com/arm-doe/sts/log"
	"github.com/arm-doe/sts/mock"
)

// F10: v1 (hash H1) was delivered in an earlier run and is known from the
// receive log (state logged); a partial of v2 (hash H2) with its companion is
// in the stage area, older than minAge.  cleanStrays keeps the v2 partial
// (hash differs) but must not delete the v2 companion either: it is the only
// record of the parts of v2 already held.
func TestProbeF10CleanStraysKeepsCompanionOfNewVersion(t *testing.T) {
	log.InitExternal(&mock.Logger{DebugMode: false})
	root := t.TempDir()
	stageDir := filepath.Join(root, "stage")
	finalDir := filepath.Join(root, "final")
	logDir := filepath.Join(root, "log")
	os.MkdirAll(stageDir, 0o755)
	s := New("probe", stageDir, finalDir, log.NewFileIO(logDir, nil, nil, false), nil, nil)
	name := "a/b.dat"
	base := filepath.Join(stageDir, name)
	os.MkdirAll(filepath.Dir(base), 0o755)
	// v1 delivered in an earlier run: written to the receive log, then loaded by the cache refill
	s.logger.Received(&finalFile{path: base, name: name, hash: "H1", size: 4})
	s.buildCache(time.Now().Add(-time.Hour))
	if st := s.getFileState(base); st != stateLogged {
		t.Fatalf("setup: state = %d, want logged", st)
	}
	// v2 partial + companion (first half received)
	if err := os.WriteFile(base+partExt, []byte("xxxxxxxx"), 0o644); err != nil {
		t.Fatal(err)
	}
	cmp := &sts.Partial{Name: name, Hash: "H2", Size: 8, Parts: []*sts.ByteRange{{Beg: 0, End: 4}}}
	if err := writeCompanion(base, cmp); err != nil {
		t.Fatal(err)
	}
	old := time.Now().Add(-48 * time.Hour)
	os.Chtimes(base+partExt, old, old)
	s.cleanStrays(24 * time.Hour)
	if _, err := os.Stat(base + partExt); err != nil {
		t.Fatalf("partial of the new version (H2) was deleted: %v", err)
	}
	if _, err := os.Stat(base + compExt); err != nil {
		t.Fatalf("companion of the new version (H2, parts 0:4 on record) was deleted although only H1 was delivered: %v", err)
	}
	got, _ := readLocalCompanion(base, name)
	if got == nil || len(got.Parts) != 1 {
		t.Fatalf("record of the received half is gone: %+v", got)
	}
}
