#!/bin/bash
# usage: probe.sh <pkgdir-under-repo> <probe_test.go> [-run pattern]
# copies the probe into the package, runs it, removes it (nothing stays in /repo)
export GOFLAGS=-mod=mod GOPROXY=off GOSUMDB=off GOTOOLCHAIN=local GOWORK=off PATH=/opt/veriftools/go1.26.8/bin:$PATH
REPO=${REPO:-/repo}
pkg=$1; probe=$2; shift 2
dst=$REPO/$pkg/zz_$(basename $probe)
cp $probe $dst
trap "rm -f $dst" EXIT
cd $REPO/$pkg && go test -count=1 -vet=off -run 'TestProbe' "$@" . 2>&1 | tail -${PROBE_TAIL:-25}
