package cache

import (
	"testing"
	"time"
)

type pf struct {
	name, hash string
	size       int64
	t          time.Time
}

func (f *pf) GetPath() string    { return "/out/" + f.name }
func (f *pf) GetName() string    { return f.name }
func (f *pf) GetSize() int64     { return f.size }
func (f *pf) GetTime() time.Time { return f.t }
func (f *pf) GetMeta() []byte    { return nil }
func (f *pf) GetHash() string    { return f.hash }

// F2: Add(v1) -> Done -> Add(v2): the entry describes v2 but is still "done",
// so the next scan's clean-up may delete v2 although it was never confirmed.
func TestProbeF2DoneDoesNotSurviveNewVersion(t *testing.T) {
	j, err := NewJSON(t.TempDir(), "/out", "")
	if err != nil {
		t.Fatal(err)
	}
	t0 := time.Unix(1700000000, 0)
	j.Add(&pf{name: "a.dat", hash: "H1", size: 10, t: t0})
	j.Done("a.dat", nil)
	if !j.Get("a.dat").IsDone() {
		t.Fatal("setup: not done")
	}
	j.Add(&pf{name: "a.dat", hash: "H2", size: 20, t: t0.Add(time.Hour)})
	c := j.Get("a.dat")
	if c.GetHash() != "H2" {
		t.Fatal("entry not updated")
	}
	if c.IsDone() {
		t.Fatalf("entry now describes version H2 (never confirmed) but is still marked done")
	}
	// same version added again keeps its done state
	j.Done("a.dat", nil)
	j.Add(&pf{name: "a.dat", hash: "H2", size: 20, t: t0.Add(time.Hour)})
	if !j.Get("a.dat").IsDone() {
		t.Fatalf("re-adding the identical version must not lose the done mark")
	}
}
