package client

import (
	"sync"
	"testing"
	"time"

	"github.com/arm-doe/sts"
	"github.com/arm-doe/sts/log"
	"github.com/arm-doe/sts/mock"
	"github.com/arm-doe/sts/queue"
)

// F27: a tag's last-delay withholds the youngest file of a group until it is
// old enough.  When Pop() answers nil for that reason the queue stage blocks
// on its input channel only - it looks at the queue again when the NEXT scan
// finds something.  If nothing new appears, the withheld file is never sent.
func TestProbeF27WithheldFileIsSentWhenDue(t *testing.T) {
	log.InitExternal(&mock.Logger{DebugMode: false})
	q := queue.NewTagged(
		[]*queue.Tag{{Name: "", Order: sts.OrderFIFO, ChunkSize: 100, LastDelay: 1500 * time.Millisecond}},
		func(string) string { return "" }, func(n string) string { return "g" })
	b := &Broker{Conf: &Conf{Name: "probe", Queue: q, Threads: 1}}
	b.chScanned = make(chan []sts.Hashed, 1)
	b.chQueued = make(chan sts.Sendable, 10)
	var wg sync.WaitGroup
	wg.Add(1)
	go b.startQueue(&wg)
	now := time.Now()
	b.chScanned <- []sts.Hashed{
		&mock.File{Name: "g.a", Path: "/o/g.a", Size: 10, Time: now.Add(-time.Hour), Hash: "A"},
		&mock.File{Name: "g.b", Path: "/o/g.b", Size: 10, Time: now, Hash: "B"}, // the last file: withheld for 1.5 s
	}
	got := map[string]bool{}
	deadline := time.After(8 * time.Second)
	for len(got) < 2 {
		select {
		case s := <-b.chQueued:
			got[s.GetName()] = true
		case <-deadline:
			t.Fatalf("only %v left the queue within 8 s: the last file of the group (held back 1.5 s by last-delay) is not looked at again until another scan batch arrives", got)
		}
	}
	b.stopMux.Lock()
	b.stop, b.stopGraceful = true, false
	b.stopMux.Unlock()
	close(b.chScanned)
	wg.Wait()
}
