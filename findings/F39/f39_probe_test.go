package payload

import (
	"strings"
	"testing"
	"time"
)

// F39: the receiver reads the payload header through a pipe that is fed with
// exactly X-STS-MetaLen bytes by a goroutine - which never closes its end.  A
// length that is SMALLER than the header (a cut or malformed request) leaves
// the JSON decoder waiting for the rest of the value on a pipe nobody will
// write to or close: the request is not refused, its handler never returns.
func TestProbeF39ShortMetaLenIsRefused(t *testing.T) {
	header := `[{"n":"dir/a.dat","h":"0123456789abcdef0123456789abcdef","s":10,"b":0,"e":10}]`
	body := header + "0123456789"
	type res struct{ err error }
	done := make(chan res, 1)
	go func() {
		_, err := NewDecoder(len(header)-7, "", strings.NewReader(body))
		done <- res{err}
	}()
	select {
	case r := <-done:
		if r.err == nil {
			t.Errorf("a header cut 7 bytes short was decoded without an error")
		}
	case <-time.After(3 * time.Second):
		t.Errorf("NewDecoder did not return within 3 s for a meta length 7 bytes short of the header: the request hangs instead of being refused")
	}
}

// ... and the everyday form of the same: the connection is cut while the header
// is still on its way (with a declared length, and without one as in the
// `which of these parts did you receive` request).
func TestProbeF39BodyEndsInsideTheHeader(t *testing.T) {
	header := `[{"n":"dir/a.dat","h":"0123456789abcdef0123456789abcdef","s":10,"b":0,"e":10}]`
	for _, n := range []int{len(header), 0} {
		done := make(chan error, 1)
		go func() {
			_, err := NewDecoder(n, "", strings.NewReader(header[:20]))
			done <- err
		}()
		select {
		case err := <-done:
			if err == nil {
				t.Errorf("meta length %d: a header that ends after 20 bytes was decoded without an error", n)
			}
		case <-time.After(3 * time.Second):
			t.Errorf("meta length %d: the body ends inside the header and NewDecoder does not return: the request hangs instead of being refused", n)
		}
	}
}
