package queue

import (
	"regexp"
	"testing"
	"time"

	"github.com/arm-doe/sts"
	"github.com/arm-doe/sts/log"
	"github.com/arm-doe/sts/mock"
)

// F50: g1.a has been emitted completely; the queue keeps it as the place holder
// at the head of its group "only so the prev can be properly maintained".
// g1.b is pushed - and pushed again before it is popped (it was rewritten and
// scanned again).  The second push takes the first g1.b out: the head becomes
// nil, the place holder is cut loose - and the new g1.b, alone in its group,
// is announced with NO predecessor although g1.a went out just before it.
func TestProbeF50ARePushedFileKeepsItsPredecessor(t *testing.T) {
	log.InitExternal(&mock.Logger{DebugMode: false})
	groupBy := regexp.MustCompile(`^([^\.]*)`)
	tagger := func(string) string { return "" }
	grouper := func(name string) string {
		if m := groupBy.FindStringSubmatch(name); len(m) > 1 && m[1] != "" && m[1] != name {
			return m[1]
		}
		return ""
	}
	q := NewTagged([]*Tag{{Name: "", Order: sts.OrderFIFO}}, tagger, grouper)
	now := time.Now()
	q.Push([]sts.Hashed{&mock.File{Name: "g1.a", Size: 10, Time: now.Add(-3 * time.Minute), Hash: "ha"}})
	a := q.Pop()
	if a == nil || a.GetName() != "g1.a" {
		t.Fatalf("set-up: %v", a)
	}
	q.Push([]sts.Hashed{&mock.File{Name: "g1.b", Size: 10, Time: now.Add(-2 * time.Minute), Hash: "hb1"}})
	q.Push([]sts.Hashed{&mock.File{Name: "g1.b", Size: 12, Time: now.Add(-1 * time.Minute), Hash: "hb2"}}) // rewritten, scanned again
	b := q.Pop()
	if b == nil || b.GetName() != "g1.b" || b.GetHash() != "hb2" {
		t.Fatalf("expected the new g1.b, got %v", b)
	}
	if b.GetPrev() != "g1.a" {
		t.Errorf("g1.b announces predecessor %q, want \"g1.a\" (emitted completely just before it)", b.GetPrev())
	}
}

// ... and the neighbour that must keep working (it did not with the first
// version of the repair, which let Pop's own removeFile fall back to the OLD
// place holder): three files emitted one after another announce each other.
func TestProbeF50ChainOfCompletedFiles(t *testing.T) {
	log.InitExternal(&mock.Logger{DebugMode: false})
	groupBy := regexp.MustCompile(`^([^\.]*)`)
	tagger := func(string) string { return "" }
	grouper := func(name string) string {
		if m := groupBy.FindStringSubmatch(name); len(m) > 1 && m[1] != "" && m[1] != name {
			return m[1]
		}
		return ""
	}
	q := NewTagged([]*Tag{{Name: "", Order: sts.OrderFIFO}}, tagger, grouper)
	now := time.Now()
	want := ""
	for i, n := range []string{"g1.a", "g1.b", "g1.c", "g1.d"} {
		q.Push([]sts.Hashed{&mock.File{Name: n, Size: 10, Time: now.Add(time.Duration(i-10) * time.Minute), Hash: "h" + n}})
		f := q.Pop()
		if f == nil || f.GetName() != n {
			t.Fatalf("expected %s, got %v", n, f)
		}
		if f.GetPrev() != want {
			t.Errorf("%s announces predecessor %q, want %q", n, f.GetPrev(), want)
		}
		want = n
	}
}
