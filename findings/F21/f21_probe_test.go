package stage

import (
	"fmt"
	"os"
	"path/filepath"
	"sync/atomic"
	"testing"
	"time"

	"github.com/arm-doe/sts/log"
	"github.com/arm-doe/sts/mock"
)

// F21: cleanWaiting holds cacheLock.RLock for its whole body and, when it
// finds a wait loop, calls fromCache - which takes cacheLock.RLock again.  A
// writer queued in between (toCache: any file being received) makes the inner
// read lock wait for the writer, which waits for the outer read lock: the
// cleaner and, behind it, every user of the cache hang for good.
func TestProbeF21CleaningDoesNotWedgeTheCache(t *testing.T) {
	log.InitExternal(&mock.Logger{DebugMode: false})
	root := t.TempDir()
	stageDir := filepath.Join(root, "stage")
	os.MkdirAll(stageDir, 0o755)
	s := New("probe", stageDir, filepath.Join(root, "final"), log.NewFileIO(filepath.Join(root, "log"), nil, nil, false), nil, nil)
	mk := func(name, prev string) *finalFile {
		return &finalFile{path: filepath.Join(stageDir, name), name: name, prev: prev, hash: "H" + name, size: 1}
	}
	// a wait loop: a waits for b, b waits for a (both validated and parked)
	a, b := mk("a", "b"), mk("b", "a")
	s.toCache(a, stateValidated)
	s.toCache(b, stateValidated)
	s.toWait(b.path, a, 0)
	s.toWait(a.path, b, 0)
	// plenty of other validated files with predecessors so that the cleaner's first phase takes a moment
	for i := 0; i < 20000; i++ {
		s.toCache(mk(fmt.Sprintf("x%05d", i), fmt.Sprintf("p%05d", i)), stateValidated)
	}
	// a receiver at work: cache writes keep coming
	var stop atomic.Bool
	wdone := make(chan struct{})
	go func() {
		defer close(wdone)
		f := mk("incoming", "")
		for !stop.Load() {
			s.toCache(f, stateReceived)
		}
	}()
	done := make(chan struct{})
	go func() { s.cleanWaiting(); close(done) }()
	select {
	case <-done:
	case <-time.After(10 * time.Second):
		t.Fatal("cleanWaiting did not return within 10 s while cache writes were arriving: recursive read lock on cacheLock (the writer that slipped in between blocks it, and everything else, for ever)")
	}
	stop.Store(true)
	<-wdone
}
