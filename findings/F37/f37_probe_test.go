package stage

import (
	"bytes"
	"crypto/md5"
	"fmt"
	"io"
	"os"
	"path/filepath"
	"strings"
	"testing"
	"time"

	"github.com/arm-doe/sts"
	"github.com/arm-doe/sts/log"
	"github.com/arm-doe/sts/marshal"
	"github.com/arm-doe/sts/mock"
)

type g37Part struct {
	name, renamed, prev, hash string
	size, beg, end           int64
	t                        time.Time
}

func (p *g37Part) GetName() string          { return p.name }
func (p *g37Part) GetRenamed() string       { return p.renamed }
func (p *g37Part) GetPrev() string          { return p.prev }
func (p *g37Part) GetFileTime() time.Time   { return p.t }
func (p *g37Part) GetFileHash() string      { return p.hash }
func (p *g37Part) GetFileSize() int64       { return p.size }
func (p *g37Part) GetSendSize() int64       { return p.size }
func (p *g37Part) GetSlice() (int64, int64) { return p.beg, p.end }

func g37MD5(b []byte) string { return fmt.Sprintf("%x", md5.Sum(b)) }

func g37Send(s *Stage, name, prev, hash string, content []byte, beg, end int64, r io.Reader) error {
	p := &g37Part{name: name, prev: prev, hash: hash, size: int64(len(content)), beg: beg, end: end, t: time.Now()}
	s.Prepare([]sts.Binned{p})
	if r == nil {
		r = bytes.NewReader(content[beg:end])
	}
	return s.Receive(&sts.Partial{
		Name: name, Prev: prev, Size: int64(len(content)), Hash: hash, Source: "src",
		Time:  marshal.NanoTime{Time: p.t},
		Parts: []*sts.ByteRange{{Beg: beg, End: end}},
	}, r)
}

func g37Wait(t *testing.T, what string, cond func() bool) {
	t.Helper()
	deadline := time.Now().Add(10 * time.Second)
	for time.Now().Before(deadline) {
		if cond() {
			return
		}
		time.Sleep(5 * time.Millisecond)
	}
	t.Fatalf("timed out waiting for %s", what)
}

func g37LogLines(t *testing.T, dir string) (lines []string) {
	filepath.Walk(dir, func(p string, info os.FileInfo, err error) error {
		if err == nil && !info.IsDir() {
			b, _ := os.ReadFile(p)
			for _, l := range strings.Split(string(b), "\n") {
				if l != "" {
					lines = append(lines, l)
				}
			}
		}
		return nil
	})
	return
}

func g37New(t *testing.T) (s *Stage, stageDir, finalDir, logDir string) {
	log.InitExternal(&mock.Logger{DebugMode: false})
	root := t.TempDir()
	stageDir = filepath.Join(root, "stage")
	finalDir = filepath.Join(root, "final")
	logDir = filepath.Join(root, "logs")
	os.MkdirAll(stageDir, 0775)
	os.MkdirAll(finalDir, 0775)
	s = New("x", stageDir, finalDir, log.NewFileIO(logDir, nil, nil, true), nil, nil)
	return
}


// F37: version 1 of f is validated and parked (f.wait) behind its predecessor;
// the source rewrites f and the first part of version 2 arrives: Prepare
// creates f.part, Receive starts a NEW companion (other hash) - correct so
// far, version 1 stays parked until version 2 is complete and validated.  The
// receiver dies here.  Recover() sees f.cmp next to f.wait and takes the
// companion for the description of f.wait: it queues "f, hash(v2), size(v2)"
// for delivery without looking at a byte.  When the predecessor is in, the
// receive log says version 2 was delivered, the file in the final directory
// holds version 1, and the sender - asking about version 2 - is told
// `received` and releases (deletes) the only copy of version 2.
func TestProbeF37RecoverParkedFileUnderRewrittenCompanion(t *testing.T) {
	s, stageDir, finalDir, logDir := g37New(t)
	v1 := bytes.Repeat([]byte("1"), 50)
	v2 := bytes.Repeat([]byte("2"), 60)
	p := bytes.Repeat([]byte("P"), 20)
	if err := g37Send(s, "p", "", g37MD5(p), p, 0, 10, nil); err != nil { // first half only: p stays in progress
		t.Fatal(err)
	}
	if err := g37Send(s, "f", "p", g37MD5(v1), v1, 0, 50, nil); err != nil {
		t.Fatal(err)
	}
	g37Wait(t, "f (v1) waiting", func() bool { return s.GetFileStatus("f", time.Now()) == sts.ConfirmWaiting })
	time.Sleep(200 * time.Millisecond)
	if err := g37Send(s, "f", "p", g37MD5(v2), v2, 0, 30, nil); err != nil { // first half of version 2
		t.Fatal(err)
	}
	for _, ext := range []string{waitExt, partExt, compExt} {
		if _, err := os.Stat(filepath.Join(stageDir, "f"+ext)); err != nil {
			t.Fatalf("set-up: f%s expected on the stage: %v", ext, err)
		}
	}
	// the receiver dies and comes back
	s2 := New("x", stageDir, finalDir, log.NewFileIO(logDir, nil, nil, true), nil, nil)
	s2.Recover()
	if st := s2.GetFileStatus("f", time.Now()); st == sts.ConfirmWaiting || st == sts.ConfirmPassed {
		if h := s2.getFileHash(filepath.Join(s2.rootDir, "f")); h == g37MD5(v2) {
			t.Errorf("after recovery the receiver says it holds version 2 of f validated (status %d); it holds 30 of its 60 bytes", st)
		}
	}
	if err := g37Send(s2, "p", "", g37MD5(p), p, 10, 20, nil); err != nil {
		t.Fatal(err)
	}
	g37Wait(t, "p delivered", func() bool { _, err := os.Stat(filepath.Join(finalDir, "p")); return err == nil })
	time.Sleep(500 * time.Millisecond)
	got, err := os.ReadFile(filepath.Join(finalDir, "f"))
	if err != nil {
		return // nothing delivered: version 2 is still to come
	}
	for _, l := range g37LogLines(t, logDir) {
		if strings.HasPrefix(l, "f:") {
			parts := strings.Split(l, ":")
			if parts[2] != g37MD5(got) {
				t.Errorf("receive log: %q - but the delivered f has MD5 %s (version 1 is %s, version 2 is %s)", l, g37MD5(got), g37MD5(v1), g37MD5(v2))
			}
		}
	}
}

// ... and the two neighbours of F37 that must keep working: (a) after the
// recovery the rest of version 2 arrives and version 2 is delivered whole;
// (b) a parked file next to the partial of a DUPLICATE of itself (a re-sent
// part of the same version, the receiver dying before it was discarded) is
// still recovered as parked and delivered.
func TestProbeF37Neighbours(t *testing.T) {
	t.Run("version 2 completes after recovery", func(t *testing.T) {
		s, stageDir, finalDir, logDir := g37New(t)
		v1 := bytes.Repeat([]byte("1"), 50)
		v2 := bytes.Repeat([]byte("2"), 60)
		p := bytes.Repeat([]byte("P"), 20)
		g37Send(s, "p", "", g37MD5(p), p, 0, 10, nil)
		g37Send(s, "f", "p", g37MD5(v1), v1, 0, 50, nil)
		g37Wait(t, "f (v1) waiting", func() bool { return s.GetFileStatus("f", time.Now()) == sts.ConfirmWaiting })
		time.Sleep(200 * time.Millisecond)
		g37Send(s, "f", "p", g37MD5(v2), v2, 0, 30, nil)
		s2 := New("x", stageDir, finalDir, log.NewFileIO(logDir, nil, nil, true), nil, nil)
		s2.Recover()
		if err := g37Send(s2, "f", "p", g37MD5(v2), v2, 30, 60, nil); err != nil {
			t.Fatal(err)
		}
		if err := g37Send(s2, "p", "", g37MD5(p), p, 10, 20, nil); err != nil {
			t.Fatal(err)
		}
		g37Wait(t, "f delivered", func() bool { _, err := os.Stat(filepath.Join(finalDir, "f")); return err == nil })
		time.Sleep(300 * time.Millisecond)
		got, _ := os.ReadFile(filepath.Join(finalDir, "f"))
		if !bytes.Equal(got, v2) {
			t.Errorf("delivered f is not version 2 (MD5 %s)", g37MD5(got))
		}
		n := 0
		for _, l := range g37LogLines(t, logDir) {
			if strings.HasPrefix(l, "f:") {
				n++
				if strings.Split(l, ":")[2] != g37MD5(v2) {
					t.Errorf("receive log: %q", l)
				}
			}
		}
		if n != 1 {
			t.Errorf("%d receive records for f, want 1", n)
		}
	})
	t.Run("parked file next to a duplicate's partial", func(t *testing.T) {
		s, stageDir, finalDir, logDir := g37New(t)
		v1 := bytes.Repeat([]byte("1"), 50)
		p := bytes.Repeat([]byte("P"), 20)
		g37Send(s, "p", "", g37MD5(p), p, 0, 10, nil)
		g37Send(s, "f", "p", g37MD5(v1), v1, 0, 50, nil)
		g37Wait(t, "f (v1) waiting", func() bool { return s.GetFileStatus("f", time.Now()) == sts.ConfirmWaiting })
		time.Sleep(200 * time.Millisecond)
		s.Prepare([]sts.Binned{&g37Part{name: "f", prev: "p", hash: g37MD5(v1), size: 50, beg: 0, end: 50, t: time.Now()}}) // the duplicate is announced, then the receiver dies
		if _, err := os.Stat(filepath.Join(stageDir, "f"+partExt)); err != nil {
			t.Fatalf("set-up: f.part expected: %v", err)
		}
		s2 := New("x", stageDir, finalDir, log.NewFileIO(logDir, nil, nil, true), nil, nil)
		s2.Recover()
		if st := s2.GetFileStatus("f", time.Now()); st != sts.ConfirmWaiting && st != sts.ConfirmPassed {
			t.Errorf("after recovery f has status %d, want validated (passed or waiting)", st)
		}
		g37Send(s2, "p", "", g37MD5(p), p, 10, 20, nil)
		g37Wait(t, "f delivered", func() bool { _, err := os.Stat(filepath.Join(finalDir, "f")); return err == nil })
		got, _ := os.ReadFile(filepath.Join(finalDir, "f"))
		if !bytes.Equal(got, v1) {
			t.Errorf("delivered f is not version 1")
		}
	})
}
