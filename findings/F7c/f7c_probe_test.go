package log

import (
	"testing"
	"time"
)

type f7cFile struct{ name, renamed, hash string }

func (f *f7cFile) GetName() string    { return f.name }
func (f *f7cFile) GetRenamed() string { return f.renamed }
func (f *f7cFile) GetHash() string    { return f.hash }
func (f *f7cFile) GetSize() int64     { return 42 }

// F7c: a file name containing the record separator ':' is written unescaped;
// replaying the receive log then yields other fields than were written, and the
// look-up with the file's hash says no.
func TestProbeF7cSeparatorInName(t *testing.T) {
	l := NewFileIO(t.TempDir(), nil, nil, false)
	l.Received(&f7cFile{name: "dir/c:d.dat", hash: "abc123"})
	day := time.Now()
	var gotName, gotRenamed, gotHash string
	l.Parse(func(name, renamed, hash string, size int64, tm time.Time) bool {
		gotName, gotRenamed, gotHash = name, renamed, hash
		return false
	}, day.Add(-time.Hour), day.Add(time.Hour))
	if gotName != "dir/c:d.dat" || gotRenamed != "" || gotHash != "abc123" {
		t.Errorf("replay yields name=%q renamed=%q hash=%q, written: name=%q renamed=%q hash=%q", gotName, gotRenamed, gotHash, "dir/c:d.dat", "", "abc123")
	}
	if !l.WasReceived("dir/c:d.dat", "abc123", day.Add(-time.Hour), day.Add(time.Hour)) {
		t.Errorf("WasReceived(name, hash) says no for a record that was written")
	}
}
