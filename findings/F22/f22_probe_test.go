package stage

import (
	"bytes"
	"fmt"
	"os"
	"path/filepath"
	"sync"
	"testing"
	"time"

	"github.com/arm-doe/sts"
	"github.com/arm-doe/sts/log"
	"github.com/arm-doe/sts/mock"
)

type f22part struct {
	name, hash string
	size       int64
	beg, end   int64
}

func (p *f22part) GetName() string          { return p.name }
func (p *f22part) GetRenamed() string       { return "" }
func (p *f22part) GetPrev() string          { return "" }
func (p *f22part) GetFileTime() time.Time   { return time.Now() }
func (p *f22part) GetFileHash() string      { return p.hash }
func (p *f22part) GetFileSize() int64       { return p.size }
func (p *f22part) GetSendSize() int64       { return p.size }
func (p *f22part) GetSlice() (int64, int64) { return p.beg, p.end }

// F22: the per-file lock is a map entry that delPathLock removes while other
// goroutines may still hold or wait on the mutex it pointed to (partReceived
// does it while holding the lock when it finds nothing on record; finalize
// right after unlocking).  Whoever asks next gets a NEW mutex, so two writers
// update one companion at the same time and an acknowledged part disappears
// from the record.  Stress: several connections deliver distinct parts of one
// file while the sender's "which of these do you hold?" question is asked.
func TestProbeF22AcknowledgedPartsStayOnRecord(t *testing.T) {
	log.InitExternal(&mock.Logger{DebugMode: false})
	root := t.TempDir()
	stageDir := filepath.Join(root, "stage")
	os.MkdirAll(stageDir, 0o755)
	s := New("probe", stageDir, filepath.Join(root, "final"), log.NewFileIO(filepath.Join(root, "log"), nil, nil, false), nil, nil)
	const nParts, partLen = 8, 16
	deadline := time.Now().Add(40 * time.Second)
	for it := 0; time.Now().Before(deadline); it++ {
		name := fmt.Sprintf("d/f%06d.dat", it)
		size := int64(nParts*partLen + partLen) // never completes: one part is not sent
		s.Prepare([]sts.Binned{&f22part{name: name, hash: "H", size: size}})
		var wg sync.WaitGroup
		start := make(chan struct{})
		errs := make([]error, nParts)
		for i := 0; i < nParts; i++ {
			wg.Add(1)
			go func(i int) {
				defer wg.Done()
				<-start
				beg := int64(i * partLen)
				errs[i] = s.Receive(&sts.Partial{Name: name, Hash: "H", Size: size, Parts: []*sts.ByteRange{{Beg: beg, End: beg + partLen}}},
					bytes.NewReader(make([]byte, partLen)))
			}(i)
		}
		for q := 0; q < 4; q++ {
			wg.Add(1)
			go func() {
				defer wg.Done()
				<-start
				s.Received([]sts.Binned{&f22part{name: name, hash: "H", size: size, beg: size - partLen, end: size}})
			}()
		}
		close(start)
		wg.Wait()
		cmp, err := readLocalCompanion(filepath.Join(stageDir, name), name)
		if err != nil || cmp == nil {
			t.Fatalf("iteration %d: companion unreadable: %v", it, err)
		}
		on := map[int64]bool{}
		for _, p := range cmp.Parts {
			on[p.Beg] = true
		}
		for i := 0; i < nParts; i++ {
			if errs[i] == nil && !on[int64(i*partLen)] {
				t.Fatalf("iteration %d: part [%d,%d) was acknowledged (Receive returned nil) but is not on the record %v", it, i*partLen, (i+1)*partLen, len(cmp.Parts))
			}
		}
		os.Remove(filepath.Join(stageDir, name) + partExt)
		os.Remove(filepath.Join(stageDir, name) + compExt)
	}
}
