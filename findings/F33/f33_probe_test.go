package sts

import (
	"encoding/json"
	"testing"

	yaml "gopkg.in/yaml.v2"
)

// F33: source two omits `include` and inherits source one's list - the same
// slice header, cut out of the array that also holds source one's ignore
// patterns, so its capacity reaches over them.  SourceConf.MarshalJSON joins
// the lists with append(ss.Include, ss.Ignore...): for source two that append
// fits into the spare capacity and writes source TWO's ignore patterns over
// source ONE's.  Encoding the configuration changes it.
// (Latent until omitted lists were made inheritable - F15 - and exposed by
// the re-run of seed C19-c's demonstration on the repaired tree.)
func TestProbeF33EncodingDoesNotChangeTheConfiguration(t *testing.T) {
	doc := `
OUT:
  dirs: {cache: c, logs: l, out: o}
  sources:
    - name: one
      target: {name: t1, http-host: "h:1"}
      include: ['^raw/', '^proc/']
      ignore: ['\.tmp$']
      tags:
        - {pattern: DEFAULT}
    - name: two
      target: {name: t2, http-host: "h:2"}
      ignore: ['\.lck$', '\.part$']
`
	var conf Conf
	if err := yaml.Unmarshal([]byte(doc), &conf); err != nil {
		t.Fatal(err)
	}
	list := func(s *SourceConf) (out []string) {
		for _, p := range s.Ignore {
			out = append(out, p.String())
		}
		return
	}
	before := list(conf.Client.Sources[0])
	first, err := json.Marshal(conf.Client)
	if err != nil {
		t.Fatal(err)
	}
	after := list(conf.Client.Sources[0])
	if len(before) != len(after) || before[0] != after[0] {
		t.Errorf("json.Marshal changed source one's ignore list: %v -> %v", before, after)
	}
	second, _ := json.Marshal(conf.Client)
	if string(first) != string(second) {
		t.Errorf("encoding the same configuration twice gives different documents")
	}
}
