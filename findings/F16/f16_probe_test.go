package sts

import (
	"fmt"
	"reflect"
	"strings"
	"testing"
	"time"

	yaml "gopkg.in/yaml.v2"
)

// F16: an explicit zero of a numeric / duration option is indistinguishable
// from "omitted" and is overridden by the value of the preceding source (or of
// the default tag, or of the preceding source's target).  One sub-test per
// option; the YAML key is taken from the parser struct's tag.
func TestProbeF16ExplicitZeroIsKept(t *testing.T) {
	isNum := func(k reflect.Kind) bool {
		switch k {
		case reflect.Int, reflect.Int8, reflect.Int16, reflect.Int32, reflect.Int64,
			reflect.Uint, reflect.Uint8, reflect.Uint16, reflect.Uint32, reflect.Uint64, reflect.Float32, reflect.Float64:
			return true
		}
		return false
	}
	key := func(aux reflect.Type, name string) string {
		f, ok := aux.FieldByName(name)
		if !ok {
			return ""
		}
		return strings.Split(f.Tag.Get("yaml"), ",")[0]
	}
	lit := func(ft reflect.Type, zero bool) string {
		if ft == reflect.TypeOf(time.Duration(0)) {
			if zero {
				return "0s"
			}
			return "90s"
		}
		if strings.Contains(ft.String(), "Bytes") {
			if zero {
				return "0B"
			}
			return "3MiB"
		}
		if zero {
			return "0"
		}
		return "3"
	}
	type lvl struct {
		typ, aux reflect.Type
		doc      func(k, a, b string) string
		get      func(c *Conf) reflect.Value
	}
	levels := []lvl{
		{reflect.TypeOf(SourceConf{}), reflect.TypeOf(auxSourceConf{}),
			func(k, a, b string) string {
				return fmt.Sprintf("OUT:\n  dirs: {cache: c, logs: l, out: o}\n  sources:\n    - name: one\n      %s: %s\n      target: {name: t1, http-host: \"h:1\"}\n      tags:\n        - {pattern: DEFAULT}\n    - name: two\n      %s: %s\n", k, a, k, b)
			},
			func(c *Conf) reflect.Value { return reflect.ValueOf(*c.Client.Sources[1]) }},
		{reflect.TypeOf(TagConf{}), reflect.TypeOf(auxTagConf{}),
			func(k, a, b string) string {
				return fmt.Sprintf("OUT:\n  dirs: {cache: c, logs: l, out: o}\n  sources:\n    - name: one\n      target: {name: t1, http-host: \"h:1\"}\n      tags:\n        - {pattern: DEFAULT, %s: %s}\n        - {pattern: '^x/', %s: %s}\n", k, a, k, b)
			},
			func(c *Conf) reflect.Value { return reflect.ValueOf(*c.Client.Sources[0].Tags[1]) }},
		{reflect.TypeOf(TargetConf{}), reflect.TypeOf(auxTargetConf{}),
			func(k, a, b string) string {
				return fmt.Sprintf("OUT:\n  dirs: {cache: c, logs: l, out: o}\n  sources:\n    - name: one\n      target: {name: t1, http-host: \"h:1\", %s: %s}\n      tags:\n        - {pattern: DEFAULT}\n    - name: two\n      target: {name: t2, http-host: \"h:2\", %s: %s}\n", k, a, k, b)
			},
			func(c *Conf) reflect.Value { return reflect.ValueOf(*c.Client.Sources[1].Target) }},
	}
	for _, l := range levels {
		for i := 0; i < l.typ.NumField(); i++ {
			f := l.typ.Field(i)
			if f.PkgPath != "" || !isNum(f.Type.Kind()) {
				continue
			}
			k := key(l.aux, f.Name)
			if k == "" {
				continue
			}
			t.Run(l.typ.Name()+"."+f.Name, func(t *testing.T) {
				var conf Conf
				doc := l.doc(k, lit(f.Type, false), lit(f.Type, true))
				if err := yaml.Unmarshal([]byte(doc), &conf); err != nil {
					t.Skipf("document not accepted for %s: %v", k, err)
				}
				got := l.get(&conf).FieldByName(f.Name)
				if !got.IsZero() {
					t.Errorf("%s: explicit %s became %v (inherited)", k, lit(f.Type, true), got.Interface())
				}
			})
		}
	}
}
