package main

import (
	"net"
	"testing"
	"time"

	"github.com/arm-doe/sts/log"
	"github.com/arm-doe/sts/mock"
)

// F6: with -iport given, run() ends with stopInternalServer(), which must
// return once the internal server has shut down.
func TestProbeF6InternalServerStops(t *testing.T) {
	log.InitExternal(&mock.Logger{DebugMode: false})
	l, err := net.Listen("tcp", "localhost:0")
	if err != nil {
		t.Skip(err)
	}
	port := l.Addr().(*net.TCPAddr).Port
	l.Close()
	a := &app{iPort: port}
	a.startInternalServer()
	time.Sleep(200 * time.Millisecond)
	done := make(chan bool)
	go func() {
		a.stopInternalServer()
		done <- true
	}()
	select {
	case <-done:
	case <-time.After(3 * time.Second):
		t.Fatal("stopInternalServer() never returns: nobody receives from iServerStop")
	}
}
