package stage

import (
	"os"
	"path/filepath"
	"testing"
	"time"

	"github.com/arm-doe/sts"
	"github.com/arm-doe/sts/log"
	"github.com/arm-doe/sts/mock"
)

// F1: v1 (hash H1) was delivered and is cached as finalized; a partial of v2
// (hash H2) is in the stage area, older than minAge.  cleanStrays must not
// delete the v2 partial, because its companion names another hash.
func TestProbeF1CleanStraysKeepsNewVersion(t *testing.T) {
	log.InitExternal(&mock.Logger{DebugMode: false})
	root := t.TempDir()
	stageDir := filepath.Join(root, "stage")
	finalDir := filepath.Join(root, "final")
	logDir := filepath.Join(root, "log")
	os.MkdirAll(stageDir, 0o755)
	s := New("probe", stageDir, finalDir, log.NewFileIO(logDir, nil, nil, false), nil, nil)
	name := "a/b.dat"
	base := filepath.Join(stageDir, name)
	os.MkdirAll(filepath.Dir(base), 0o755)
	// v1 known as finalized
	s.toCache(&finalFile{path: base, name: name, hash: "H1", size: 4}, stateFinalized)
	// v2 partial + companion
	if err := os.WriteFile(base+partExt, []byte("xxxx"), 0o644); err != nil {
		t.Fatal(err)
	}
	cmp := &sts.Partial{Name: name, Hash: "H2", Size: 8, Parts: []*sts.ByteRange{{Beg: 0, End: 4}}}
	if err := writeCompanion(base, cmp); err != nil {
		t.Fatal(err)
	}
	old := time.Now().Add(-48 * time.Hour)
	os.Chtimes(base+partExt, old, old)
	s.cleanStrays(24 * time.Hour)
	if _, err := os.Stat(base + partExt); err != nil {
		t.Fatalf("partial of the new version (H2) was deleted although only H1 was delivered: %v", err)
	}
}
