package http

import (
	"strings"
	"testing"

	"github.com/arm-doe/sts/payload"
)

// F52: the receiver checks the NAMES in a payload header before it touches
// anything - but not the byte ranges.  A header whose part ends before it
// begins, begins below zero, or reaches beyond the size it announces passes
// validateParts; Prepare then creates and sizes the staged file, and only the
// part decoder trips over the range - by panicking (slice bounds out of range)
// in the middle of the request.
func TestProbeF52PartRangesAreValidatedWithTheNames(t *testing.T) {
	for _, hdr := range []string{
		`[{"n":"d/a.dat","f":"00","s":10,"b":8,"e":3}]`,
		`[{"n":"d/a.dat","f":"00","s":10,"b":-4,"e":3}]`,
		`[{"n":"d/a.dat","f":"00","s":10,"b":0,"e":25}]`,
	} {
		dec, err := payload.NewDecoder(len(hdr), "", strings.NewReader(hdr+"0123456789"))
		if err != nil {
			continue // refused by the decoder: fine
		}
		if err := validateParts(dec.GetParts()); err == nil {
			t.Errorf("header %s passes validateParts: the staged file is prepared before anybody looks at the range", hdr)
		}
	}
}
