package client

import (
	"os"
	"path/filepath"
	"testing"
	"time"

	"github.com/arm-doe/sts"
	"github.com/arm-doe/sts/cache"
	"github.com/arm-doe/sts/log"
	"github.com/arm-doe/sts/mock"
	"github.com/arm-doe/sts/store"
)

type f45polled struct{ sts.Pollable }

func (p f45polled) NotFound() bool { return false }
func (p f45polled) Waiting() bool  { return false }
func (p f45polled) Failed() bool   { return false }
func (p f45polled) Received() bool { return true }

// F45: the status question names a file, not a version.  Version 1 of f.dat
// was sent, confirmed and recorded in the sent log.  The file is rewritten;
// the next scan hashes and caches version 2 - and the sender goes down before
// a byte of it is sent.  The restart asks the receiver about "f.dat": the
// answer - `received`, true of version 1 - is applied to version 2: marked
// done, written to the sent log after the fact, and deleted.  Version 2 existed
// only there.
func TestProbeF45RestartDoesNotReleaseAVersionThatWasNeverSent(t *testing.T) {
	log.InitExternal(&mock.Logger{DebugMode: false})
	root := t.TempDir()
	out := filepath.Join(root, "out")
	cdir := filepath.Join(root, "cache")
	sent := filepath.Join(root, "sentlog")
	os.MkdirAll(out, 0o755)
	os.MkdirAll(cdir, 0o755)
	st := &store.Local{Root: out}
	c, err := cache.NewJSON(cdir, out, "")
	if err != nil {
		t.Fatal(err)
	}
	slog := log.NewFileIO(sent, nil, nil, true)
	// version 1: sent and on record
	slog.Sent(&progressFile{name: "f.dat", hash: "H1", size: 11, started: time.Now(), completed: time.Now()})
	// version 2: rewritten, scanned, cached - never sent
	p := filepath.Join(out, "f.dat")
	os.WriteFile(p, []byte("version two, the only copy"), 0o644)
	old := time.Now().Add(-10 * time.Minute)
	os.Chtimes(p, old, old)
	files, _, err := st.Scan(nil)
	if err != nil || len(files) != 1 {
		t.Fatal(err, len(files))
	}
	c.Add(&hashFile{File: files[0], hash: "H2"})
	polls := 0
	b := &Broker{Conf: &Conf{Name: "probe", Store: st, Cache: c, Logger: slog,
		Tagger:       func(string) string { return "" },
		Tags:         []*FileTag{{Name: "", Delete: true}},
		PollMaxCount: 100,
		Recoverer:    func() ([]*sts.Partial, error) { return nil, nil },
		Validator: func(in []sts.Pollable) (out []sts.Polled, err error) {
			polls++
			for _, p := range in {
				out = append(out, f45polled{p}) // what the receiver knows of the NAME
			}
			return
		},
	}}
	b.tagMap = map[string]*FileTag{"": b.Conf.Tags[0]}
	b.cleanSome = true
	send, err := b.recover()
	if err != nil {
		t.Fatal(err)
	}
	if polls == 0 {
		t.Fatalf("set-up: the receiver was not asked")
	}
	if _, err := os.Stat(p); err != nil {
		t.Errorf("version 2 of f.dat was deleted although none of it was ever sent: %v", err)
	}
	if e := c.Get("f.dat"); e == nil || e.IsDone() {
		t.Errorf("version 2 of f.dat is marked done in the cache")
	}
	queued := false
	for _, f := range send {
		if f.GetName() == "f.dat" && f.GetHash() == "H2" {
			if r, isRec := f.(sts.Recovered); !isRec || !r.IsAllocated() {
				queued = true
			}
		}
	}
	if !queued {
		t.Errorf("version 2 of f.dat is not queued for sending")
	}
}
