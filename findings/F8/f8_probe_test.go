package client

import (
	"errors"
	"testing"
	"time"

	"github.com/arm-doe/sts"
	"github.com/arm-doe/sts/log"
	"github.com/arm-doe/sts/mock"
)

type probeStore struct{}

func (probeStore) Scan(func(sts.File) bool) ([]sts.File, time.Time, error) {
	return nil, time.Time{}, nil
}
func (probeStore) GetOpener() sts.Open               { return nil }
func (probeStore) Remove(sts.File) error             { return nil }
func (probeStore) Sync(sts.File) (sts.File, error)   { return nil, nil } // unchanged
func (probeStore) IsNotExist(error) bool             { return false }
func (probeStore) ShouldIgnore(sts.File) bool        { return false }

type notFound struct{ sts.Pollable }

func (notFound) NotFound() bool { return true }
func (notFound) Waiting() bool  { return false }
func (notFound) Failed() bool   { return false }
func (notFound) Received() bool { return false }

// F8: the start-up poll ("were these files fully received?") fails once - a
// transient fault.  The sender must ask again; the cached, unchanged file
// must end up in the list to be sent, not be dropped until the next restart.
func TestProbeF8RecoveryPollIsRetried(t *testing.T) {
	log.InitExternal(&mock.Logger{DebugMode: false})
	cache := mock.NewCache()
	cache.Add(&mock.File{Name: "a.dat", Path: "/out/a.dat", Size: 10, Time: time.Unix(1700000000, 0), Hash: "H"})
	calls := 0
	b := &Broker{Conf: &Conf{
		Name:         "probe",
		Store:        probeStore{},
		Cache:        cache,
		PollMaxCount: 100,
		Recoverer:    func() ([]*sts.Partial, error) { return nil, nil },
		Validator: func(p []sts.Pollable) ([]sts.Polled, error) {
			calls++
			if calls == 1 {
				return nil, errors.New("connection reset")
			}
			var out []sts.Polled
			for _, f := range p {
				out = append(out, notFound{f})
			}
			return out, nil
		},
	}}
	send, err := b.recover()
	if err != nil {
		t.Fatalf("recover gave up after one failed poll: %v (the file a.dat is now stranded: unchanged cached files are never scanned again)", err)
	}
	if len(send) != 1 || send[0].GetName() != "a.dat" {
		t.Fatalf("a.dat not scheduled for sending: %v", send)
	}
}
