package client

import (
	"io"
	"sync"
	"testing"
	"time"

	"github.com/arm-doe/sts"
	"github.com/arm-doe/sts/log"
	"github.com/arm-doe/sts/mock"
)

type f34part struct {
	name     string
	size     int64
	beg, n   int64
}

func (p f34part) GetName() string          { return p.name }
func (p f34part) GetRenamed() string       { return "" }
func (p f34part) GetPrev() string          { return "" }
func (p f34part) GetFileTime() time.Time   { return time.Unix(1700000000, 0) }
func (p f34part) GetFileHash() string      { return "H" }
func (p f34part) GetFileSize() int64       { return p.size }
func (p f34part) GetSendSize() int64       { return p.size }
func (p f34part) GetSlice() (int64, int64) { return p.beg, p.n }

type f34payload struct{ parts []sts.Binned }

func (p *f34payload) Add(sts.Binnable) bool          { return false }
func (p *f34payload) Remove(sts.Binned)              {}
func (p *f34payload) IsFull() bool                   { return true }
func (p *f34payload) Split(int) sts.Payload          { return nil }
func (p *f34payload) GetSize() int64                 { return 100 }
func (p *f34payload) GetParts() []sts.Binned         { return p.parts }
func (p *f34payload) EncodeHeader() ([]byte, error)  { return nil, nil }
func (p *f34payload) GetEncoder() io.ReadCloser      { return nil }
func (p *f34payload) GetStarted() time.Time          { return time.Now().Add(-time.Second) }
func (p *f34payload) GetCompleted() time.Time        { return time.Now() }

// F34: a file goes out in two payloads; the first is acknowledged, the second
// fails once and by then the file has changed on disk, so the sender drops
// that part ("it will get picked up again").  The tracker keeps the file's
// progress entry - half of its bytes acknowledged - for ever.  In a one-shot /
// graceful stop every later stage waits for the tracker to drain: the run
// never ends.
func TestProbeF34TrackerDrainsWhenNoMorePartsCanArrive(t *testing.T) {
	log.InitExternal(&mock.Logger{DebugMode: false})
	b := &Broker{Conf: &Conf{Name: "probe"}}
	b.chTransmitted = make(chan sts.Payload, 2)
	b.chValidate = make(chan sts.Pollable, 2)
	var wg sync.WaitGroup
	wg.Add(1)
	done := make(chan struct{})
	go func() { b.startTrack(&wg); close(done) }()
	b.chTransmitted <- &f34payload{parts: []sts.Binned{f34part{name: "big.dat", size: 200, beg: 0, n: 100}}} // first half acknowledged
	close(b.chTransmitted)                                                                                     // senders are done: the second half was dropped
	select {
	case <-done:
	case <-time.After(6 * time.Second):
		t.Fatal("the tracker did not leave within 6 s after its input was closed: it still holds big.dat (100 of 200 bytes acknowledged, the rest dropped by the sender), so a graceful stop never completes")
	}
}
