package stage

import (
	"bytes"
	"crypto/md5"
	"fmt"
	"io"
	"os"
	"path/filepath"
	"strings"
	"testing"
	"time"

	"github.com/arm-doe/sts"
	"github.com/arm-doe/sts/log"
	"github.com/arm-doe/sts/marshal"
	"github.com/arm-doe/sts/mock"
)

type g43Part struct {
	name, renamed, prev, hash string
	size, beg, end           int64
	t                        time.Time
}

func (p *g43Part) GetName() string          { return p.name }
func (p *g43Part) GetRenamed() string       { return p.renamed }
func (p *g43Part) GetPrev() string          { return p.prev }
func (p *g43Part) GetFileTime() time.Time   { return p.t }
func (p *g43Part) GetFileHash() string      { return p.hash }
func (p *g43Part) GetFileSize() int64       { return p.size }
func (p *g43Part) GetSendSize() int64       { return p.size }
func (p *g43Part) GetSlice() (int64, int64) { return p.beg, p.end }

func g43MD5(b []byte) string { return fmt.Sprintf("%x", md5.Sum(b)) }

func g43Send(s *Stage, name, prev, hash string, content []byte, beg, end int64, r io.Reader) error {
	p := &g43Part{name: name, prev: prev, hash: hash, size: int64(len(content)), beg: beg, end: end, t: time.Now()}
	s.Prepare([]sts.Binned{p})
	if r == nil {
		r = bytes.NewReader(content[beg:end])
	}
	return s.Receive(&sts.Partial{
		Name: name, Prev: prev, Size: int64(len(content)), Hash: hash, Source: "src",
		Time:  marshal.NanoTime{Time: p.t},
		Parts: []*sts.ByteRange{{Beg: beg, End: end}},
	}, r)
}

func g43Wait(t *testing.T, what string, cond func() bool) {
	t.Helper()
	deadline := time.Now().Add(10 * time.Second)
	for time.Now().Before(deadline) {
		if cond() {
			return
		}
		time.Sleep(5 * time.Millisecond)
	}
	t.Fatalf("timed out waiting for %s", what)
}

func g43LogLines(t *testing.T, dir string) (lines []string) {
	filepath.Walk(dir, func(p string, info os.FileInfo, err error) error {
		if err == nil && !info.IsDir() {
			b, _ := os.ReadFile(p)
			for _, l := range strings.Split(string(b), "\n") {
				if l != "" {
					lines = append(lines, l)
				}
			}
		}
		return nil
	})
	return
}

func g43New(t *testing.T) (s *Stage, stageDir, finalDir, logDir string) {
	log.InitExternal(&mock.Logger{DebugMode: false})
	root := t.TempDir()
	stageDir = filepath.Join(root, "stage")
	finalDir = filepath.Join(root, "final")
	logDir = filepath.Join(root, "logs")
	os.MkdirAll(stageDir, 0775)
	os.MkdirAll(finalDir, 0775)
	s = New("x", stageDir, finalDir, log.NewFileIO(logDir, nil, nil, true), nil, nil)
	return
}


// F43: version 1 of f is validated and parked behind p.  The source rewrites f;
// the first half of version 2 is received and acknowledged (its ranges are in
// the companion, which is version 2's now).  p completes, version 1 is
// delivered - and putFileAway removes "the" companion, which is the record of
// version 2's acknowledged half.  The second half of version 2 then starts a
// fresh record; the file can never complete, and `which of these parts do you
// hold` denies the half that was acknowledged.
func TestProbeF43DeliveringTheParkedVersionKeepsTheNewerVersionsRecord(t *testing.T) {
	s, stageDir, finalDir, _ := g43New(t)
	v1 := bytes.Repeat([]byte("1"), 50)
	v2 := bytes.Repeat([]byte("2"), 60)
	p := bytes.Repeat([]byte("P"), 20)
	g43Send(s, "p", "", g43MD5(p), p, 0, 10, nil)
	g43Send(s, "f", "p", g43MD5(v1), v1, 0, 50, nil)
	g43Wait(t, "f (v1) waiting", func() bool { return s.GetFileStatus("f", time.Now()) == sts.ConfirmWaiting })
	time.Sleep(200 * time.Millisecond)
	if err := g43Send(s, "f", "p", g43MD5(v2), v2, 0, 30, nil); err != nil {
		t.Fatal(err)
	}
	if cmp, err := readLocalCompanion(filepath.Join(stageDir, "f"), "f"); err != nil || cmp.Hash != g43MD5(v2) || len(cmp.Parts) != 1 {
		t.Fatalf("set-up: first half of version 2 not on record (%v, %v)", cmp, err)
	}
	g43Send(s, "p", "", g43MD5(p), p, 10, 20, nil)
	g43Wait(t, "f (v1) delivered", func() bool { _, err := os.Stat(filepath.Join(finalDir, "f")); return err == nil })
	time.Sleep(300 * time.Millisecond)
	cmp, err := readLocalCompanion(filepath.Join(stageDir, "f"), "f")
	if err != nil || cmp == nil || cmp.Hash != g43MD5(v2) || len(cmp.Parts) != 1 {
		t.Errorf("after version 1 was delivered the record of version 2's acknowledged half is gone (companion: %v, %v)", cmp, err)
	}
	if err := g43Send(s, "f", "p", g43MD5(v2), v2, 30, 60, nil); err != nil {
		t.Fatal(err)
	}
	ok := false
	deadline := time.Now().Add(3 * time.Second)
	for time.Now().Before(deadline) && !ok {
		got, err := os.ReadFile(filepath.Join(finalDir, "f"))
		ok = err == nil && bytes.Equal(got, v2)
		time.Sleep(20 * time.Millisecond)
	}
	if !ok {
		t.Errorf("every byte of version 2 was received and acknowledged, but version 2 is not delivered")
	}
}
