package main

import (
	"path/filepath"
	"testing"

	"github.com/arm-doe/sts"
	"github.com/arm-doe/sts/log"
	"github.com/arm-doe/sts/store"
	yaml "gopkg.in/yaml.v2"
)

// F14: source two omits `ignore` and inherits source one's list - the SAME
// slice (same backing array, spare capacity left by append's growth).  Each
// sender appends the standard ignores and the patterns of its own non-HTTP
// tags to "its" list; the second sender's appends land in the first sender's
// slots.  Source one then ignores source two's disk-only files and no longer
// ignores its own.
func TestProbeF14InheritedIgnoreListIsShared(t *testing.T) {
	tmp := t.TempDir()
	doc := `
OUT:
  dirs: {cache: ` + filepath.Join(tmp, "c") + `, logs: ` + filepath.Join(tmp, "l") + `, out: ` + filepath.Join(tmp, "o") + `}
  sources:
    - name: one
      threads: 1
      target: {name: t1, http-host: "localhost:1"}
      ignore: ['\.a$', '\.b$', '\.c$', '\.d$', '\.e$']
      tags:
        - {pattern: DEFAULT}
        - {pattern: '^diskA/', method: disk}
    - name: two
      target: {name: t2, http-host: "localhost:2"}
      tags:
        - {pattern: DEFAULT}
        - {pattern: '^diskB/', method: disk}
`
	var conf sts.Conf
	if err := yaml.Unmarshal([]byte(doc), &conf); err != nil {
		t.Fatal(err)
	}
	log.Init(filepath.Join(tmp, "msg"), false, nil, nil)
	var apps []*clientApp
	for _, src := range conf.Client.Sources {
		src.OutDir = filepath.Join(tmp, "o", src.Name)
		src.LogDir = filepath.Join(tmp, "l", src.Name)
		a := &clientApp{conf: src, dirCache: filepath.Join(tmp, "c")}
		if err := a.init(); err != nil {
			t.Fatal(err)
		}
		apps = append(apps, a)
	}
	has := func(l *store.Local, pat string) bool {
		for _, p := range l.Ignore {
			if p.String() == pat {
				return true
			}
		}
		return false
	}
	one := apps[0].broker.Conf.Store.(*store.Local)
	two := apps[1].broker.Conf.Store.(*store.Local)
	if !has(one, "^diskA/") {
		t.Errorf("source one no longer ignores its own disk-only tag ^diskA/ (it would send those files over HTTP)")
	}
	if has(one, "^diskB/") {
		t.Errorf("source one ignores ^diskB/, a pattern of source two's tag")
	}
	if !has(two, "^diskB/") {
		t.Errorf("source two does not ignore its own disk-only tag")
	}
	for _, l := range []*store.Local{one, two} {
		var ss []string
		for _, p := range l.Ignore {
			ss = append(ss, p.String())
		}
		t.Log(ss)
	}
}
