package stage

import (
	"bytes"
	"crypto/md5"
	"fmt"
	"io"
	"os"
	"path/filepath"
	"strings"
	"testing"
	"time"

	"github.com/arm-doe/sts"
	"github.com/arm-doe/sts/log"
	"github.com/arm-doe/sts/marshal"
	"github.com/arm-doe/sts/mock"
)

type g44Part struct {
	name, renamed, prev, hash string
	size, beg, end           int64
	t                        time.Time
}

func (p *g44Part) GetName() string          { return p.name }
func (p *g44Part) GetRenamed() string       { return p.renamed }
func (p *g44Part) GetPrev() string          { return p.prev }
func (p *g44Part) GetFileTime() time.Time   { return p.t }
func (p *g44Part) GetFileHash() string      { return p.hash }
func (p *g44Part) GetFileSize() int64       { return p.size }
func (p *g44Part) GetSendSize() int64       { return p.size }
func (p *g44Part) GetSlice() (int64, int64) { return p.beg, p.end }

func g44MD5(b []byte) string { return fmt.Sprintf("%x", md5.Sum(b)) }

func g44Send(s *Stage, name, prev, hash string, content []byte, beg, end int64, r io.Reader) error {
	p := &g44Part{name: name, prev: prev, hash: hash, size: int64(len(content)), beg: beg, end: end, t: time.Now()}
	s.Prepare([]sts.Binned{p})
	if r == nil {
		r = bytes.NewReader(content[beg:end])
	}
	return s.Receive(&sts.Partial{
		Name: name, Prev: prev, Size: int64(len(content)), Hash: hash, Source: "src",
		Time:  marshal.NanoTime{Time: p.t},
		Parts: []*sts.ByteRange{{Beg: beg, End: end}},
	}, r)
}

func g44Wait(t *testing.T, what string, cond func() bool) {
	t.Helper()
	deadline := time.Now().Add(10 * time.Second)
	for time.Now().Before(deadline) {
		if cond() {
			return
		}
		time.Sleep(5 * time.Millisecond)
	}
	t.Fatalf("timed out waiting for %s", what)
}

func g44LogLines(t *testing.T, dir string) (lines []string) {
	filepath.Walk(dir, func(p string, info os.FileInfo, err error) error {
		if err == nil && !info.IsDir() {
			b, _ := os.ReadFile(p)
			for _, l := range strings.Split(string(b), "\n") {
				if l != "" {
					lines = append(lines, l)
				}
			}
		}
		return nil
	})
	return
}

func g44New(t *testing.T) (s *Stage, stageDir, finalDir, logDir string) {
	log.InitExternal(&mock.Logger{DebugMode: false})
	root := t.TempDir()
	stageDir = filepath.Join(root, "stage")
	finalDir = filepath.Join(root, "final")
	logDir = filepath.Join(root, "logs")
	os.MkdirAll(stageDir, 0775)
	os.MkdirAll(finalDir, 0775)
	s = New("x", stageDir, finalDir, log.NewFileIO(logDir, nil, nil, true), nil, nil)
	return
}


// F44: the receive log is written before the move into the final directory, so
// that a crash in between repeats the record rather than the delivery.  But the
// move can also FAIL (here: the target name is taken by a non-empty directory;
// a full disk or a permission problem do the same): putFileAway schedules
// another attempt - and every attempt writes the record again.  No crash, one
// file, nothing delivered, and a growing number of `received` records.
func TestProbeF44ARetriedMoveDoesNotRepeatTheReceiveRecord(t *testing.T) {
	s, _, finalDir, logDir := g44New(t)
	os.MkdirAll(filepath.Join(finalDir, "f", "occupied"), 0o775)
	content := bytes.Repeat([]byte("A"), 40)
	if err := g44Send(s, "f", "", g44MD5(content), content, 0, 40, nil); err != nil {
		t.Fatal(err)
	}
	time.Sleep(3500 * time.Millisecond) // attempts at 0 s, 1 s, 3 s
	n := 0
	for _, l := range g44LogLines(t, logDir) {
		if strings.HasPrefix(l, "f:") {
			n++
		}
	}
	if n > 1 {
		t.Errorf("%d receive records for f after 3.5 s of failing moves (no crash, nothing delivered)", n)
	}
}
