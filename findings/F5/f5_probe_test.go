package http

import (
	"bytes"
	"fmt"
	"net/http"
	"net/http/httptest"
	"os"
	"path/filepath"
	"strconv"
	"strings"
	"testing"

	"github.com/arm-doe/sts"
	"github.com/arm-doe/sts/log"
	"github.com/arm-doe/sts/mock"
	"github.com/arm-doe/sts/payload"
	"github.com/arm-doe/sts/stage"
)

func probeServer(t *testing.T) (*Server, string) {
	log.InitExternal(&mock.Logger{DebugMode: false})
	root := t.TempDir()
	for _, d := range []string{"stage", "final", "log"} {
		os.MkdirAll(filepath.Join(root, d), 0o755)
	}
	s := &Server{
		GateKeepers:    map[string]sts.GateKeeper{},
		DecoderFactory: payload.NewDecoder,
		IsValid:        func(source, key string) bool { return true },
	}
	s.GateKeeperFactory = func(source string) sts.GateKeeper {
		src := strings.ReplaceAll(source, string(os.PathSeparator), "--")
		return stage.New(source,
			filepath.Join(root, "stage", src),
			filepath.Join(root, "final", src),
			log.NewFileIO(filepath.Join(root, "log", src), nil, nil, false), nil, nil)
	}
	return s, root
}

func listAll(root string) []string {
	var out []string
	filepath.Walk(root, func(p string, info os.FileInfo, err error) error {
		if err == nil && !info.IsDir() {
			out = append(out, strings.TrimPrefix(p, root+"/"))
		}
		return nil
	})
	return out
}

func putData(s *Server, source, meta, body string, sep ...string) *httptest.ResponseRecorder {
	req := httptest.NewRequest(http.MethodPut, "/data", bytes.NewReader([]byte(meta+body)))
	req.Header.Set(HeaderSourceName, source)
	req.Header.Set(HeaderMetaLen, strconv.Itoa(len(meta)))
	if len(sep) == 0 {
		req.Header.Set(HeaderSep, "/")
	} else if sep[0] != "" {
		req.Header.Set(HeaderSep, sep[0])
	}
	w := httptest.NewRecorder()
	s.handleValidate(http.HandlerFunc(s.routeData)).ServeHTTP(w, req)
	return w
}

// F5: file names, rename targets and source names taken from a request must
// not reach the file system outside the source's stage/final/log directories.
func TestProbeF5Traversal(t *testing.T) {
	cases := []struct{ what, source, name, renamed, prev, sep string }{
		{"name with parent segments", "src1", "../../evil.dat", "", "", "/"},
		{"name with parent segments via separator header", "src1", "..|..|evil.dat", "", "", "|"},
		{"absolute name", "src1", "/tmp/evil-abs.dat", "", "", ""},
		{"rename target with parent segments", "src1", "ok.dat", "../../../pwned.dat", "", "/"},
		{"source name ..", "..", "x.dat", "", "", "/"},
	}
	for _, c := range cases {
		t.Run(c.what, func(t *testing.T) {
			s, root := probeServer(t)
			meta := fmt.Sprintf(`[{"n":%q,"r":%q,"p":%q,"f":"900150983cd24fb0d6963f7d28e17f72","t":"1700000000+0","s":3,"b":0,"e":3}]`,
				c.name, c.renamed, c.prev)
			w := putData(s, c.source, meta, "abc", c.sep)
			if w.Code != http.StatusBadRequest {
				t.Errorf("status=%d, want 400", w.Code)
			}
			for _, f := range listAll(root) {
				ok := strings.HasPrefix(f, "stage/"+c.source+"/") || strings.HasPrefix(f, "final/"+c.source+"/") || strings.HasPrefix(f, "log/"+c.source+"/")
				if !ok || c.source == ".." {
					t.Errorf("request created %s", f)
				}
			}
			os.Remove("/tmp/evil-abs.dat.part")
		})
	}
}
