package log

import (
	"path/filepath"
	"testing"
	"time"
)

// F29: the day loop steps by 24 hours of absolute time but names the file by
// the local calendar day.  In a zone with daylight saving the spring-forward
// day has 23 hours: a window that starts at or after 23:00 on its eve jumps
// from the eve straight to the day after, and the day file in between -
// every record written on that day - is never looked at.
func TestProbeF29EveryCalendarDayOfTheWindowIsVisited(t *testing.T) {
	loc, err := time.LoadLocation("America/Chicago")
	if err != nil {
		t.Skip(err)
	}
	rf := newRollingFile(t.TempDir(), "", 0, nil, nil, false)
	start := time.Date(2026, 3, 7, 23, 30, 0, 0, loc) // the eve of the spring-forward day (2026-03-08)
	stop := time.Date(2026, 3, 10, 12, 0, 0, 0, loc)
	var days []string
	rf.each(func(path string) bool {
		days = append(days, filepath.Base(filepath.Dir(path))+"/"+filepath.Base(path))
		return false
	}, start, stop)
	want := []string{"202603/07", "202603/08", "202603/09", "202603/10"}
	have := map[string]bool{}
	for _, d := range days {
		have[d] = true
	}
	for _, w := range want {
		if !have[w] {
			t.Errorf("day file %s is inside the window but was not visited (visited: %v)", w, days)
		}
	}
	// and backwards (stop before start)
	days = nil
	rf.each(func(path string) bool {
		days = append(days, filepath.Base(filepath.Dir(path))+"/"+filepath.Base(path))
		return false
	}, time.Date(2026, 11, 2, 0, 30, 0, 0, loc), time.Date(2026, 10, 30, 12, 0, 0, 0, loc)) // across the 25-hour day 2026-11-01
	have = map[string]bool{}
	for _, d := range days {
		have[d] = true
	}
	for _, w := range []string{"202611/02", "202611/01", "202610/31", "202610/30"} {
		if !have[w] {
			t.Errorf("backwards: day file %s is inside the window but was not visited (visited: %v)", w, days)
		}
	}
}
