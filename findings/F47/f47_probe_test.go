package stage

import (
	"bytes"
	"crypto/md5"
	"fmt"
	"io"
	"os"
	"path/filepath"
	"strings"
	"testing"
	"time"

	"github.com/arm-doe/sts"
	"github.com/arm-doe/sts/log"
	"github.com/arm-doe/sts/marshal"
	"github.com/arm-doe/sts/mock"
)

type g47Part struct {
	name, renamed, prev, hash string
	size, beg, end           int64
	t                        time.Time
}

func (p *g47Part) GetName() string          { return p.name }
func (p *g47Part) GetRenamed() string       { return p.renamed }
func (p *g47Part) GetPrev() string          { return p.prev }
func (p *g47Part) GetFileTime() time.Time   { return p.t }
func (p *g47Part) GetFileHash() string      { return p.hash }
func (p *g47Part) GetFileSize() int64       { return p.size }
func (p *g47Part) GetSendSize() int64       { return p.size }
func (p *g47Part) GetSlice() (int64, int64) { return p.beg, p.end }

func g47MD5(b []byte) string { return fmt.Sprintf("%x", md5.Sum(b)) }

func g47Send(s *Stage, name, prev, hash string, content []byte, beg, end int64, r io.Reader) error {
	p := &g47Part{name: name, prev: prev, hash: hash, size: int64(len(content)), beg: beg, end: end, t: time.Now()}
	s.Prepare([]sts.Binned{p})
	if r == nil {
		r = bytes.NewReader(content[beg:end])
	}
	return s.Receive(&sts.Partial{
		Name: name, Prev: prev, Size: int64(len(content)), Hash: hash, Source: "src",
		Time:  marshal.NanoTime{Time: p.t},
		Parts: []*sts.ByteRange{{Beg: beg, End: end}},
	}, r)
}

func g47Wait(t *testing.T, what string, cond func() bool) {
	t.Helper()
	deadline := time.Now().Add(10 * time.Second)
	for time.Now().Before(deadline) {
		if cond() {
			return
		}
		time.Sleep(5 * time.Millisecond)
	}
	t.Fatalf("timed out waiting for %s", what)
}

func g47LogLines(t *testing.T, dir string) (lines []string) {
	filepath.Walk(dir, func(p string, info os.FileInfo, err error) error {
		if err == nil && !info.IsDir() {
			b, _ := os.ReadFile(p)
			for _, l := range strings.Split(string(b), "\n") {
				if l != "" {
					lines = append(lines, l)
				}
			}
		}
		return nil
	})
	return
}

func g47New(t *testing.T) (s *Stage, stageDir, finalDir, logDir string) {
	log.InitExternal(&mock.Logger{DebugMode: false})
	root := t.TempDir()
	stageDir = filepath.Join(root, "stage")
	finalDir = filepath.Join(root, "final")
	logDir = filepath.Join(root, "logs")
	os.MkdirAll(stageDir, 0775)
	os.MkdirAll(finalDir, 0775)
	s = New("x", stageDir, finalDir, log.NewFileIO(logDir, nil, nil, true), nil, nil)
	return
}


// F47: a and b name each other as predecessor - a cycle, for which the cleaner
// gives the order up.  c names a as its predecessor; c is on no cycle.  The
// cleaner releases EVERY file that waits on a member of the cycle it found:
// b and c lose their predecessor together, and c is delivered before a.
func TestProbeF47ABystanderOfACycleKeepsItsPlace(t *testing.T) {
	s, _, finalDir, logDir := g47New(t)
	for _, f := range []struct{ name, prev string }{{"a", "b"}, {"b", "a"}, {"c", "a"}} {
		content := []byte("content of " + f.name)
		if err := g47Send(s, f.name, f.prev, g47MD5(content), content, 0, int64(len(content)), nil); err != nil {
			t.Fatal(err)
		}
	}
	for _, n := range []string{"a", "b", "c"} {
		n := n
		g47Wait(t, n+" parked", func() bool { return s.isWaiting(filepath.Join(s.rootDir, n)) })
	}
	s.cleanWaiting()
	g47Wait(t, "all three delivered", func() bool {
		for _, n := range []string{"a", "b", "c"} {
			if _, err := os.Stat(filepath.Join(finalDir, n)); err != nil {
				return false
			}
		}
		return true
	})
	time.Sleep(200 * time.Millisecond)
	pos := map[string]int{}
	for i, l := range g47LogLines(t, logDir) {
		pos[strings.SplitN(l, ":", 2)[0]] = i
	}
	if pos["c"] < pos["a"] {
		t.Errorf("c (predecessor a, on no cycle) was delivered before a: receive log order %v", g47LogLines(t, logDir))
	}
}
