package client

import (
	"os"
	"path/filepath"
	"testing"
	"time"

	"github.com/arm-doe/sts"
	"github.com/arm-doe/sts/cache"
	"github.com/arm-doe/sts/log"
	"github.com/arm-doe/sts/mock"
	"github.com/arm-doe/sts/store"
)

type f40polled struct {
	sts.Pollable
}

func (p f40polled) NotFound() bool { return false }
func (p f40polled) Waiting() bool  { return false }
func (p f40polled) Failed() bool   { return false }
func (p f40polled) Received() bool { return true }

// f40logger asks for an immediate stop while the verdict of the second file is
// being processed - as an operator's signal would.
type f40logger struct {
	b     *Broker
	calls int
}

func (l *f40logger) Sent(sts.Sent) {}
func (l *f40logger) WasSent(name, hash string, after, before time.Time) bool {
	l.calls++
	if l.calls == 2 {
		l.b.stopMux.Lock()
		l.b.stop = true
		l.b.stopGraceful = false
		l.b.stopMux.Unlock()
	}
	return true
}

// F40: at start-up the sender asks the receiver about the files it had sent
// before it went down and applies the answers one by one (marked done, deleted
// when deletion is configured); the cache is written once after the batch.  An
// immediate stop in between leaves the loop by `return` - past the Persist: what
// was just confirmed (and deleted) is not in the cache file when Start returns.
func TestProbeF40ConfirmedAtStartupIsRecordedBeforeAnImmediateStop(t *testing.T) {
	log.InitExternal(&mock.Logger{DebugMode: false})
	root := t.TempDir()
	out := filepath.Join(root, "out")
	os.MkdirAll(out, 0o755)
	st := &store.Local{Root: out}
	cdir := filepath.Join(root, "cache")
	os.MkdirAll(cdir, 0o755)
	c, err := cache.NewJSON(cdir, out, "")
	if err != nil {
		t.Fatal(err)
	}
	old := time.Now().Add(-time.Hour)
	for _, n := range []string{"a.dat", "b.dat", "c.dat"} {
		p := filepath.Join(out, n)
		os.WriteFile(p, []byte("content of "+n), 0o644)
		os.Chtimes(p, old, old)
	}
	files, _, err := st.Scan(nil)
	if err != nil || len(files) != 3 {
		t.Fatal(err, len(files))
	}
	for _, f := range files {
		c.Add(&hashFile{File: f, hash: "H-" + f.GetName()})
	}
	if err := c.Persist(); err != nil {
		t.Fatal(err)
	}
	b := &Broker{Conf: &Conf{Name: "probe", Store: st, Cache: c,
		Tagger:       func(string) string { return "" },
		Tags:         []*FileTag{{Name: ""}},
		PollMaxCount: 100,
		Recoverer:    func() ([]*sts.Partial, error) { return nil, nil },
		Validator: func(in []sts.Pollable) (out []sts.Polled, err error) {
			for _, p := range in {
				out = append(out, f40polled{p})
			}
			return
		},
	}}
	b.tagMap = map[string]*FileTag{"": b.Conf.Tags[0]}
	b.Conf.Logger = &f40logger{b: b}
	b.recover()
	done := 0
	c.Iterate(func(e sts.Cached) bool {
		if e.IsDone() {
			done++
		}
		return false
	})
	if done == 0 {
		t.Fatalf("set-up: no verdict was applied before the stop")
	}
	c2, err := cache.NewJSON(cdir, out, "")
	if err != nil {
		t.Fatal(err)
	}
	onDisk := 0
	c2.Iterate(func(e sts.Cached) bool {
		if e.IsDone() {
			onDisk++
		}
		return false
	})
	if onDisk != done {
		t.Errorf("%d file(s) were confirmed and marked done before the immediate stop; the cache file written when recover() returned records %d of them", done, onDisk)
	}
}
