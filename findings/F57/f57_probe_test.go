package stage

import (
	"bytes"
	"crypto/md5"
	"fmt"
	"io"
	"os"
	"path/filepath"
	"strings"
	"testing"
	"time"

	"github.com/arm-doe/sts"
	"github.com/arm-doe/sts/log"
	"github.com/arm-doe/sts/marshal"
	"github.com/arm-doe/sts/mock"
)

type g57Part struct {
	name, renamed, prev, hash string
	size, beg, end           int64
	t                        time.Time
}

func (p *g57Part) GetName() string          { return p.name }
func (p *g57Part) GetRenamed() string       { return p.renamed }
func (p *g57Part) GetPrev() string          { return p.prev }
func (p *g57Part) GetFileTime() time.Time   { return p.t }
func (p *g57Part) GetFileHash() string      { return p.hash }
func (p *g57Part) GetFileSize() int64       { return p.size }
func (p *g57Part) GetSendSize() int64       { return p.size }
func (p *g57Part) GetSlice() (int64, int64) { return p.beg, p.end }

func g57MD5(b []byte) string { return fmt.Sprintf("%x", md5.Sum(b)) }

func g57Send(s *Stage, name, prev, hash string, content []byte, beg, end int64, r io.Reader) error {
	p := &g57Part{name: name, prev: prev, hash: hash, size: int64(len(content)), beg: beg, end: end, t: time.Now()}
	s.Prepare([]sts.Binned{p})
	if r == nil {
		r = bytes.NewReader(content[beg:end])
	}
	return s.Receive(&sts.Partial{
		Name: name, Prev: prev, Size: int64(len(content)), Hash: hash, Source: "src",
		Time:  marshal.NanoTime{Time: p.t},
		Parts: []*sts.ByteRange{{Beg: beg, End: end}},
	}, r)
}

func g57Wait(t *testing.T, what string, cond func() bool) {
	t.Helper()
	deadline := time.Now().Add(10 * time.Second)
	for time.Now().Before(deadline) {
		if cond() {
			return
		}
		time.Sleep(5 * time.Millisecond)
	}
	t.Fatalf("timed out waiting for %s", what)
}

func g57LogLines(t *testing.T, dir string) (lines []string) {
	filepath.Walk(dir, func(p string, info os.FileInfo, err error) error {
		if err == nil && !info.IsDir() {
			b, _ := os.ReadFile(p)
			for _, l := range strings.Split(string(b), "\n") {
				if l != "" {
					lines = append(lines, l)
				}
			}
		}
		return nil
	})
	return
}

func g57New(t *testing.T) (s *Stage, stageDir, finalDir, logDir string) {
	log.InitExternal(&mock.Logger{DebugMode: false})
	root := t.TempDir()
	stageDir = filepath.Join(root, "stage")
	finalDir = filepath.Join(root, "final")
	logDir = filepath.Join(root, "logs")
	os.MkdirAll(stageDir, 0775)
	os.MkdirAll(finalDir, 0775)
	s = New("x", stageDir, finalDir, log.NewFileIO(logDir, nil, nil, true), nil, nil)
	return
}


func g57Park(t *testing.T, stageDir, name, prev string, content []byte) {
	t.Helper()
	base := filepath.Join(stageDir, name)
	if err := os.WriteFile(base+waitExt, content, 0o600); err != nil {
		t.Fatal(err)
	}
	cmp := &sts.Partial{Name: name, Prev: prev, Size: int64(len(content)), Hash: g57MD5(content), Source: "src",
		Parts: []*sts.ByteRange{{Beg: 0, End: int64(len(content))}}}
	if err := writeCompanion(base, cmp); err != nil {
		t.Fatal(err)
	}
}


// F57: the other half of F46.  S (predecessor P) is validated and parked.  A NEW
// version of P has been received completely (P.full, not yet validated) when
// the receiver goes down; an older version of P was delivered earlier the same
// day and is in the receive log.  Recover enters the parked files and hands
// them to the finalize chain at once - while the files that still have to be
// validated are entered (`received`) only as a worker gets to them, in walk
// order.  Until then P is what the log refill made of it: `logged`, which
// isFileReady takes for delivered.  S goes out before the new P.
func TestProbeF57RecoveryKeepsTheOrderBehindAPredecessorStillToBeValidated(t *testing.T) {
	_, stageDir, finalDir, logDir := g57New(t)
	oldP := []byte("predecessor, version one")
	newP := []byte("predecessor, version two - received, not yet validated")
	lg := log.NewFileIO(logDir, nil, nil, false)
	lg.Received(&finalFile{name: "z-pred", hash: g57MD5(oldP), size: int64(len(oldP))}) // version one was delivered earlier today
	g57Park(t, stageDir, "a-succ", "z-pred", []byte("successor content"))
	full := func(name string, content []byte) {
		base := filepath.Join(stageDir, name)
		os.WriteFile(base+fullExt, content, 0o600)
		writeCompanion(base, &sts.Partial{Name: name, Size: int64(len(content)), Hash: g57MD5(content), Source: "src",
			Parts: []*sts.ByteRange{{Beg: 0, End: int64(len(content))}}})
	}
	for i := 0; i < 1500; i++ { // other complete files the validators meet first
		full(fmt.Sprintf("m%05d", i), bytes.Repeat([]byte("x"), 2000))
	}
	full("z-pred", newP)
	s2 := New("x", stageDir, finalDir, lg, nil, nil)
	violated := make(chan bool, 1)
	go func() {
		for i := 0; i < 8000; i++ {
			_, errS := os.Stat(filepath.Join(finalDir, "a-succ"))
			got, errP := os.ReadFile(filepath.Join(finalDir, "z-pred"))
			if errS == nil {
				violated <- errP != nil || !bytes.Equal(got, newP)
				return
			}
			time.Sleep(time.Millisecond)
		}
		violated <- false
	}()
	s2.Recover()
	if <-violated {
		t.Errorf("a-succ is in the final directory before the version of z-pred it was sent behind")
	}
}
