package log

import (
	"testing"
	"time"
)

type rcv struct{ name, renamed, hash string }

func (r *rcv) GetName() string    { return r.name }
func (r *rcv) GetRenamed() string { return r.renamed }
func (r *rcv) GetSize() int64     { return 7 }
func (r *rcv) GetHash() string    { return r.hash }

// F7a: a record of "xa.dat" must not answer for "a.dat".
// F7b: a later record of the same name with the requested hash must be found.
func TestProbeF7LookupIsExact(t *testing.T) {
	f := NewFileIO(t.TempDir(), nil, nil, false)
	f.Received(&rcv{"xa.dat", "", "h1"})
	f.Received(&rcv{"dir/xa.dat", "", "h1"})
	f.Received(&rcv{"b.dat", "", "h2"})
	f.Received(&rcv{"b.dat", "", "h3"})
	f.Received(&rcv{"c.dat", "h9", "h4"})
	from, to := time.Now().Add(-time.Hour), time.Now().Add(time.Hour)
	if f.WasReceived("a.dat", "", from, to) {
		t.Errorf("a.dat reported received on the strength of xa.dat")
	}
	if f.WasReceived("xa.da", "", from, to) {
		t.Errorf("xa.da reported received on the strength of xa.dat")
	}
	if !f.WasReceived("xa.dat", "h1", from, to) {
		t.Errorf("xa.dat/h1 not found")
	}
	if !f.WasReceived("dir/xa.dat", "", from, to) {
		t.Errorf("dir/xa.dat not found")
	}
	if !f.WasReceived("b.dat", "h3", from, to) {
		t.Errorf("b.dat with hash h3 was logged but is not found (first line of that name shadows it)")
	}
	if f.WasReceived("b.dat", "h1", from, to) {
		t.Errorf("b.dat reported with a hash it was never logged with")
	}
	if !f.WasReceived("c.dat", "h4", from, to) {
		t.Errorf("c.dat/h4 (renamed record) not found")
	}
}
