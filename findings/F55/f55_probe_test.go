package client

import (
	"os"
	"path/filepath"
	"testing"
	"time"

	"github.com/arm-doe/sts"
	"github.com/arm-doe/sts/cache"
	"github.com/arm-doe/sts/log"
	"github.com/arm-doe/sts/mock"
	"github.com/arm-doe/sts/store"
)

type f55logger struct{}

func (f55logger) Sent(sts.Sent)                            {}
func (f55logger) WasSent(n, h string, a, b time.Time) bool { return false }

// F55: a file that was scanned and cached but not yet sent is not there when
// the sender starts (its volume is not mounted yet, it was moved aside for a
// moment).  recover() marks the cache entry DONE - "the file is gone".  The
// file comes back, unchanged: the scan passes it over (known, unchanged), and
// the clean-up that follows takes `done` for `confirmed` and deletes it.  No
// byte of it was ever sent.
func TestProbeF55AFileThatWasAwayAtStartupIsStillSent(t *testing.T) {
	log.InitExternal(&mock.Logger{DebugMode: false})
	root := t.TempDir()
	out := filepath.Join(root, "out")
	cdir := filepath.Join(root, "cache")
	os.MkdirAll(out, 0o755)
	os.MkdirAll(cdir, 0o755)
	p := filepath.Join(out, "f.dat")
	os.WriteFile(p, []byte("never sent"), 0o644)
	old := time.Now().Add(-time.Hour)
	os.Chtimes(p, old, old)
	newBroker := func() *Broker {
		c, err := cache.NewJSON(cdir, out, "")
		if err != nil {
			t.Fatal(err)
		}
		b := &Broker{Conf: &Conf{Name: "probe", Store: &store.Local{Root: out}, Cache: c, Logger: f55logger{},
			Tagger: func(string) string { return "" }, Tags: []*FileTag{{Name: "", Delete: true}},
			Threads: 1, PollMaxCount: 100,
			Recoverer: func() ([]*sts.Partial, error) { return nil, nil },
			Validator: func(in []sts.Pollable) ([]sts.Polled, error) { return nil, nil },
		}}
		b.tagMap = map[string]*FileTag{"": b.Conf.Tags[0]}
		b.cleanSome = true
		return b
	}
	first := newBroker()
	if found := first.scan(); len(found) != 1 {
		t.Fatalf("set-up: %d files found", len(found))
	}
	// the sender goes down; the file is away when it comes back
	aside := filepath.Join(root, "aside.dat")
	os.Rename(p, aside)
	second := newBroker()
	if _, err := second.recover(); err != nil {
		t.Fatal(err)
	}
	os.Rename(aside, p) // ... and returns, unchanged
	found := second.scan()
	if _, err := os.Stat(p); err != nil {
		t.Fatalf("f.dat was deleted by the scan's clean-up although it was never sent: %v", err)
	}
	if len(found) != 1 {
		t.Errorf("f.dat is back, unchanged and unsent, but the scan does not queue it (%d files)", len(found))
	}
}
