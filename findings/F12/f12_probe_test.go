package stage

import (
	"os"
	"path/filepath"
	"runtime"
	"testing"

	"github.com/arm-doe/sts"
	"github.com/arm-doe/sts/log"
	"github.com/arm-doe/sts/mock"
)

// F12: main starts recovery with `go stager.Recover()` on a Stage that is born
// ready; readiness is cleared only inside the new goroutine.  With the start-up
// goroutine not yet scheduled (forced here with GOMAXPROCS(1) and no yield, on a
// loaded single-CPU host by chance) the request wrapper sees Ready()==true and
// lets a data request in while a complete but unvalidated file is still staged.
func TestProbeF12ReadyBeforeRecoveryStarts(t *testing.T) {
	log.InitExternal(&mock.Logger{DebugMode: false})
	old := runtime.GOMAXPROCS(1)
	defer runtime.GOMAXPROCS(old)
	root := t.TempDir()
	stageDir := filepath.Join(root, "stage")
	os.MkdirAll(stageDir, 0o755)
	// a completely received, not yet validated file left by the previous run
	base := filepath.Join(stageDir, "a.dat")
	os.WriteFile(base+fullExt, []byte("xxxx"), 0o644)
	writeCompanion(base, &sts.Partial{Name: "a.dat", Hash: "h", Size: 4, Parts: []*sts.ByteRange{{Beg: 0, End: 4}}})
	s := New("probe", stageDir, filepath.Join(root, "final"), log.NewFileIO(filepath.Join(root, "log"), nil, nil, false), nil, nil)
	var gk sts.GateKeeper = s
	go gk.Recover() // exactly what main/server.go does
	if gk.Ready() { // what handleValidate asks before letting a request in
		t.Fatal("gatekeeper reports Ready() although its recovery was started and has work to do: a request arriving now is processed concurrently with recovery")
	}
}
