package stage

import (
	"bytes"
	"crypto/md5"
	"fmt"
	"io"
	"os"
	"path/filepath"
	"strings"
	"testing"
	"time"

	"github.com/arm-doe/sts"
	"github.com/arm-doe/sts/log"
	"github.com/arm-doe/sts/marshal"
	"github.com/arm-doe/sts/mock"
)

type g51Part struct {
	name, renamed, prev, hash string
	size, beg, end           int64
	t                        time.Time
}

func (p *g51Part) GetName() string          { return p.name }
func (p *g51Part) GetRenamed() string       { return p.renamed }
func (p *g51Part) GetPrev() string          { return p.prev }
func (p *g51Part) GetFileTime() time.Time   { return p.t }
func (p *g51Part) GetFileHash() string      { return p.hash }
func (p *g51Part) GetFileSize() int64       { return p.size }
func (p *g51Part) GetSendSize() int64       { return p.size }
func (p *g51Part) GetSlice() (int64, int64) { return p.beg, p.end }

func g51MD5(b []byte) string { return fmt.Sprintf("%x", md5.Sum(b)) }

func g51Send(s *Stage, name, prev, hash string, content []byte, beg, end int64, r io.Reader) error {
	p := &g51Part{name: name, prev: prev, hash: hash, size: int64(len(content)), beg: beg, end: end, t: time.Now()}
	s.Prepare([]sts.Binned{p})
	if r == nil {
		r = bytes.NewReader(content[beg:end])
	}
	return s.Receive(&sts.Partial{
		Name: name, Prev: prev, Size: int64(len(content)), Hash: hash, Source: "src",
		Time:  marshal.NanoTime{Time: p.t},
		Parts: []*sts.ByteRange{{Beg: beg, End: end}},
	}, r)
}

func g51Wait(t *testing.T, what string, cond func() bool) {
	t.Helper()
	deadline := time.Now().Add(10 * time.Second)
	for time.Now().Before(deadline) {
		if cond() {
			return
		}
		time.Sleep(5 * time.Millisecond)
	}
	t.Fatalf("timed out waiting for %s", what)
}

func g51LogLines(t *testing.T, dir string) (lines []string) {
	filepath.Walk(dir, func(p string, info os.FileInfo, err error) error {
		if err == nil && !info.IsDir() {
			b, _ := os.ReadFile(p)
			for _, l := range strings.Split(string(b), "\n") {
				if l != "" {
					lines = append(lines, l)
				}
			}
		}
		return nil
	})
	return
}

func g51New(t *testing.T) (s *Stage, stageDir, finalDir, logDir string) {
	log.InitExternal(&mock.Logger{DebugMode: false})
	root := t.TempDir()
	stageDir = filepath.Join(root, "stage")
	finalDir = filepath.Join(root, "final")
	logDir = filepath.Join(root, "logs")
	os.MkdirAll(stageDir, 0775)
	os.MkdirAll(finalDir, 0775)
	s = New("x", stageDir, finalDir, log.NewFileIO(logDir, nil, nil, true), nil, nil)
	return
}


// F51: the companion of a staged file x is x.cmp.  The helpers that read and
// write companions append ".cmp" to the path they are given - unless the path
// already ends in ".cmp".  A source file that is itself called "x.cmp" is
// therefore recorded in <stage>/x.cmp: the companion of x.  With x parked
// behind its predecessor, the first part of "x.cmp" overwrites x's record; after
// a restart x is delivered and logged with the hash and size of the other file.
func TestProbeF51AFileNamedLikeACompanionHasItsOwnRecord(t *testing.T) {
	s, stageDir, _, _ := g51New(t)
	x := bytes.Repeat([]byte("x"), 40)
	other := bytes.Repeat([]byte("o"), 60)
	p := bytes.Repeat([]byte("P"), 20)
	g51Send(s, "p", "", g51MD5(p), p, 0, 10, nil) // p stays in progress: x is parked behind it
	g51Send(s, "x", "p", g51MD5(x), x, 0, 40, nil)
	g51Wait(t, "x parked", func() bool { return s.GetFileStatus("x", time.Now()) == sts.ConfirmWaiting })
	time.Sleep(200 * time.Millisecond)
	if err := g51Send(s, "x.cmp", "", g51MD5(other), other, 0, 30, nil); err != nil { // first half of a file called x.cmp
		t.Logf("Receive: %v", err)
	}
	cmp, err := readLocalCompanion(filepath.Join(stageDir, "x"+compExt), "x")
	if err != nil || cmp == nil {
		t.Fatalf("the companion of x cannot be read any more: %v %v", cmp, err)
	}
	if cmp.Hash != g51MD5(x) || cmp.Size != 40 {
		t.Errorf("the companion of the parked file x now says hash %s size %d (x is %s, 40): it was overwritten with the record of the file called x.cmp", cmp.Hash, cmp.Size, g51MD5(x))
	}
}
