package client

import (
	"os"
	"path/filepath"
	"testing"
	"time"

	"github.com/arm-doe/sts"
	"github.com/arm-doe/sts/cache"
	"github.com/arm-doe/sts/log"
	"github.com/arm-doe/sts/mock"
	"github.com/arm-doe/sts/store"
)

type f30polled struct {
	sts.Pollable
	received bool
}

func (p f30polled) NotFound() bool { return false }
func (p f30polled) Waiting() bool  { return false }
func (p f30polled) Failed() bool   { return false }
func (p f30polled) Received() bool { return p.received }

type f30pollable struct{ name string }

func (p f30pollable) GetName() string            { return p.name }
func (p f30pollable) GetRenamed() string         { return "" }
func (p f30pollable) GetHash() string            { return "H1" }
func (p f30pollable) GetSize() int64             { return 11 }
func (p f30pollable) GetPrev() string            { return "" }
func (p f30pollable) GetStarted() time.Time      { return time.Now() }
func (p f30pollable) TimeMs() int64              { return 1 }

func f30broker(t *testing.T, delay time.Duration) (*Broker, string, *cache.JSON, *store.Local) {
	log.InitExternal(&mock.Logger{DebugMode: false})
	root := t.TempDir()
	out := filepath.Join(root, "out")
	os.MkdirAll(out, 0o755)
	st := &store.Local{Root: out}
	c, err := cache.NewJSON(filepath.Join(root, "cache"), out, "")
	if err != nil {
		t.Fatal(err)
	}
	b := &Broker{Conf: &Conf{Name: "probe", Store: st, Cache: c,
		Tagger: func(string) string { return "" },
		Tags:   []*FileTag{{Name: "", Delete: true, DeleteDelay: delay}},
	}}
	b.tagMap = map[string]*FileTag{"": b.Conf.Tags[0]}
	b.cleanSome = true
	return b, out, c, st
}

func f30scanOne(t *testing.T, st *store.Local, name string) sts.File {
	files, _, err := st.Scan(nil)
	if err != nil {
		t.Fatal(err)
	}
	for _, f := range files {
		if f.GetName() == name {
			return f
		}
	}
	t.Fatalf("%s not found by the scan", name)
	return nil
}

// F30a: version 1 of a file was hashed and sent; it is rewritten at the
// source before the receiver's confirmation comes in.  finish() marks the
// entry done and removes the file BY PATH: what it deletes is version 2,
// which nobody has seen.
func TestProbeF30aConfirmationOfV1DoesNotDeleteV2(t *testing.T) {
	b, out, c, st := f30broker(t, 0)
	p := filepath.Join(out, "a.dat")
	os.WriteFile(p, []byte("version one"), 0o644)
	old := time.Now().Add(-time.Hour)
	os.Chtimes(p, old, old)
	c.Add(&hashFile{File: f30scanOne(t, st, "a.dat"), hash: "H1"})
	os.WriteFile(p, []byte("version two, longer"), 0o644) // rewritten after it was sent
	b.finish(f30polled{f30pollable{"a.dat"}, true})
	if got, err := os.ReadFile(p); err != nil {
		t.Errorf("the confirmation of version 1 deleted the source file, which by now holds version 2 (never hashed, never sent): %v", err)
	} else if string(got) != "version two, longer" {
		t.Errorf("content changed: %q", got)
	}
}

// F30b: a confirmed file is kept for its delete-delay; it is rewritten in the
// meantime.  The next scan finds the new version (it is in this scan's
// batch), but the clean-up that runs in the same scan still sees the old,
// done entry and removes the file by path before the new version is hashed.
func TestProbeF30bAgedDeleteSparesARewrittenFile(t *testing.T) {
	b, out, c, st := f30broker(t, time.Minute)
	p := filepath.Join(out, "b.dat")
	os.WriteFile(p, []byte("version one"), 0o644)
	old := time.Now().Add(-time.Hour)
	os.Chtimes(p, old, old)
	c.Add(&hashFile{File: f30scanOne(t, st, "b.dat"), hash: "H1"})
	c.Done("b.dat", nil)
	os.WriteFile(p, []byte("version two, longer"), 0o644)
	old2 := time.Now().Add(-10 * time.Minute)
	os.Chtimes(p, old2, old2)
	b.Conf.Threads = 1
	b.Conf.PayloadSize = 1000
	b.scan()
	if _, err := os.Stat(p); err != nil {
		t.Errorf("the scan's clean-up of the aged, confirmed version 1 deleted the file, which by now holds version 2: %v", err)
	}
}
