package stage

import (
	"bytes"
	"os"
	"path/filepath"
	"testing"
	"time"

	"github.com/arm-doe/sts"
	"github.com/arm-doe/sts/log"
	"github.com/arm-doe/sts/mock"
)

type probePart struct {
	name     string
	size     int64
	beg, end int64
}

func (p *probePart) GetName() string          { return p.name }
func (p *probePart) GetRenamed() string       { return "" }
func (p *probePart) GetPrev() string          { return "" }
func (p *probePart) GetFileTime() time.Time { return time.Time{} }
func (p *probePart) GetFileHash() string      { return "H" }
func (p *probePart) GetFileSize() int64       { return p.size }
func (p *probePart) GetSendSize() int64       { return p.size }
func (p *probePart) GetSlice() (int64, int64) { return p.beg, p.end }

// F4: a part announced as bytes [0,10) arrives with only 5 bytes (the body
// ended early, cleanly).  The receiver must refuse it and record nothing.
func TestProbeF4ShortPartIsNotRecorded(t *testing.T) {
	log.InitExternal(&mock.Logger{DebugMode: false})
	root := t.TempDir()
	stageDir := filepath.Join(root, "stage")
	os.MkdirAll(stageDir, 0o755)
	s := New("probe", stageDir, filepath.Join(root, "final"), log.NewFileIO(filepath.Join(root, "log"), nil, nil, false), nil, nil)
	name := "x.dat"
	base := filepath.Join(stageDir, name)
	if err := s.initStageFile(base, 20); err != nil {
		t.Fatal(err)
	}
	file := &sts.Partial{Name: name, Size: 20, Hash: "H", Source: "probe",
		Parts: []*sts.ByteRange{{Beg: 0, End: 10}}}
	err := s.Receive(file, bytes.NewReader([]byte("12345")))
	cmp, _ := readLocalCompanion(base, name)
	if err == nil {
		t.Errorf("Receive accepted a part of 5 bytes announced as 10")
	}
	if cmp != nil && len(cmp.Parts) > 0 {
		t.Errorf("range %d:%d is on record although only 5 bytes were written", cmp.Parts[0].Beg, cmp.Parts[0].End)
	}
}
