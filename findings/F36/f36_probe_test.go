package main

import (
	"testing"

	"github.com/arm-doe/sts"
)

// F36: every numeric option of a source has a default - except `threads`.
// Omitted (all sample configurations give it, none of the documentation calls
// it required) it stays 0 and is handed to the sender as is: the send, retry
// and hash pools are started with 0 workers and every channel is unbuffered.
// The first scan then blocks for ever in hash() (a send on a channel nobody
// reads - see f36_client_probe_test.go, package client); nothing is ever sent and no
// message says why.
func TestProbeF36ThreadsHasADefault(t *testing.T) {
	a := &clientApp{conf: &sts.SourceConf{Name: "s", Target: &sts.TargetConf{Name: "t", Host: "localhost:1"}}}
	if err := a.setDefaults(); err != nil {
		return // refusing the configuration would be an answer too
	}
	if a.conf.Threads < 1 {
		t.Errorf("threads omitted: the sender is configured with %d workers", a.conf.Threads)
	}
}
