package client

import (
	"os"
	"path/filepath"
	"testing"
	"time"

	"github.com/arm-doe/sts"
	"github.com/arm-doe/sts/log"
	"github.com/arm-doe/sts/mock"
	"github.com/arm-doe/sts/store"
)

// The consequence of F36 inside the sender: with zero workers hash() hands its
// first batch to a channel nobody reads.  This half shows what Threads == 0
// means to the sender and fails on the repaired tree as well: the repair
// (a4676e5) is in package main, which no longer hands a zero down.
func TestProbeF36ConsequenceHashWithNoWorkersBlocks(t *testing.T) {
	log.InitExternal(&mock.Logger{DebugMode: false})
	out := t.TempDir()
	os.WriteFile(filepath.Join(out, "a.dat"), []byte("hello"), 0o644)
	st := &store.Local{Root: out}
	files, _, err := st.Scan(nil)
	if err != nil || len(files) != 1 {
		t.Fatal(err, len(files))
	}
	b := &Broker{Conf: &Conf{Name: "probe", Store: st, Threads: 0}}
	done := make(chan int, 1)
	go func() {
		n, _ := b.hash([]sts.Hashed{&hashFile{File: files[0]}}, b.Conf.Threads, 1000)
		done <- n
	}()
	select {
	case <-done:
	case <-time.After(3 * time.Second):
		t.Errorf("hash() with Conf.Threads == 0 did not return within 3 s: the scan is stuck")
	}
}
