package main

import (
	"testing"
	"time"

	"github.com/arm-doe/sts"
)

// F31: the defaults for poll-interval and poll-delay are written as bare
// numbers into time.Duration fields: 60 and 5 NANOseconds instead of the
// documented 1 m and 5 s.  With no poll settings in the configuration the
// ten poll attempts are used up within microseconds of the transmission -
// long before a receiver can have hashed the file - and the file is taken for
// lost, hashed again and re-sent whole.
func TestProbeF31PollDefaultsAreDurations(t *testing.T) {
	a := &clientApp{conf: &sts.SourceConf{Name: "s", Target: &sts.TargetConf{Name: "t", Host: "localhost:1"}}}
	if err := a.setDefaults(); err != nil {
		t.Fatal(err)
	}
	if a.conf.PollInterval < time.Second {
		t.Errorf("default poll-interval = %v (documented: 1m)", a.conf.PollInterval)
	}
	if a.conf.PollDelay < time.Second {
		t.Errorf("default poll-delay = %v (documented: 5s)", a.conf.PollDelay)
	}
}
