package store

import (
	"os"
	"path/filepath"
	"sort"
	"testing"
	"time"

	"github.com/arm-doe/sts/log"
	"github.com/arm-doe/sts/mock"
)

// F28: with link-following off a symbolic link is resolved by os.Stat on the
// link TEXT - for a relative target that is relative to the process's working
// directory, not to the directory the link is in.  The stat fails, handleNode
// hands the error to the walk, the walk stops, Scan returns the error and NO
// file of the whole tree is returned - on every scan, for as long as the link
// is there.  A dangling link does the same.
func TestProbeF28RelativeOrDanglingLinkDoesNotStopTheScan(t *testing.T) {
	log.InitExternal(&mock.Logger{DebugMode: false})
	root := t.TempDir()
	old := time.Now().Add(-time.Hour)
	mk := func(rel, content string) {
		p := filepath.Join(root, rel)
		os.MkdirAll(filepath.Dir(p), 0o755)
		os.WriteFile(p, []byte(content), 0o644)
		os.Chtimes(p, old, old)
	}
	mk("a/one.dat", "1")
	mk("a/target.dat", "22")
	mk("b/two.dat", "333")
	if err := os.Symlink("target.dat", filepath.Join(root, "a", "rel-link.dat")); err != nil { // relative target, as `ln -s target.dat rel-link.dat` makes it
		t.Skip(err)
	}
	os.Symlink(filepath.Join(root, "a", "gone.dat"), filepath.Join(root, "b", "dangling.dat"))
	dir := &Local{Root: root, MinAge: 0}
	files, _, err := dir.Scan(nil)
	if err != nil {
		t.Errorf("Scan failed: %v", err)
	}
	var got []string
	for _, f := range files {
		got = append(got, f.GetName())
	}
	sort.Strings(got)
	want := map[string]bool{"a/one.dat": true, "a/target.dat": true, "b/two.dat": true, "a/rel-link.dat": true}
	have := map[string]bool{}
	for _, g := range got {
		have[g] = true
	}
	for w := range want {
		if !have[w] {
			t.Errorf("eligible file %s was not returned by the scan (got %v)", w, got)
		}
	}
	for _, f := range files {
		if f.GetName() == "a/rel-link.dat" && f.GetSize() != 2 {
			t.Errorf("a/rel-link.dat: size %d, want the target's 2", f.GetSize())
		}
		if f.GetName() == "a/rel-link.dat" {
			// ... and what is hashed and streamed is the target, found from the link's directory
			rd, err := dir.Open(f)
			if err != nil {
				t.Errorf("a/rel-link.dat cannot be opened for hashing/sending: %v", err)
				continue
			}
			buf := make([]byte, 8)
			n, _ := rd.Read(buf)
			rd.Close()
			if string(buf[:n]) != "22" {
				t.Errorf("a/rel-link.dat: opened content %q, want the target's \"22\"", buf[:n])
			}
		}
	}
}
