package stage

import (
	"os"
	"path/filepath"
	"testing"
	"time"

	"github.com/arm-doe/sts"
	"github.com/arm-doe/sts/fileutil"
	"github.com/arm-doe/sts/log"
	"github.com/arm-doe/sts/mock"
)

// F26: fileutil.Move renames the validated file to <final>/<name>.lck and then
// to <final>/<name>.  A receiver crash between the two renames leaves the
// file under the intermediate name only.  The record was written before the
// move, so after the restart the sender is told "passed"; Recover finds the
// companion without any staged file, removes it as an orphan, and nothing
// ever gives the file its proper name.  The crash image is built by doing
// exactly what Move had done up to that point.
func TestProbeF26CrashInsideMoveLosesNothing(t *testing.T) {
	log.InitExternal(&mock.Logger{DebugMode: false})
	root := t.TempDir()
	stageDir, finalDir := filepath.Join(root, "stage"), filepath.Join(root, "final")
	os.MkdirAll(stageDir, 0o755)
	os.MkdirAll(finalDir, 0o755)
	logger := log.NewFileIO(filepath.Join(root, "log"), nil, nil, false)
	name := "x.dat"
	base := filepath.Join(stageDir, name)
	content := []byte("validated content")
	// what putFileAway had done when the process died: record written, first rename of Move done
	writeCompanion(base, &sts.Partial{Name: name, Hash: "H", Size: int64(len(content)), Parts: []*sts.ByteRange{{Beg: 0, End: int64(len(content))}}})
	logger.Received(&finalFile{path: base, name: name, hash: "H", size: int64(len(content))})
	os.WriteFile(filepath.Join(finalDir, name)+fileutil.LockExt, content, 0o644)
	// restart
	s := New("probe", stageDir, finalDir, logger, nil, nil)
	s.Recover()
	time.Sleep(300 * time.Millisecond)
	if st := s.GetFileStatus(name, time.Now().Add(-time.Minute)); st != sts.ConfirmPassed {
		t.Logf("status after restart: %d", st)
	}
	if _, err := os.Stat(filepath.Join(finalDir, name)); err != nil {
		_, lck := os.Stat(filepath.Join(finalDir, name) + fileutil.LockExt)
		_, cmp := os.Stat(base + compExt)
		t.Errorf("after the restart %s is not in the final directory (intermediate %s.lck still there: %v; companion still there: %v) although the sender is told it passed", name, name, lck == nil, cmp == nil)
	}
}
