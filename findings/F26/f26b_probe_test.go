package fileutil

import (
	"fmt"
	"os"
	"path/filepath"
	"sync/atomic"
	"testing"
)

// F26 (the crash window itself): while Move runs there must be no moment at
// which the file exists neither under its source name nor under its final
// name - a crash at such a moment leaves it under an intermediate name only
// (see f26_probe_test.go for what the receiver makes of that after a restart).
// An observer polls both names while files are moved within one file system.
func TestProbeF26bMoveHasNoMomentWithoutSourceAndDestination(t *testing.T) {
	dir := t.TempDir()
	var cur atomic.Value // [2]string
	var stop atomic.Bool
	seen := make(chan string, 1)
	go func() {
		for !stop.Load() {
			v, _ := cur.Load().([2]string)
			if v[0] == "" {
				continue
			}
			_, e1 := os.Lstat(v[0])
			_, e2 := os.Lstat(v[1])
			if e1 != nil && e2 != nil {
				// re-check the order: the move may have completed in between the two looks
				if _, e2b := os.Lstat(v[1]); e2b != nil {
					if _, e1b := os.Lstat(v[0]); e1b != nil && cur.Load().([2]string) == v {
						select {
						case seen <- v[1]:
						default:
						}
					}
				}
			}
		}
	}()
	for i := 0; i < 30000; i++ {
		src := filepath.Join(dir, fmt.Sprintf("s%06d.wait", i))
		dst := filepath.Join(dir, fmt.Sprintf("d%06d", i))
		os.WriteFile(src, []byte("x"), 0o644)
		cur.Store([2]string{src, dst})
		if err := Move(src, dst); err != nil {
			t.Fatal(err)
		}
		if _, err := os.Lstat(dst); err != nil {
			t.Fatal(err)
		}
		cur.Store([2]string{"", ""})
		select {
		case d := <-seen:
			stop.Store(true)
			t.Fatalf("during Move there was a moment when neither the source nor %s existed (only %s%s): a crash then strands the file under the intermediate name", filepath.Base(d), filepath.Base(d), LockExt)
		default:
		}
		os.Remove(dst)
	}
	stop.Store(true)
}
