package stage

import (
	"bytes"
	"crypto/md5"
	"fmt"
	"io"
	"os"
	"path/filepath"
	"strings"
	"testing"
	"time"

	"github.com/arm-doe/sts"
	"github.com/arm-doe/sts/log"
	"github.com/arm-doe/sts/marshal"
	"github.com/arm-doe/sts/mock"
)

type g38Part struct {
	name, renamed, prev, hash string
	size, beg, end           int64
	t                        time.Time
}

func (p *g38Part) GetName() string          { return p.name }
func (p *g38Part) GetRenamed() string       { return p.renamed }
func (p *g38Part) GetPrev() string          { return p.prev }
func (p *g38Part) GetFileTime() time.Time   { return p.t }
func (p *g38Part) GetFileHash() string      { return p.hash }
func (p *g38Part) GetFileSize() int64       { return p.size }
func (p *g38Part) GetSendSize() int64       { return p.size }
func (p *g38Part) GetSlice() (int64, int64) { return p.beg, p.end }

func g38MD5(b []byte) string { return fmt.Sprintf("%x", md5.Sum(b)) }

func g38Send(s *Stage, name, prev, hash string, content []byte, beg, end int64, r io.Reader) error {
	p := &g38Part{name: name, prev: prev, hash: hash, size: int64(len(content)), beg: beg, end: end, t: time.Now()}
	s.Prepare([]sts.Binned{p})
	if r == nil {
		r = bytes.NewReader(content[beg:end])
	}
	return s.Receive(&sts.Partial{
		Name: name, Prev: prev, Size: int64(len(content)), Hash: hash, Source: "src",
		Time:  marshal.NanoTime{Time: p.t},
		Parts: []*sts.ByteRange{{Beg: beg, End: end}},
	}, r)
}

func g38Wait(t *testing.T, what string, cond func() bool) {
	t.Helper()
	deadline := time.Now().Add(10 * time.Second)
	for time.Now().Before(deadline) {
		if cond() {
			return
		}
		time.Sleep(5 * time.Millisecond)
	}
	t.Fatalf("timed out waiting for %s", what)
}

func g38LogLines(t *testing.T, dir string) (lines []string) {
	filepath.Walk(dir, func(p string, info os.FileInfo, err error) error {
		if err == nil && !info.IsDir() {
			b, _ := os.ReadFile(p)
			for _, l := range strings.Split(string(b), "\n") {
				if l != "" {
					lines = append(lines, l)
				}
			}
		}
		return nil
	})
	return
}

func g38New(t *testing.T) (s *Stage, stageDir, finalDir, logDir string) {
	log.InitExternal(&mock.Logger{DebugMode: false})
	root := t.TempDir()
	stageDir = filepath.Join(root, "stage")
	finalDir = filepath.Join(root, "final")
	logDir = filepath.Join(root, "logs")
	os.MkdirAll(stageDir, 0775)
	os.MkdirAll(finalDir, 0775)
	s = New("x", stageDir, finalDir, log.NewFileIO(logDir, nil, nil, true), nil, nil)
	return
}


// g38Slow hands out its first half at once and the second half - garbage, as if
// corrupted in transit - only when released.
type g38Slow struct {
	first, second []byte
	release       chan struct{}
	state         int
}

func (r *g38Slow) Read(p []byte) (int, error) {
	switch r.state {
	case 0:
		r.state = 1
		return copy(p, r.first), nil
	case 1:
		<-r.release
		r.state = 2
		return copy(p, r.second), nil
	}
	return 0, io.EOF
}

// F38: Receive copies the part into <name>.part BEFORE it takes the file's
// lock, through a handle that follows the inode.  A slow transmission of a part
// is overtaken by its own retransmission on another connection (the sender
// timed out and sent it again): the file completes, is validated, logged and
// moved (renamed - same inode) to the final directory.  The slow request is
// still inside io.Copy: when its remaining bytes arrive - here corrupted in
// transit - they are written into the DELIVERED file.  Nothing notices: the
// receive log holds the hash of the good content.
func TestProbeF38LatePartWritesIntoTheDeliveredFile(t *testing.T) {
	s, _, finalDir, logDir := g38New(t)
	content := bytes.Repeat([]byte("A"), 50)
	hash := g38MD5(content)
	slow := &g38Slow{first: content[:25], second: bytes.Repeat([]byte("X"), 25), release: make(chan struct{})}
	done := make(chan error, 1)
	go func() { done <- g38Send(s, "f", "", hash, content, 0, 50, slow) }()
	g38Wait(t, "the slow request to be inside the copy", func() bool { return slow.state == 1 })
	time.Sleep(100 * time.Millisecond)
	if err := g38Send(s, "f", "", hash, content, 0, 50, nil); err != nil { // the retransmission
		t.Fatal(err)
	}
	g38Wait(t, "f delivered", func() bool { _, err := os.Stat(filepath.Join(finalDir, "f")); return err == nil })
	time.Sleep(200 * time.Millisecond)
	before, _ := os.ReadFile(filepath.Join(finalDir, "f"))
	if g38MD5(before) != hash {
		t.Fatalf("set-up: delivered f is not the announced content")
	}
	close(slow.release) // the rest of the slow transmission arrives
	<-done
	after, _ := os.ReadFile(filepath.Join(finalDir, "f"))
	if g38MD5(after) != hash {
		t.Errorf("the late part was written into the delivered file: f in the final directory now has MD5 %s, the receive log says %s (%q)", g38MD5(after), hash, g38LogLines(t, logDir))
	}
}
