package stage

import (
	"bytes"
	"crypto/md5"
	"fmt"
	"io"
	"os"
	"path/filepath"
	"strings"
	"testing"
	"time"

	"github.com/arm-doe/sts"
	"github.com/arm-doe/sts/log"
	"github.com/arm-doe/sts/marshal"
	"github.com/arm-doe/sts/mock"
)

type g53Part struct {
	name, renamed, prev, hash string
	size, beg, end           int64
	t                        time.Time
}

func (p *g53Part) GetName() string          { return p.name }
func (p *g53Part) GetRenamed() string       { return p.renamed }
func (p *g53Part) GetPrev() string          { return p.prev }
func (p *g53Part) GetFileTime() time.Time   { return p.t }
func (p *g53Part) GetFileHash() string      { return p.hash }
func (p *g53Part) GetFileSize() int64       { return p.size }
func (p *g53Part) GetSendSize() int64       { return p.size }
func (p *g53Part) GetSlice() (int64, int64) { return p.beg, p.end }

func g53MD5(b []byte) string { return fmt.Sprintf("%x", md5.Sum(b)) }

func g53Send(s *Stage, name, prev, hash string, content []byte, beg, end int64, r io.Reader) error {
	p := &g53Part{name: name, prev: prev, hash: hash, size: int64(len(content)), beg: beg, end: end, t: time.Now()}
	s.Prepare([]sts.Binned{p})
	if r == nil {
		r = bytes.NewReader(content[beg:end])
	}
	return s.Receive(&sts.Partial{
		Name: name, Prev: prev, Size: int64(len(content)), Hash: hash, Source: "src",
		Time:  marshal.NanoTime{Time: p.t},
		Parts: []*sts.ByteRange{{Beg: beg, End: end}},
	}, r)
}

func g53Wait(t *testing.T, what string, cond func() bool) {
	t.Helper()
	deadline := time.Now().Add(10 * time.Second)
	for time.Now().Before(deadline) {
		if cond() {
			return
		}
		time.Sleep(5 * time.Millisecond)
	}
	t.Fatalf("timed out waiting for %s", what)
}

func g53LogLines(t *testing.T, dir string) (lines []string) {
	filepath.Walk(dir, func(p string, info os.FileInfo, err error) error {
		if err == nil && !info.IsDir() {
			b, _ := os.ReadFile(p)
			for _, l := range strings.Split(string(b), "\n") {
				if l != "" {
					lines = append(lines, l)
				}
			}
		}
		return nil
	})
	return
}

func g53New(t *testing.T) (s *Stage, stageDir, finalDir, logDir string) {
	log.InitExternal(&mock.Logger{DebugMode: false})
	root := t.TempDir()
	stageDir = filepath.Join(root, "stage")
	finalDir = filepath.Join(root, "final")
	logDir = filepath.Join(root, "logs")
	os.MkdirAll(stageDir, 0775)
	os.MkdirAll(finalDir, 0775)
	s = New("x", stageDir, finalDir, log.NewFileIO(logDir, nil, nil, true), nil, nil)
	return
}


// F53: the deliverer tries a failed move again after a second, two, three ...
// - but only a failed MOVE, and only when the error is not `does not exist`.
// When the target's directory cannot be made (here: a plain file is in the way,
// a full disk or a permission do the same), or when it vanishes between MkdirAll
// and the move (a prune running at that moment), putFileAway just returns: the
// file stays validated - the sender is told `passed` and releases its copy -
// with nothing that would ever look at it again until the receiver restarts.
func TestProbeF53ADeliveryThatCannotMakeItsDirectoryIsTriedAgain(t *testing.T) {
	s, _, finalDir, _ := g53New(t)
	obstacle := filepath.Join(finalDir, "sub")
	os.WriteFile(obstacle, []byte("in the way"), 0o644)
	content := bytes.Repeat([]byte("A"), 40)
	if err := g53Send(s, "sub/x.dat", "", g53MD5(content), content, 0, 40, nil); err != nil {
		t.Fatal(err)
	}
	g53Wait(t, "x validated", func() bool { return s.GetFileStatus("sub/x.dat", time.Now()) == sts.ConfirmPassed })
	time.Sleep(300 * time.Millisecond)
	os.Remove(obstacle) // the operator clears the obstacle
	deadline := time.Now().Add(5 * time.Second)
	for time.Now().Before(deadline) {
		if _, err := os.Stat(filepath.Join(finalDir, "sub", "x.dat")); err == nil {
			return
		}
		time.Sleep(50 * time.Millisecond)
	}
	t.Errorf("sub/x.dat is reported `passed` but is still not delivered 5 s after the obstacle was cleared: nothing tries again")
}
