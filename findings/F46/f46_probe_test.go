package stage

import (
	"bytes"
	"crypto/md5"
	"fmt"
	"io"
	"os"
	"path/filepath"
	"strings"
	"testing"
	"time"

	"github.com/arm-doe/sts"
	"github.com/arm-doe/sts/log"
	"github.com/arm-doe/sts/marshal"
	"github.com/arm-doe/sts/mock"
)

type g46Part struct {
	name, renamed, prev, hash string
	size, beg, end           int64
	t                        time.Time
}

func (p *g46Part) GetName() string          { return p.name }
func (p *g46Part) GetRenamed() string       { return p.renamed }
func (p *g46Part) GetPrev() string          { return p.prev }
func (p *g46Part) GetFileTime() time.Time   { return p.t }
func (p *g46Part) GetFileHash() string      { return p.hash }
func (p *g46Part) GetFileSize() int64       { return p.size }
func (p *g46Part) GetSendSize() int64       { return p.size }
func (p *g46Part) GetSlice() (int64, int64) { return p.beg, p.end }

func g46MD5(b []byte) string { return fmt.Sprintf("%x", md5.Sum(b)) }

func g46Send(s *Stage, name, prev, hash string, content []byte, beg, end int64, r io.Reader) error {
	p := &g46Part{name: name, prev: prev, hash: hash, size: int64(len(content)), beg: beg, end: end, t: time.Now()}
	s.Prepare([]sts.Binned{p})
	if r == nil {
		r = bytes.NewReader(content[beg:end])
	}
	return s.Receive(&sts.Partial{
		Name: name, Prev: prev, Size: int64(len(content)), Hash: hash, Source: "src",
		Time:  marshal.NanoTime{Time: p.t},
		Parts: []*sts.ByteRange{{Beg: beg, End: end}},
	}, r)
}

func g46Wait(t *testing.T, what string, cond func() bool) {
	t.Helper()
	deadline := time.Now().Add(10 * time.Second)
	for time.Now().Before(deadline) {
		if cond() {
			return
		}
		time.Sleep(5 * time.Millisecond)
	}
	t.Fatalf("timed out waiting for %s", what)
}

func g46LogLines(t *testing.T, dir string) (lines []string) {
	filepath.Walk(dir, func(p string, info os.FileInfo, err error) error {
		if err == nil && !info.IsDir() {
			b, _ := os.ReadFile(p)
			for _, l := range strings.Split(string(b), "\n") {
				if l != "" {
					lines = append(lines, l)
				}
			}
		}
		return nil
	})
	return
}

func g46New(t *testing.T) (s *Stage, stageDir, finalDir, logDir string) {
	log.InitExternal(&mock.Logger{DebugMode: false})
	root := t.TempDir()
	stageDir = filepath.Join(root, "stage")
	finalDir = filepath.Join(root, "final")
	logDir = filepath.Join(root, "logs")
	os.MkdirAll(stageDir, 0775)
	os.MkdirAll(finalDir, 0775)
	s = New("x", stageDir, finalDir, log.NewFileIO(logDir, nil, nil, true), nil, nil)
	return
}


func g46Park(t *testing.T, stageDir, name, prev string, content []byte) {
	t.Helper()
	base := filepath.Join(stageDir, name)
	if err := os.WriteFile(base+waitExt, content, 0o600); err != nil {
		t.Fatal(err)
	}
	cmp := &sts.Partial{Name: name, Prev: prev, Size: int64(len(content)), Hash: g46MD5(content), Source: "src",
		Parts: []*sts.ByteRange{{Beg: 0, End: int64(len(content))}}}
	if err := writeCompanion(base, cmp); err != nil {
		t.Fatal(err)
	}
}

// F46: the receiver died between writing the receive-log record of P and moving
// P into the final directory; S, the successor of P, was validated and parked
// behind it.  Recover enters the parked files as validated and starts their
// finalization ONE BY ONE, in directory order: S (early in the walk) is handed
// to the finalize chain while P (late in the walk) is still what the log refill
// made of it - `logged`, which isFileReady takes for delivered.  S goes into
// the final directory before its predecessor.
func TestProbeF46RecoveryKeepsTheOrderBehindALoggedButUnmovedPredecessor(t *testing.T) {
	_, stageDir, finalDir, logDir := g46New(t)
	pc := []byte("predecessor content")
	lg := log.NewFileIO(logDir, nil, nil, false)
	lg.Received(&finalFile{name: "z-pred", hash: g46MD5(pc), size: int64(len(pc))}) // logged ... and then the crash
	g46Park(t, stageDir, "a-succ", "z-pred", []byte("successor content"))
	for i := 0; i < 3000; i++ { // other parked files the walk meets in between
		g46Park(t, stageDir, fmt.Sprintf("m%05d", i), "never-arrives", []byte("x"))
	}
	g46Park(t, stageDir, "z-pred", "", pc)
	s2 := New("x", stageDir, finalDir, lg, nil, nil)
	violated := make(chan bool, 1)
	go func() {
		for i := 0; i < 4000; i++ {
			_, errS := os.Stat(filepath.Join(finalDir, "a-succ"))
			_, errP := os.Stat(filepath.Join(finalDir, "z-pred"))
			if errS == nil {
				violated <- errP != nil
				return
			}
			time.Sleep(time.Millisecond)
		}
		violated <- false
	}()
	s2.Recover()
	if <-violated {
		t.Errorf("a-succ is in the final directory and its predecessor z-pred is not")
	}
	g46Wait(t, "both delivered", func() bool {
		_, errS := os.Stat(filepath.Join(finalDir, "a-succ"))
		_, errP := os.Stat(filepath.Join(finalDir, "z-pred"))
		return errS == nil && errP == nil
	})
}
