package http

import (
	"bytes"
	"net"
	gohttp "net/http"
	"net/http/httptest"
	"os"
	"path/filepath"
	"strconv"
	"testing"
	"time"

	"github.com/arm-doe/sts"
	"github.com/arm-doe/sts/log"
	"github.com/arm-doe/sts/mock"
	"github.com/arm-doe/sts/payload"
	"github.com/arm-doe/sts/store"
)

type f56File struct {
	*mock.File
	alloc int64
}

func (f *f56File) GetPrev() string              { return "" }
func (f *f56File) GetSlice() (int64, int64)     { return 0, f.Size }
func (f *f56File) GetSendSize() int64           { return f.Size }
func (f *f56File) GetNextAlloc() (int64, int64) { return f.alloc, f.Size }
func (f *f56File) AddAlloc(n int64)             { f.alloc += n }
func (f *f56File) IsAllocated() bool            { return f.alloc == f.Size }

var _ sts.Binnable = (*f56File)(nil)

// F56: the data request is answered with a redirect - a maintenance page, a
// sign-on gateway in front of the receiver.  Go's client follows 301/302/303
// for a PUT as a GET without the body; the page it lands on answers 200, and
// Transmit reports every part as received: the payload is booked as
// transmitted, its files are polled, and - the receiver answering for the name -
// may be released.  Not a byte reached the receiver.
func TestProbeF56ARedirectedDataRequestIsNotAReceipt(t *testing.T) {
	log.InitExternal(&mock.Logger{DebugMode: false})
	var seen []string
	srv := httptest.NewServer(gohttp.HandlerFunc(func(w gohttp.ResponseWriter, r *gohttp.Request) {
		seen = append(seen, r.Method+" "+r.URL.Path)
		if r.Method == gohttp.MethodPut {
			gohttp.Redirect(w, r, "/maintenance.html", gohttp.StatusFound)
			return
		}
		w.WriteHeader(gohttp.StatusOK)
		w.Write([]byte("<html>back soon</html>"))
	}))
	defer srv.Close()
	host, portStr, _ := net.SplitHostPort(srv.Listener.Addr().String())
	port, _ := strconv.Atoi(portStr)
	dir := t.TempDir()
	p := filepath.Join(dir, "a.dat")
	os.WriteFile(p, bytes.Repeat([]byte("A"), 100), 0o644)
	bin := payload.NewBin(1<<20, (&store.Local{}).Open, nil)
	bin.Add(&f56File{File: &mock.File{Name: "a.dat", Path: p, Size: 100, Time: time.Unix(1700000000, 0), Hash: "h"}})
	c := &Client{SourceName: "src", TargetHost: host, TargetPort: port, Timeout: 10 * time.Second}
	n, err := c.Transmit(bin)
	if err == nil {
		t.Errorf("requests seen by the server: %v - Transmit reports %d part(s) received and no error", seen, n)
	}
	if n != 0 {
		t.Errorf("Transmit books %d part(s) as received (err=%v); the receiver got none", n, err)
	}
}
