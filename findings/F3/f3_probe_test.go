package client

import (
	"io"
	"testing"
	"time"

	"github.com/arm-doe/sts"
	"github.com/arm-doe/sts/log"
	"github.com/arm-doe/sts/mock"
)

type fakePart struct{ name string }

func (p *fakePart) GetName() string          { return p.name }
func (p *fakePart) GetRenamed() string       { return "" }
func (p *fakePart) GetPrev() string          { return "" }
func (p *fakePart) GetFileTime() time.Time   { return time.Time{} }
func (p *fakePart) GetFileHash() string      { return "h" }
func (p *fakePart) GetFileSize() int64       { return 1 }
func (p *fakePart) GetSendSize() int64       { return 1 }
func (p *fakePart) GetSlice() (int64, int64) { return 0, 1 }

type fakePayload struct{ parts []sts.Binned }

func (b *fakePayload) Add(sts.Binnable) bool { return false }
func (b *fakePayload) Remove(sts.Binned)     {}
func (b *fakePayload) IsFull() bool          { return true }
func (b *fakePayload) Split(n int) sts.Payload {
	if n < 1 || n >= len(b.parts) {
		return nil
	}
	nb := &fakePayload{parts: b.parts[n:]}
	b.parts = b.parts[:n]
	return nb
}
func (b *fakePayload) GetSize() int64                { return int64(len(b.parts)) }
func (b *fakePayload) GetParts() []sts.Binned        { return b.parts }
func (b *fakePayload) EncodeHeader() ([]byte, error) { return nil, nil }
func (b *fakePayload) GetEncoder() io.ReadCloser     { return nil }
func (b *fakePayload) GetStarted() time.Time         { return time.Time{} }
func (b *fakePayload) GetCompleted() time.Time       { return time.Time{} }

// F3: the receiver answered 206 "2 parts taken".  Only the remainder (parts
// 3 and 4) may be sent again and the head must be reported as transmitted.
func TestProbeF3PartialContentCountIsUsed(t *testing.T) {
	log.InitExternal(&mock.Logger{DebugMode: false})
	asked := 0
	b := &Broker{Conf: &Conf{
		Name: "probe",
		TxRecoverer: func(sts.Payload) (int, error) {
			asked++
			return 0, nil
		},
	}}
	b.chTransmitted = make(chan sts.Payload, 4)
	b.chStats = make(chan sts.Payload, 4)
	p := &fakePayload{parts: []sts.Binned{&fakePart{"a"}, &fakePart{"b"}, &fakePart{"c"}, &fakePart{"d"}}}
	rest := b.handleSendError(p, 2)
	if rest == nil {
		t.Fatal("nothing left to send although only 2 of 4 parts were taken")
	}
	if n := len(rest.GetParts()); n != 2 {
		t.Fatalf("sender will re-send %d parts; the receiver acknowledged 2 of 4, so exactly 2 remain", n)
	}
	if rest.GetParts()[0].GetName() != "c" {
		t.Fatalf("remainder starts at %s, want c", rest.GetParts()[0].GetName())
	}
	select {
	case head := <-b.chTransmitted:
		if len(head.GetParts()) != 2 {
			t.Fatalf("acknowledged head has %d parts, want 2", len(head.GetParts()))
		}
	default:
		t.Fatal("acknowledged head was not reported as transmitted")
	}
	if asked != 0 {
		t.Fatalf("the answer already carried the count; no recovery request was needed (made %d)", asked)
	}
}
