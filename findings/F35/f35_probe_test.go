package client

import (
	"os"
	"path/filepath"
	"testing"
	"time"

	"github.com/arm-doe/sts"
	"github.com/arm-doe/sts/cache"
	"github.com/arm-doe/sts/log"
	"github.com/arm-doe/sts/mock"
	"github.com/arm-doe/sts/store"
)

type f35polled struct {
	sts.Pollable
	received bool
}

func (p f35polled) NotFound() bool { return false }
func (p f35polled) Waiting() bool  { return false }
func (p f35polled) Failed() bool   { return false }
func (p f35polled) Received() bool { return p.received }

type f35pollable struct{ name, hash string }

func (p f35pollable) GetName() string            { return p.name }
func (p f35pollable) GetRenamed() string         { return "" }
func (p f35pollable) GetHash() string            { return p.hash }
func (p f35pollable) GetSize() int64             { return 11 }
func (p f35pollable) GetPrev() string            { return "" }
func (p f35pollable) GetStarted() time.Time      { return time.Now() }
func (p f35pollable) TimeMs() int64              { return 1 }

func f35broker(t *testing.T, delay time.Duration) (*Broker, string, *cache.JSON, *store.Local) {
	log.InitExternal(&mock.Logger{DebugMode: false})
	root := t.TempDir()
	out := filepath.Join(root, "out")
	os.MkdirAll(out, 0o755)
	st := &store.Local{Root: out}
	c, err := cache.NewJSON(filepath.Join(root, "cache"), out, "")
	if err != nil {
		t.Fatal(err)
	}
	b := &Broker{Conf: &Conf{Name: "probe", Store: st, Cache: c,
		Tagger: func(string) string { return "" },
		Tags:   []*FileTag{{Name: "", Delete: true, DeleteDelay: delay}},
	}}
	b.tagMap = map[string]*FileTag{"": b.Conf.Tags[0]}
	b.cleanSome = true
	return b, out, c, st
}

func f35scanOne(t *testing.T, st *store.Local, name string) sts.File {
	files, _, err := st.Scan(nil)
	if err != nil {
		t.Fatal(err)
	}
	for _, f := range files {
		if f.GetName() == name {
			return f
		}
	}
	t.Fatalf("%s not found by the scan", name)
	return nil
}


// F35: version 1 of a file is sent; before the receiver's confirmation
// arrives the file is rewritten AND seen by the next scan, so the cache entry
// now describes version 2 (hashed, not done).  The confirmation of version 1
// is applied by NAME: it marks version 2's entry done and - the file on disk
// matching that entry - deletes it.  Version 2 was never sent.
func TestProbeF35ConfirmationOfV1DoesNotReleaseV2(t *testing.T) {
	b, out, c, st := f35broker(t, 0)
	p := filepath.Join(out, "a.dat")
	os.WriteFile(p, []byte("version one"), 0o644)
	old := time.Now().Add(-time.Hour)
	os.Chtimes(p, old, old)
	c.Add(&hashFile{File: f35scanOne(t, st, "a.dat"), hash: "H1"})
	os.WriteFile(p, []byte("version two, longer"), 0o644)
	old2 := time.Now().Add(-30 * time.Minute)
	os.Chtimes(p, old2, old2)
	c.Add(&hashFile{File: f35scanOne(t, st, "a.dat"), hash: "H2"}) // the next scan has seen and hashed version 2
	b.finish(f35polled{f35pollable{"a.dat", "H1"}, true})      // ... and only now the verdict about version 1 comes in
	if e := c.Get("a.dat"); e == nil || e.IsDone() {
		t.Errorf("the confirmation of version 1 (H1) marked the cache entry of version 2 (H2) done: version 2 will never be sent")
	}
	if _, err := os.Stat(p); err != nil {
		t.Errorf("... and deleted the file, which holds version 2: %v", err)
	}
}
