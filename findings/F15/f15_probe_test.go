package sts

import (
	"encoding/json"
	"testing"

	yaml "gopkg.in/yaml.v2"
)

// F15: an omitted `include` is inherited from the preceding source only when
// `ignore` is omitted too (and vice versa): applyAux cuts both lists out of
// one joined slice, so as soon as either option is given the other one is an
// EMPTY BUT NON-NIL slice, which the zero-test of the inheritance copy does
// not regard as "omitted".
func TestProbeF15OmittedPatternListIsInherited(t *testing.T) {
	doc := `
OUT:
  dirs: {cache: c, logs: l, out: o}
  sources:
    - name: one
      target: {name: t1, http-host: "h:1"}
      include: ['^keep/']
      ignore: ['\.x1$']
      tags:
        - {pattern: DEFAULT}
    - name: two
      target: {name: t2, http-host: "h:2"}
      ignore: ['\.y1$']
    - name: three
      target: {name: t3, http-host: "h:3"}
      include: ['^other/']
    - name: four
      target: {name: t4, http-host: "h:4"}
`
	check := func(t *testing.T, srcs []*SourceConf) {
		str := func(ps interface{ }) string { b, _ := json.Marshal(ps); return string(b) }
		_ = str
		pl := func(s *SourceConf, incl bool) (out []string) {
			l := s.Ignore
			if incl {
				l = s.Include
			}
			for _, p := range l {
				out = append(out, p.String())
			}
			return
		}
		if got := pl(srcs[1], true); len(got) != 1 || got[0] != "^keep/" {
			t.Errorf("source two omits include: effective include %v, want the preceding source's [^keep/]", got)
		}
		if got := pl(srcs[2], false); len(got) != 1 || got[0] != `\.y1$` {
			t.Errorf("source three omits ignore: effective ignore %v, want the preceding source's [\\.y1$]", got)
		}
		if got := pl(srcs[3], true); len(got) != 1 || got[0] != "^other/" {
			t.Errorf("source four omits both: effective include %v, want [^other/]", got)
		}
	}
	var conf Conf
	if err := yaml.Unmarshal([]byte(doc), &conf); err != nil {
		t.Fatal(err)
	}
	t.Run("yaml", func(t *testing.T) { check(t, conf.Client.Sources) })
}
