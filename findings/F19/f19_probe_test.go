package stage

import (
	"os"
	"path/filepath"
	"testing"
	"time"

	"github.com/arm-doe/sts"
	"github.com/arm-doe/sts/log"
	"github.com/arm-doe/sts/mock"
)

func f19stage(t *testing.T) (*Stage, string) {
	log.InitExternal(&mock.Logger{DebugMode: false})
	root := t.TempDir()
	stageDir := filepath.Join(root, "stage")
	os.MkdirAll(stageDir, 0o755)
	return New("probe", stageDir, filepath.Join(root, "final"), log.NewFileIO(filepath.Join(root, "log"), nil, nil, false), nil, nil), stageDir
}

// F19a: (name, H) failed validation; the sender sends it again (same hash) and
// the transfer stalls for more than a day with half of it received.  The
// cleaner treats state `failed` (2) as "beyond received" (> 0) and deletes the
// partial although nothing of that name and hash was ever delivered or logged.
func TestProbeF19aFailedFileIsNotDelivered(t *testing.T) {
	s, stageDir := f19stage(t)
	name := "a/b.dat"
	base := filepath.Join(stageDir, name)
	os.MkdirAll(filepath.Dir(base), 0o755)
	s.toCache(&finalFile{path: base, name: name, hash: "H", size: 8}, stateFailed)
	os.WriteFile(base+partExt, []byte("xxxxxxxx"), 0o644)
	writeCompanion(base, &sts.Partial{Name: name, Hash: "H", Size: 8, Parts: []*sts.ByteRange{{Beg: 0, End: 4}}})
	old := time.Now().Add(-48 * time.Hour)
	os.Chtimes(base+partExt, old, old)
	s.cleanStrays(24 * time.Hour)
	if _, err := os.Stat(base + partExt); err != nil {
		t.Fatalf("the partial of a re-send in progress (its previous attempt failed validation; never delivered, never logged) was deleted: %v", err)
	}
}

// F19b: v1 of a name was delivered (it is in the receive log); a new version
// is partly received and its companion is unreadable (zero length after a
// power loss).  readLocalCompanion answers with an EMPTY record plus an error
// that is only logged; the cleaner then asks the log for (name, "") - any
// record of the name matches - and deletes partial and companion.
func TestProbeF19bUnreadableCompanionIsNotALicence(t *testing.T) {
	s, stageDir := f19stage(t)
	name := "a/c.dat"
	base := filepath.Join(stageDir, name)
	os.MkdirAll(filepath.Dir(base), 0o755)
	s.logger.Received(&finalFile{path: base, name: name, hash: "H1", size: 4})
	os.WriteFile(base+partExt, []byte("yyyyyyyy"), 0o644)
	os.WriteFile(base+compExt, nil, 0o644)
	old := time.Now().Add(-30 * time.Hour)
	os.Chtimes(base+partExt, old, old)
	s.cleanStrays(24 * time.Hour)
	if _, err := os.Stat(base + partExt); err != nil {
		t.Fatalf("the partial next to an unreadable companion was deleted on the strength of a log record of an older version: %v", err)
	}
	if _, err := os.Stat(base + compExt); err != nil {
		t.Fatalf("the (unreadable) companion was deleted: %v", err)
	}
}
