#!/usr/bin/env python3
"""Static self-test of the checker (DESIGN.md section 2).

Each entry of mutants.json describes a variant of one file of /repo with one
rule instance broken (kind=break: the check for `prop` must exit 1 and name
`rule`) or a behaviour-preserving rewrite (kind=keep: the check must stay
silent).  The variant is handed to the analyser as a go/packages overlay:
nothing is written to /repo, nothing is executed.

usage: run.py [-j N] [filter-substring ...]
"""
import json, os, subprocess, sys, tempfile, concurrent.futures as cf
HERE = os.path.dirname(os.path.abspath(__file__))
VERIF = os.path.dirname(HERE)
REPO = os.environ.get("VERIF_REPO", "/repo")
BIN = os.path.join(VERIF, "bin", "stsverif")

def run_one(m):
    path = os.path.join(REPO, m["file"])
    src = open(path).read()
    edits = m["edits"] if "edits" in m else [{"old": m["old"], "new": m["new"]}]
    for ed in edits:
        if src.count(ed["old"]) != 1:
            return (m, "SETUP", "old text occurs %d times" % src.count(ed["old"]))
        src = src.replace(ed["old"], ed["new"])
    with tempfile.TemporaryDirectory(prefix="stsverif-mut-") as td:
        f = os.path.join(td, os.path.basename(m["file"]))
        open(f, "w").write(src)
        evd = os.path.join(td, "ev")
        p = subprocess.run([BIN, "-repo", REPO, "-overlay", "%s=%s" % (m["file"], f), "-prop", m["prop"],
                            "-evidence", evd, "-known", os.path.join(VERIF, "known_findings.json")],
                           capture_output=True, text=True)
    out = p.stdout + p.stderr
    if "LOAD-FAILURE" in out:
        return (m, "SETUP", "variant does not type-check: " + out[:300])
    if m.get("kind", "break") == "break":
        if p.returncode != 1 or "VIOLATION property=%s" % m["prop"] not in out:
            return (m, "MISSED", out[-400:])
        viol = [l for l in out.splitlines() if l.startswith("  violated")]
        if m.get("rule") and not any((" " + m["rule"] + " ") in l for l in viol):
            return (m, "WRONG-RULE", "\n".join(viol)[:600])
        return (m, "ok", "")
    else:
        if p.returncode != 0 or "VIOLATION" in out:
            return (m, "FALSE-ALARM", "\n".join(l for l in out.splitlines() if "violated" in l or l.startswith("VIOLATION"))[:1500])
        return (m, "ok", "")

def main():
    args = sys.argv[1:]
    j = 8
    jsonout = None
    if args and args[0] == "-j":
        j = int(args[1]); args = args[2:]
    if args and args[0] == "--json":
        jsonout = args[1]; args = args[2:]
    muts = json.load(open(os.path.join(HERE, "mutants.json")))
    if args:
        muts = [m for m in muts if any(a in m["id"] or a == m["prop"] for a in args)]
    bad = 0
    results = []
    with cf.ThreadPoolExecutor(max_workers=j) as ex:
        for m, status, info in ex.map(run_one, muts):
            print("%-12s %-5s %-44s %s" % (status, m["prop"], m["id"], m.get("rule", "")))
            results.append({"id": m["id"], "prop": m["prop"], "kind": m.get("kind", "break"), "rule": m.get("rule", ""), "file": m["file"], "status": status})
            if status != "ok":
                bad += 1
                print("     " + info.replace("\n", "\n     "))
    if jsonout:
        json.dump(results, open(jsonout, "w"), indent=1)
    print("%d variants, %d not as expected" % (len(muts), bad))
    sys.exit(1 if bad else 0)

main()
