#!/usr/bin/env python3
"""Adds the outcome of the sensitivity audit to an evidence file (thorough tier)."""
import json, sys
ev_path, audit_path, pid = sys.argv[1:4]
ev = json.load(open(ev_path))
try:
    audit = json.load(open(audit_path))
except Exception as e:  # the audit did not run: say so, do not pretend
    audit = None
cov = ev["coverage"]
if audit is None:
    cov["sensitivity_audit"] = {"ran": False}
else:
    brk = [a for a in audit if a["kind"] == "break"]
    keep = [a for a in audit if a["kind"] != "break"]
    cov["sensitivity_audit"] = {
        "ran": True,
        "what": "each variant is the current source of one file of /repo with one rule instance broken (kind=break: the check must fire and name the rule) or rewritten without changing behaviour (kind=keep: the check must stay silent); variants are analysed through a go/packages overlay, nothing is written to /repo and nothing is executed",
        "break_variants": len(brk),
        "break_detected": sum(1 for a in brk if a["status"] == "ok"),
        "keep_variants": len(keep),
        "keep_silent": sum(1 for a in keep if a["status"] == "ok"),
        "not_applicable_to_current_source": [a["id"] for a in audit if a["status"] == "SETUP"],
        "gaps": [a for a in audit if a["status"] not in ("ok", "SETUP")],
        "variants": [{"id": a["id"], "rule": a["rule"], "file": a["file"], "kind": a["kind"], "status": a["status"]} for a in audit],
    }
    cov["evaluations"] = cov.get("evaluations", 0) + len(audit)
    for a in audit:
        if a["status"] not in ("ok", "SETUP"):
            print("SENSITIVITY-GAP property=%s variant=%s status=%s" % (pid, a["id"], a["status"]))
    print("%s [thorough]: sensitivity audit %d/%d broken variants detected, %d/%d behaviour-preserving variants silent" % (
        pid, cov["sensitivity_audit"]["break_detected"], len(brk), cov["sensitivity_audit"]["keep_silent"], len(keep)))
ev["tier"] = "thorough"
json.dump(ev, open(ev_path, "w"), indent=1)
