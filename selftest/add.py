#!/usr/bin/env python3
# usage: add.py <<EOF (json list of mutants) — appends to mutants.json, replacing same ids
import json, sys, os
p = os.path.join(os.path.dirname(os.path.abspath(__file__)), "mutants.json")
cur = json.load(open(p))
new = json.load(sys.stdin)
ids = {m["id"] for m in new}
cur = [m for m in cur if m["id"] not in ids] + new
json.dump(cur, open(p, "w"), indent=1)
print(len(cur), "mutants")
