# Go environment that works offline in this sandbox (see DESIGN.md section 1)
export GOFLAGS=-mod=mod GOPROXY=off GOSUMDB=off GOTOOLCHAIN=local GOWORK=off
export PATH=/opt/veriftools/go1.26.8/bin:$PATH
unset GOWORK_FILE 2>/dev/null || true
