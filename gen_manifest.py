#!/usr/bin/env python3
"""Generates MANIFEST.json from the table below (kept in one place so the
manifest stays valid and current while rules are added)."""
import json, os
HERE = os.path.dirname(os.path.abspath(__file__))

# property -> (design section, what is decided, what is NOT decided)
CLAIMS = json.load(open(os.path.join(HERE, "claims.json")))
ALL = ["C%02d" % i for i in range(1, 21)]

checks, na = [], []
for pid in ALL:
    c = CLAIMS.get(pid)
    if not c or not c.get("claimed"):
        na.append({"property_id": pid, "reason": (c or {}).get("reason", "no static check built yet for this property")})
        continue
    checks.append({
        "property_id": pid,
        "quick_cmd": "./check.sh %s quick" % pid,
        "thorough_cmd": "./check.sh %s thorough" % pid,
        "evidence_file": "/verif/evidence/%s.json" % pid,
        "replay_cmd_template": "./check.sh %s quick   # violated obligations are listed in {path}" % pid,
        "engine": "stsverif",
        "level_claimed": {
            "category": "other",
            "text": "Static analysis, structural necessary conditions decided for all paths of the current source: " + c["decided"],
            "design_ref": "DESIGN.md section " + c["section"],
        },
        "level_note": "NOT decided (behavioural core outside the reach of static analysis): " + c["not_decided"] +
                      " Trusted base: go/types + go/ssa (x/tools v0.50.0) model of the source; rule tables frozen in checker/rules_%s.go." % pid.lower(),
        "technique": c.get("technique", "static analysis: path-sensitive guard/order dataflow over go/ssa, call-site enumeration, taint, table agreement"),
    })

manifest = {
    "version": 1,
    "setup_cmd": "./setup.sh",
    "hooks": {
        "guard": "verif",
        "enable": "none needed: static analysis reads the source; no instrumentation is compiled into /repo",
        "baseline_off_cmd": "cd /repo && export GOFLAGS=-mod=mod GOPROXY=off GOSUMDB=off GOTOOLCHAIN=local PATH=/opt/veriftools/go1.26.8/bin:$PATH && go test -json -vet=off -count=1 -timeout 25m ./...",
        "source_commits": [],
        "add_only": True,
    },
    "engines": [{
        "name": "stsverif",
        "path": "/verif/checker",
        "serves_properties": [c["property_id"] for c in checks],
        "kind_free_text": "custom Go static analyser (go/packages + go/ssa, x/tools v0.50.0): canonical symbolic expressions, path-sensitive label dataflow, field-based taint, call-site enumeration, AST table checks",
    }],
    "checks": checks,
    "not_applicable": na,
    "notes": "All checks are static: they load /repo's working tree (type-check + SSA) on every run and execute nothing from it. known_findings.json lists genuine defects (status known/fixed); selftest/ holds the checker's own mutation self-test (go/packages overlays).",
}
json.dump(manifest, open(os.path.join(HERE, "MANIFEST.json"), "w"), indent=1)
print("claimed:", len(checks), "not_applicable:", len(na))
